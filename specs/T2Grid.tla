------------------------------- MODULE T2Grid -------------------------------
(***************************************************************************)
(* The TOUGH2 grid container of PyTOUGH (t2grids.py: class t2grid) as a    *)
(* state machine.  The code keeps three pairs of redundant views (ordered  *)
(* list + by-name dict for rock types, blocks, connections) and a per-     *)
(* block set of connection keys; they are SEPARATE variables here because  *)
(* the listed properties C08/C09 are exactly about their agreement.        *)
(*                                                                         *)
(* Objects carry ids (the harness tags the real Python objects), so that   *)
(* "the dict and the list describe the same objects" is expressible.       *)
(* One action per public method; preconditions are the property's domain.  *)
(***************************************************************************)
EXTENDS Naturals, Integers, Sequences, FiniteSets, TLC, SequencesExt, FiniteSetsExt, Functions

CONSTANTS
    Base,        \* level-0 block names, e.g. {"a","b","c","d"}
    RockBase,    \* rock type names, e.g. {"p","q"}
    Kinds,       \* connection kinds: "v" (vertical, cos -1), "h" (horizontal, cos 0), "s" (sloping, cos +1)
    Fracs,       \* set of MINC volume-fraction vectors, integer percentages summing to 100
    MaxBlocks,   \* bound on the number of blocks (state constraint for MC)
    AtmVol       \* volumes >= AtmVol are boundary blocks, skipped by MINC

VARIABLES
    blocks,      \* Seq([id, name, rock, vol, ctr])       -- grid.blocklist (vol, ctr: tokens)
    blockDict,   \* [name -> id]                          -- grid.block
    conns,       \* Seq([id, b1, b2, d1, d2, area, dir, cos])  -- grid.connectionlist (b1,b2 block ids)
    connDict,    \* [<<name1,name2>> -> id]               -- grid.connection
    connNames,   \* [block id -> SUBSET (name \X name)]   -- block.connection_name
    rocks,       \* Seq([id, name])                       -- grid.rocktypelist
    rockDict,    \* [name -> id]                          -- grid.rocktype
    last         \* the action that produced this state (history variable, hidden by VIEW)

vars == <<blocks, blockDict, conns, connDict, connNames, rocks, rockDict>>
allvars == <<blocks, blockDict, conns, connDict, connNames, rocks, rockDict, last>>

DefaultVol == 1000
NoCos == 99          \* token for dircos = None (MINC connections)

-----------------------------------------------------------------------------
(* helpers *)

SeqIds(s) == {s[i].id : i \in DOMAIN s}
IndexOfId(s, id) == CHOOSE i \in DOMAIN s : s[i].id = id

BlockIds == SeqIds(blocks)
LiveBlockIds == BlockIds \cup Range(blockDict)
BlockById(i) == blocks[IndexOfId(blocks, i)]
NameOf(i) == IF i \in BlockIds THEN BlockById(i).name ELSE "?"   \* total: recorded states may be inconsistent
LiveNames == {blocks[i].name : i \in DOMAIN blocks}

NewBlockId(used) == Min({i \in 1..(Cardinality(used) + 1) : i \notin used})
ConnIds == SeqIds(conns) \cup Range(connDict)
RockIds == SeqIds(rocks) \cup Range(rockDict)

ConnKey(c) == <<NameOf(c.b1), NameOf(c.b2)>>
Mentions(c, id) == c.b1 = id \/ c.b2 = id

KindDir(k) == CASE k = "v" -> 3 [] k = "h" -> 1 [] OTHER -> 2
KindCos(k) == CASE k = "v" -> -1 [] k = "h" -> 0 [] OTHER -> 1

MincName(n, k) == ToString(k) \o n
MincRock(r) == IF \E q \in RockBase : r = "X" \o q THEN r ELSE "X" \o r   \* 'X' replaces the first character
UsedRocks == {blocks[i].rock : i \in DOMAIN blocks}

-----------------------------------------------------------------------------
(* the properties: clauses of C08 *)

P1_ViewsAgree ==
    /\ \A i, j \in DOMAIN blocks : blocks[i].name = blocks[j].name => i = j
    /\ DOMAIN blockDict = LiveNames
    /\ \A i \in DOMAIN blocks : blockDict[blocks[i].name] = blocks[i].id
    /\ \A i, j \in DOMAIN conns : conns[i].id = conns[j].id => i = j
    /\ Range(connDict) = SeqIds(conns)
    /\ Cardinality(DOMAIN connDict) = Len(conns)
    /\ \A i, j \in DOMAIN rocks : rocks[i].name = rocks[j].name => i = j
    /\ DOMAIN rockDict = {rocks[i].name : i \in DOMAIN rocks}
    /\ \A i \in DOMAIN rocks : rockDict[rocks[i].name] = rocks[i].id

P2_ConnectionsJoinBlocks ==
    \A i \in DOMAIN conns :
        /\ conns[i].b1 \in BlockIds /\ conns[i].b2 \in BlockIds
        /\ conns[i].b1 # conns[i].b2
        /\ ConnKey(conns[i]) \in DOMAIN connDict
        /\ connDict[ConnKey(conns[i])] = conns[i].id

P3_BackRefs ==
    /\ DOMAIN connNames = BlockIds
    /\ \A b \in BlockIds :
          connNames[b] = {ConnKey(conns[i]) : i \in {j \in DOMAIN conns : Mentions(conns[j], b)}}

P4_RocksRegistered == \A i \in DOMAIN blocks : blocks[i].rock \in DOMAIN rockDict

TypeOK ==
    /\ \A i \in DOMAIN blocks : blocks[i].vol \in Nat
    /\ \A n \in DOMAIN blockDict : blockDict[n] \in Nat

-----------------------------------------------------------------------------
(* physical signature: clauses of C09.  Names are not part of it, ids are. *)

PairOf(c) == {c.b1, c.b2}
PhysBlocks == [i \in BlockIds |-> [vol |-> BlockById(i).vol, rock |-> BlockById(i).rock, ctr |-> BlockById(i).ctr]]
PhysConn(c) ==
    [dist  |-> (c.b1 :> c.d1) @@ (c.b2 :> c.d2),
     area  |-> c.area, dir |-> c.dir,
     upper |-> IF c.cos = NoCos THEN NoCos
               ELSE IF c.cos < 0 THEN c.b2 ELSE IF c.cos > 0 THEN c.b1 ELSE 0]
PhysSig == [blk |-> PhysBlocks,
            con |-> {PhysConn(conns[i]) : i \in DOMAIN conns}]

-----------------------------------------------------------------------------
(* actions *)

Init ==
    /\ blocks = <<>> /\ blockDict = <<>> /\ conns = <<>> /\ connDict = <<>>
    /\ connNames = <<>> /\ rocks = <<>> /\ rockDict = <<>>
    /\ last = [op |-> "init"]

AddRocktype(r) ==          \* a rock type of a name already registered replaces that one (blocks refer to rock types by name here)
    /\ LET id == NewBlockId(RockIds) IN
       /\ rocks' = IF r \in DOMAIN rockDict
                   THEN [rocks EXCEPT ![IndexOfId(rocks, rockDict[r])] = [id |-> id, name |-> r]]
                   ELSE Append(rocks, [id |-> id, name |-> r])
       /\ rockDict' = (r :> id) @@ rockDict
    /\ UNCHANGED <<blocks, blockDict, conns, connDict, connNames>>
    /\ last' = [op |-> "add_rocktype", r |-> r]

DeleteRocktype(r) ==
    /\ r \in DOMAIN rockDict /\ r \notin UsedRocks
    /\ rocks' = SelectSeq(rocks, LAMBDA x : x.id # rockDict[r])
    /\ rockDict' = Restrict(rockDict, DOMAIN rockDict \ {r})
    /\ UNCHANGED <<blocks, blockDict, conns, connDict, connNames>>
    /\ last' = [op |-> "delete_rocktype", r |-> r]

RenameRocktype(r, q) ==
    /\ r \in DOMAIN rockDict /\ q \notin DOMAIN rockDict
    /\ rocks' = [i \in DOMAIN rocks |-> IF rocks[i].id = rockDict[r] THEN [rocks[i] EXCEPT !.name = q] ELSE rocks[i]]
    /\ rockDict' = (q :> rockDict[r]) @@ Restrict(rockDict, DOMAIN rockDict \ {r})
    /\ blocks' = [i \in DOMAIN blocks |-> IF blocks[i].rock = r THEN [blocks[i] EXCEPT !.rock = q] ELSE blocks[i]]
    /\ UNCHANGED <<blockDict, conns, connDict, connNames>>
    /\ last' = [op |-> "rename_rocktype", r |-> r, q |-> q]

CleanRocktypes ==
    /\ rocks' = SelectSeq(rocks, LAMBDA x : x.name \in UsedRocks)
    /\ rockDict' = Restrict(rockDict, DOMAIN rockDict \cap UsedRocks)
    /\ UNCHANGED <<blocks, blockDict, conns, connDict, connNames>>
    /\ last' = [op |-> "clean_rocktypes"]

AddBlock(n, r, v) ==
    /\ n \notin DOMAIN blockDict /\ r \in DOMAIN rockDict
    /\ LET id == NewBlockId(LiveBlockIds) IN
       /\ blocks' = Append(blocks, [id |-> id, name |-> n, rock |-> r, vol |-> v, ctr |-> id])
       /\ blockDict' = (n :> id) @@ blockDict
       /\ connNames' = (id :> {}) @@ connNames
    /\ UNCHANGED <<conns, connDict, rocks, rockDict>>
    /\ last' = [op |-> "add_block", n |-> n, r |-> r, v |-> v]

DeleteBlock(n) ==
    /\ n \in DOMAIN blockDict
    /\ LET id == blockDict[n]
           gone == {conns[i].id : i \in {j \in DOMAIN conns : Mentions(conns[j], id)}}
           goneKeys == {k \in DOMAIN connDict : connDict[k] \in gone}
       IN
       /\ conns' = SelectSeq(conns, LAMBDA c : ~Mentions(c, id))
       /\ connDict' = Restrict(connDict, DOMAIN connDict \ goneKeys)
       /\ connNames' = [b \in DOMAIN connNames \ {id} |-> connNames[b] \ goneKeys]
       /\ blocks' = SelectSeq(blocks, LAMBDA b : b.id # id)
       /\ blockDict' = Restrict(blockDict, DOMAIN blockDict \ {n})
    /\ UNCHANGED <<rocks, rockDict>>
    /\ last' = [op |-> "delete_block", n |-> n]

AddConnection(a, b, k) ==
    /\ a \in DOMAIN blockDict /\ b \in DOMAIN blockDict /\ a # b
    /\ <<a, b>> \notin DOMAIN connDict /\ <<b, a>> \notin DOMAIN connDict
    /\ LET id == NewBlockId(ConnIds) IN
       /\ conns' = Append(conns, [id |-> id, b1 |-> blockDict[a], b2 |-> blockDict[b],
                                  d1 |-> 2 * id - 1, d2 |-> 2 * id, area |-> id,
                                  dir |-> KindDir(k), cos |-> KindCos(k)])
       /\ connDict' = (<<a, b>> :> id) @@ connDict
       /\ connNames' = [x \in DOMAIN connNames |->
                          IF x \in {blockDict[a], blockDict[b]} THEN connNames[x] \cup {<<a, b>>} ELSE connNames[x]]
    /\ UNCHANGED <<blocks, blockDict, rocks, rockDict>>
    /\ last' = [op |-> "add_connection", a |-> a, b |-> b, k |-> k]

(* add_connection under a name pair that is already there: the new connection takes the old one's place in the list *)
ReplaceConnection(a, b, k) ==
    /\ <<a, b>> \in DOMAIN connDict
    /\ LET id == NewBlockId(ConnIds)
           i == IndexOfId(conns, connDict[<<a, b>>]) IN
       /\ conns' = [conns EXCEPT ![i] = [id |-> id, b1 |-> blockDict[a], b2 |-> blockDict[b], d1 |-> 2 * id - 1, d2 |-> 2 * id,
                                          area |-> id, dir |-> KindDir(k), cos |-> KindCos(k)]]
       /\ connDict' = [connDict EXCEPT ![<<a, b>>] = id]
    /\ UNCHANGED <<blocks, blockDict, connNames, rocks, rockDict>>
    /\ last' = [op |-> "replace_connection", a |-> a, b |-> b, k |-> k]

DeleteConnection(a, b) ==
    /\ <<a, b>> \in DOMAIN connDict
    /\ LET id == connDict[<<a, b>>] IN
       /\ conns' = SelectSeq(conns, LAMBDA c : c.id # id)
       /\ connDict' = Restrict(connDict, DOMAIN connDict \ {<<a, b>>})
       /\ connNames' = [x \in DOMAIN connNames |-> connNames[x] \ {<<a, b>>}]
    /\ UNCHANGED <<blocks, blockDict, rocks, rockDict>>
    /\ last' = [op |-> "delete_connection", a |-> a, b |-> b]

(* demote_block: the named blocks are moved, in the order given, to the end of the list *)
RECURSIVE DemoteSeq(_, _)
DemoteSeq(bl, names) ==
    IF names = <<>> THEN bl
    ELSE LET i == CHOOSE j \in DOMAIN bl : bl[j].name = Head(names)
         IN DemoteSeq(Append(RemoveAt(bl, i), bl[i]), Tail(names))

DemoteBlocks(names) ==
    /\ names # <<>>
    /\ \A i \in DOMAIN names : names[i] \in LiveNames
    /\ blocks' = DemoteSeq(blocks, names)
    /\ UNCHANGED <<blockDict, conns, connDict, connNames, rocks, rockDict>>
    /\ last' = [op |-> "demote_block", names |-> names]

(* A call outside an operation's precondition that the library rejects (or should reject) by raising: renaming a rock
   type onto a name in use, deleting something that is not there, MINC whose generated matrix names collide.  A
   "clean" refusal leaves the grid as it was; after any refusal the grid is still consistent (the state invariants
   are evaluated in the state it leaves behind, whatever that is).  The same action stands for a call that has
   nothing to do: adding the block or connection object that is already in the grid.  Only recorded executions take
   this action. *)
Refused(c) ==
    /\ c.clean => UNCHANGED vars
    /\ last' = c

(* rename_blocks(m): simultaneous substitution; m restricted to live names is
   injective and its targets do not collide with an un-renamed live name.   *)
Ren(m, n) == IF n \in DOMAIN m THEN m[n] ELSE n
RenameOK(m) ==
    LET dom == DOMAIN m \cap LiveNames IN
    /\ dom # {}
    /\ \A x, y \in dom : m[x] = m[y] => x = y
    /\ \A x \in dom : m[x] \notin (LiveNames \ dom)

RenameBlocks(m) ==
    /\ RenameOK(m)
    /\ blocks' = [i \in DOMAIN blocks |-> [blocks[i] EXCEPT !.name = Ren(m, @)]]
    /\ blockDict' = [n \in {Ren(m, x) : x \in DOMAIN blockDict} |->
                        blockDict[CHOOSE x \in DOMAIN blockDict : Ren(m, x) = n]]
    /\ connDict' = [k \in {<<Ren(m, x[1]), Ren(m, x[2])>> : x \in DOMAIN connDict} |->
                        connDict[CHOOSE x \in DOMAIN connDict : <<Ren(m, x[1]), Ren(m, x[2])>> = k]]
    /\ connNames' = [b \in DOMAIN connNames |-> {<<Ren(m, x[1]), Ren(m, x[2])>> : x \in connNames[b]}]
    /\ UNCHANGED <<conns, rocks, rockDict>>
    /\ last' = [op |-> "rename_blocks", m |-> m]

(* reorder(block_names, connection_names): bp / cp are permutations given as
   sequences of indices into the current lists (<<>> = "leave alone"); rev is
   the set of connection ids that are named with their two blocks swapped.  *)
IsPermOf(p, n) == Len(p) = n /\ {p[i] : i \in DOMAIN p} = 1..n
Flip(c) == [c EXCEPT !.b1 = c.b2, !.b2 = c.b1, !.d1 = c.d2, !.d2 = c.d1,
                     !.cos = IF c.cos = NoCos THEN NoCos ELSE 0 - c.cos]
Reorder(bp, cp, rev) ==
    /\ bp = <<>> \/ IsPermOf(bp, Len(blocks))
    /\ cp = <<>> \/ IsPermOf(cp, Len(conns))
    /\ bp # <<>> \/ cp # <<>>
    /\ rev \subseteq SeqIds(conns) /\ (cp = <<>> => rev = {})
    /\ blocks' = IF bp = <<>> THEN blocks ELSE [i \in DOMAIN blocks |-> blocks[bp[i]]]
    /\ LET flipped == [i \in DOMAIN conns |-> IF conns[i].id \in rev THEN Flip(conns[i]) ELSE conns[i]]
           revKeys == {ConnKey(conns[i]) : i \in {j \in DOMAIN conns : conns[j].id \in rev}}
           Sw(k) == IF k \in revKeys THEN <<k[2], k[1]>> ELSE k
       IN
       /\ conns' = IF cp = <<>> THEN conns ELSE [i \in DOMAIN conns |-> flipped[cp[i]]]
       /\ connDict' = [k \in {Sw(x) : x \in DOMAIN connDict} |->
                           connDict[CHOOSE x \in DOMAIN connDict : Sw(x) = k]]
       /\ connNames' = [b \in DOMAIN connNames |-> {Sw(x) : x \in connNames[b]}]
    /\ UNCHANGED <<blockDict, rocks, rockDict>>
    /\ last' = [op |-> "reorder", bp |-> bp, cp |-> cp, rev |-> rev]

(* minc(fractions, blocks = sel): sel is a sequence of live names (<<>> = all
   blocks in list order).  Percentages keep the arithmetic exact.           *)
MincTargets(sel) == IF sel = <<>> THEN [i \in DOMAIN blocks |-> blocks[i].name] ELSE sel
MincApplies(n) == LET b == BlockById(blockDict[n]) IN b.vol > 0 /\ b.vol < AtmVol

RECURSIVE MincFold(_, _, _)
(* st = [blocks, blockDict, conns, connDict, connNames, rocks, rockDict] as a record *)
MincOne(st, n, fr) ==
    LET bid == st.blockDict[n]
        bi == IndexOfId(st.blocks, bid)
        b == st.blocks[bi]
        levels == 2..Len(fr)
        mrock == MincRock(b.rock)
        \* ids for the new blocks / connections, allocated lowest-first in level order
        RECURSIVE Alloc(_, _)
        Alloc(used, k) == IF k = 0 THEN <<>> ELSE LET i == NewBlockId(used) IN <<i>> \o Alloc(used \cup {i}, k - 1)
        nb == Alloc(SeqIds(st.blocks) \cup Range(st.blockDict), Len(fr) - 1)
        nc == Alloc(SeqIds(st.conns) \cup Range(st.connDict), Len(fr) - 1)
        rid == NewBlockId(SeqIds(st.rocks) \cup Range(st.rockDict))
        needRock == mrock \notin DOMAIN st.rockDict
        newBlocks == [m \in 1..(Len(fr) - 1) |->
                        [id |-> nb[m], name |-> MincName(n, m), rock |-> mrock, vol |-> (b.vol * fr[m + 1]) \div 100, ctr |-> b.ctr]]
        prevId(m) == IF m = 1 THEN bid ELSE nb[m - 1]
        prevName(m) == IF m = 1 THEN n ELSE MincName(n, m - 1)
        newConns == [m \in 1..(Len(fr) - 1) |->
                        [id |-> nc[m], b1 |-> prevId(m), b2 |-> nb[m], d1 |-> 0, d2 |-> 0, area |-> 0,
                         dir |-> 1, cos |-> NoCos]]
        key(m) == <<prevName(m), MincName(n, m)>>
        keysOf(id) == {key(m) : m \in {x \in 1..(Len(fr) - 1) : prevId(x) = id \/ nb[x] = id}}
    IN [blocks |-> [st.blocks EXCEPT ![bi].vol = (b.vol * fr[1]) \div 100] \o newBlocks,
        blockDict |-> [x \in DOMAIN st.blockDict \cup {MincName(n, m) : m \in 1..(Len(fr) - 1)} |->
                          IF x \in DOMAIN st.blockDict THEN st.blockDict[x]
                          ELSE nb[CHOOSE m \in 1..(Len(fr) - 1) : MincName(n, m) = x]],
        conns |-> st.conns \o newConns,
        connDict |-> [k \in DOMAIN st.connDict \cup {key(m) : m \in 1..(Len(fr) - 1)} |->
                          IF k \in DOMAIN st.connDict THEN st.connDict[k]
                          ELSE nc[CHOOSE m \in 1..(Len(fr) - 1) : key(m) = k]],
        connNames |-> [x \in DOMAIN st.connNames \cup Range(nb) |->
                          (IF x \in DOMAIN st.connNames THEN st.connNames[x] ELSE {}) \cup keysOf(x)],
        rocks |-> IF needRock THEN Append(st.rocks, [id |-> rid, name |-> mrock]) ELSE st.rocks,
        rockDict |-> IF needRock THEN (mrock :> rid) @@ st.rockDict ELSE st.rockDict]

MincFold(st, names, fr) ==
    IF names = <<>> THEN st
    ELSE LET n == Head(names)
             b == st.blocks[IndexOfId(st.blocks, st.blockDict[n])]
         IN MincFold(IF b.vol > 0 /\ b.vol < AtmVol THEN MincOne(st, n, fr) ELSE st, Tail(names), fr)

MincOK(fr, sel) ==
    LET tg == MincTargets(sel) IN
    /\ tg # <<>>
    /\ \A i, j \in DOMAIN tg : tg[i] = tg[j] => i = j
    /\ \A i \in DOMAIN tg : tg[i] \in LiveNames
    /\ \A i \in DOMAIN tg : tg[i] \in Base \cup {"s", "t"}     \* domain: MINC is applied to porous-medium blocks, not to MINC blocks
    /\ \A i \in DOMAIN tg : \A m \in 1..(Len(fr) - 1) : MincName(tg[i], m) \notin LiveNames

Minc(fr, sel, sc) ==          \* sc: how the caller scaled the fractions ("unit", "sub", "pct") - they are relative weights
    /\ MincOK(fr, sel)
    /\ LET st == MincFold([blocks |-> blocks, blockDict |-> blockDict, conns |-> conns, connDict |-> connDict,
                           connNames |-> connNames, rocks |-> rocks, rockDict |-> rockDict],
                          MincTargets(sel), fr) IN
       /\ blocks' = st.blocks /\ blockDict' = st.blockDict /\ conns' = st.conns
       /\ connDict' = st.connDict /\ connNames' = st.connNames
       /\ rocks' = st.rocks /\ rockDict' = st.rockDict
    /\ last' = [op |-> "minc", fr |-> fr, sel |-> sel, sc |-> sc]

(* embed(subgrid, connection): the result is a NEW grid holding the host's and the
   sub-grid's objects plus one link connection; the sub-grid's volume is carved
   out of the host block.  The sub-grid here is a chain of n blocks named by
   SubNames, of volume SubVol each, with one rock type r (which REPLACES a
   registered rock type of the same name, as add_rocktype does).             *)
SubNames == <<"s", "t">>
SubVol == 100
RECURSIVE AllocIds(_, _)
AllocIds(used, k) == IF k = 0 THEN <<>> ELSE LET x == NewBlockId(used) IN <<x>> \o AllocIds(used \cup {x}, k - 1)

Embed(h, n, r, k) ==
    /\ h \in LiveNames /\ n \in 1..Len(SubNames)
    /\ \A j \in 1..n : SubNames[j] \notin LiveNames
    /\ n * SubVol < BlockById(blockDict[h]).vol
    /\ r \in DOMAIN rockDict => r \notin UsedRocks      \* domain: a rock type in use is not replaced (as for AddRocktype)
    /\ LET hid == blockDict[h]
           bids == AllocIds(LiveBlockIds, n)
           cids == AllocIds(ConnIds, n)              \* n-1 chain connections, then the link
           rid == NewBlockId(RockIds)
           subBlocks == [j \in 1..n |-> [id |-> bids[j], name |-> SubNames[j], rock |-> r, vol |-> SubVol, ctr |-> bids[j]]]
           chain == [j \in 1..(n - 1) |-> [id |-> cids[j], b1 |-> bids[j], b2 |-> bids[j + 1],
                                           d1 |-> 2 * cids[j] - 1, d2 |-> 2 * cids[j], area |-> cids[j],
                                           dir |-> KindDir("h"), cos |-> KindCos("h")]]
           link == [id |-> cids[n], b1 |-> hid, b2 |-> bids[1], d1 |-> 2 * cids[n] - 1, d2 |-> 2 * cids[n],
                    area |-> cids[n], dir |-> KindDir(k), cos |-> KindCos(k)]
           chainKey(j) == <<SubNames[j], SubNames[j + 1]>>
           linkKey == <<h, SubNames[1]>>
           newKeys == {chainKey(j) : j \in 1..(n - 1)} \cup {linkKey}
           keysOf(id) == {chainKey(j) : j \in {x \in 1..(n - 1) : bids[x] = id \/ bids[x + 1] = id}}
                         \cup (IF id = hid \/ id = bids[1] THEN {linkKey} ELSE {})
       IN
       /\ blocks' = [i \in DOMAIN blocks |-> IF blocks[i].id = hid THEN [blocks[i] EXCEPT !.vol = @ - n * SubVol] ELSE blocks[i]]
                    \o subBlocks
       /\ blockDict' = [x \in DOMAIN blockDict \cup {SubNames[j] : j \in 1..n} |->
                          IF x \in DOMAIN blockDict THEN blockDict[x] ELSE bids[CHOOSE j \in 1..n : SubNames[j] = x]]
       /\ conns' = conns \o chain \o <<link>>
       /\ connDict' = [x \in DOMAIN connDict \cup newKeys |->
                          IF x \in DOMAIN connDict THEN connDict[x]
                          ELSE IF x = linkKey THEN cids[n] ELSE cids[CHOOSE j \in 1..(n - 1) : chainKey(j) = x]]
       /\ connNames' = [x \in DOMAIN connNames \cup Range(bids) |->
                          (IF x \in DOMAIN connNames THEN connNames[x] ELSE {}) \cup keysOf(x)]
       /\ rocks' = IF r \in DOMAIN rockDict
                   THEN [rocks EXCEPT ![IndexOfId(rocks, rockDict[r])] = [id |-> rid, name |-> r]]
                   ELSE Append(rocks, [id |-> rid, name |-> r])
       /\ rockDict' = (r :> rid) @@ rockDict
    /\ last' = [op |-> "embed", h |-> h, n |-> n, r |-> r, k |-> k]

-----------------------------------------------------------------------------
(* the action-level clauses of C08 / C09 *)

RenameStep == last'.op = "rename_blocks"
ReorderStep == last'.op = "reorder"
DemoteStep == last'.op = "demote_block"
MincStep == last'.op = "minc"

(* C08 last clause: a rename loses no block and keeps every un-renamed name *)
C08_RenameKeeps ==
    RenameStep =>
        LET m == last'.m IN
        /\ Len(blocks') = Len(blocks)
        /\ Cardinality(DOMAIN blockDict') = Cardinality(DOMAIN blockDict)
        /\ \A n \in DOMAIN blockDict \ DOMAIN m : n \in DOMAIN blockDict' /\ blockDict'[n] = blockDict[n]
        /\ \A n \in DOMAIN blockDict \cap DOMAIN m : m[n] \in DOMAIN blockDict' /\ blockDict'[m[n]] = blockDict[n]

(* C09: reorder / rename / demote leave the physics unchanged *)
C09_PhysUnchanged == (RenameStep \/ ReorderStep \/ DemoteStep) => PhysSig' = PhysSig

(* C09: embedding a sub-grid conserves total volume *)
RECURSIVE SumVol(_, _)
SumVol(bl, n) == IF n = 0 THEN 0 ELSE SumVol(bl, n - 1) + bl[n].vol
C09_Embed == last'.op = "embed" => SumVol(blocks', Len(blocks')) = SumVol(blocks, Len(blocks))

(* C09: MINC conserves each original block's volume and chains the continua *)
C09_Minc ==
    MincStep =>
        LET fr == last'.fr
            tg == IF last'.sel = <<>> THEN [i \in DOMAIN blocks |-> blocks[i].name] ELSE last'.sel
            hit == {tg[i] : i \in {j \in DOMAIN tg : MincApplies(tg[j])}}
            Has(x) == \E j \in DOMAIN blocks' : blocks'[j].name = x
            NewBlk(x) == CHOOSE j \in DOMAIN blocks' : blocks'[j].name = x
            lev(n, m) == IF m = 0 THEN n ELSE MincName(n, m)
        IN
        /\ \A n \in LiveNames \ hit :                       \* everything else untouched
              Has(n) /\ blocks'[NewBlk(n)] = BlockById(blockDict[n])
        /\ \A n \in hit :
              LET v == BlockById(blockDict[n]).vol IN
              /\ \A m \in 0..(Len(fr) - 1) : Has(lev(n, m)) /\ blocks'[NewBlk(lev(n, m))].vol * 100 = v * fr[m + 1]
              /\ \A m \in 1..(Len(fr) - 1) : <<lev(n, m - 1), lev(n, m)>> \in DOMAIN connDict'
              /\ blocks'[NewBlk(n)].ctr = BlockById(blockDict[n]).ctr
        /\ Len(conns') = Len(conns) + Cardinality(hit) * (Len(fr) - 1)      \* and no other connection is added
        /\ Len(blocks') = Len(blocks) + Cardinality(hit) * (Len(fr) - 1)
        /\ Len(conns') >= Len(conns) /\ SubSeq(conns', 1, Len(conns)) = conns

-----------------------------------------------------------------------------
(* next-state relation for model checking: argument sets kept small but
   containing the generators (adjacent swaps, single reversal, every rename map) *)

AdjSwap(n, i) == [j \in 1..n |-> IF j = i THEN i + 1 ELSE IF j = i + 1 THEN i ELSE j]
Ident(n) == [j \in 1..n |-> j]
RenameMaps == UNION {[d -> Base] : d \in SUBSET LiveNames \ {{}}}

Next ==
    \/ \E r \in RockBase : (AddRocktype(r) /\ (r \in DOMAIN rockDict => r \notin UsedRocks))     \* domain of the generated behaviours: a rock
                                \* type in use is not replaced (recorded executions may do it: its blocks then keep the old object, and the
                                \* driver leaves that name alone afterwards)
                            \/ DeleteRocktype(r)
    \/ \E r, q \in RockBase : RenameRocktype(r, q)
    \/ CleanRocktypes /\ rocks' # rocks
    \/ \E n \in Base, r \in RockBase : AddBlock(n, r, DefaultVol)
    \/ \E n \in Base : DeleteBlock(n)
    \/ \E a, b \in Base, k \in Kinds : AddConnection(a, b, k)
    \/ \E a, b \in Base : DeleteConnection(a, b)
    \/ \E n \in Base : DemoteBlocks(<<n>>) /\ blocks' # blocks
    \/ \E m \in RenameMaps : RenameBlocks(m) /\ (\E x \in DOMAIN m : m[x] # x)
    \/ \E i \in 1..(Len(blocks) - 1) : Reorder(AdjSwap(Len(blocks), i), <<>>, {})
    \/ \E i \in 1..(Len(conns) - 1) : Reorder(<<>>, AdjSwap(Len(conns), i), {})
    \/ \E c \in SeqIds(conns) : Reorder(<<>>, Ident(Len(conns)), {c})
    \/ \E fr \in Fracs : Minc(fr, <<>>, "unit")
    \/ \E fr \in Fracs, n \in Base : Minc(fr, <<n>>, "unit")
    \/ \E h \in Base, n \in 1..2, r \in RockBase, k \in Kinds : Embed(h, n, r, k)

Spec == Init /\ [][Next]_allvars

Prop_C08_RenameKeeps == [][C08_RenameKeeps]_allvars
Prop_C09_PhysUnchanged == [][C09_PhysUnchanged]_allvars
Prop_C09_Minc == [][C09_Minc]_allvars
Prop_C09_Embed == [][C09_Embed]_allvars

Bound == Len(blocks) <= MaxBlocks
View == vars

=============================================================================
