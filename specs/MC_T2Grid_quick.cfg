CONSTANTS
  Base = {"a", "b", "c"}
  RockBase = {"p", "q"}
  Kinds = {"v", "s"}
  Fracs <- MCFracs
  MaxBlocks = 6
  AtmVol = 100000
INIT Init
NEXT Next
VIEW View
CONSTRAINT MCDepth
INVARIANT P1_ViewsAgree
INVARIANT P2_ConnectionsJoinBlocks
INVARIANT P3_BackRefs
INVARIANT P4_RocksRegistered
PROPERTY Prop_C08_RenameKeeps
PROPERTY Prop_C09_PhysUnchanged
PROPERTY Prop_C09_Minc
CHECK_DEADLOCK FALSE
