---- MODULE MC_T2Grid ----
EXTENDS T2Grid
MCFracs == {<<10, 90>>, <<10, 40, 50>>}
MCDepth == TLCGet("level") <= 6 /\ Bound
====
