------------------------------ MODULE InconADT ------------------------------
(***************************************************************************)
(* The t2incon object as a container (t2incons.py): an ordered list of     *)
(* per-block states and a lookup by block name, edited by                  *)
(*   inc[name] = state      (add_incon: replaces in place, or appends)     *)
(*   insert_incon(i, state) (a state for a block not yet present)          *)
(*   delete_incon(name)     (nothing happens if the name is absent)        *)
(* and read by index, by name and as the list of names.  C13 and C19 use   *)
(* the object through files and transfers; this module specifies the       *)
(* container itself.  It grows the specification beyond the 20 listed      *)
(* properties: what it finds is reported as an observation, not as a       *)
(* verdict on any of them.                                                 *)
(***************************************************************************)
EXTENDS Naturals, Sequences, FiniteSets, TLC

CONSTANTS Names, MaxLen

VARIABLES list,     \* sequence of [name, val]: the ordered view
          dict,     \* name -> val: the lookup
          nextval,  \* values are fresh numbers, so that a replaced state is distinguishable from the one it replaced
          hist      \* the behaviour so far: [op, n, i, list] records (exported for replay)
vars == <<list, dict, nextval, hist>>

NamesOf(s) == [i \in DOMAIN s |-> s[i].name]
IndexOf(s, n) == CHOOSE i \in DOMAIN s : s[i].name = n
Without(s, n) == SelectSeq(s, LAMBDA x : x.name # n)
InsertAt(s, i, x) == SubSeq(s, 1, i) \o <<x>> \o SubSeq(s, i + 1, Len(s))      \* i = number of entries kept before x
Restrict(f, S) == [x \in S |-> f[x]]

Log(op, n, i) == hist' = Append(hist, [op |-> op, n |-> n, i |-> i, names |-> NamesOf(list'), vals |-> [k \in DOMAIN list' |-> list'[k].val]])

Init == list = <<>> /\ dict = <<>> /\ nextval = 1 /\ hist = <<>>

Set(n) ==
    /\ list' = IF n \in DOMAIN dict THEN [list EXCEPT ![IndexOf(list, n)] = [name |-> n, val |-> nextval]]
                                    ELSE Append(list, [name |-> n, val |-> nextval])
    /\ dict' = (n :> nextval) @@ dict
    /\ nextval' = nextval + 1 /\ Log("set", n, 0)
Insert(i, n) ==
    /\ n \notin DOMAIN dict /\ i \in 0..Len(list)
    /\ list' = InsertAt(list, i, [name |-> n, val |-> nextval])
    /\ dict' = (n :> nextval) @@ dict
    /\ nextval' = nextval + 1 /\ Log("insert", n, i)
Delete(n) ==          \* also for a name that is absent: nothing happens
    /\ list' = Without(list, n)
    /\ dict' = Restrict(dict, DOMAIN dict \ {n})
    /\ UNCHANGED nextval /\ Log("delete", n, 0)

Next == /\ Len(hist) < MaxLen
        /\ \E n \in Names : Set(n) \/ Delete(n) \/ \E i \in 0..Len(list) : Insert(i, n)
Spec == Init /\ [][Next]_vars

(* ---- what must hold *)
A1_ViewsAgree == /\ \A i, j \in DOMAIN list : i # j => list[i].name # list[j].name
                 /\ {list[i].name : i \in DOMAIN list} = DOMAIN dict
                 /\ \A i \in DOMAIN list : dict[list[i].name] = list[i].val
(* replacing keeps the place; everything else keeps its relative order *)
A2_OrderStable ==
    [][\A a, b \in (DOMAIN dict \cap DOMAIN dict') :
          (IndexOf(list, a) < IndexOf(list, b)) <=> (IndexOf(list', a) < IndexOf(list', b))]_vars
=============================================================================
