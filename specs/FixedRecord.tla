----------------------------- MODULE FixedRecord -----------------------------
(***************************************************************************)
(* Fixed-column records (fixed_format_file.py) as width arithmetic (C02).  *)
(*                                                                         *)
(* A record kind is a sequence of fields [w, p, t, l]: width, precision,   *)
(* type in {"s","d","e","f","x"}, left-justified flag.  The four real      *)
(* format tables are extracted from the working tree at check time into    *)
(* module FormatTables (constant Tables).                                  *)
(*                                                                         *)
(* A VALUE CLASS abstracts a value to exactly what determines its printed  *)
(* width under C-style '%w.pt' formatting.  The writer is a state machine  *)
(* that appends one field per step; the parser slices fixed columns.       *)
(* Rule "Fit" is what the property demands (a field never occupies more    *)
(* than its own columns); rule "Raw" is plain '%' formatting without a     *)
(* width guard, kept as a named deviation: with it TLC exhibits the spill. *)
(***************************************************************************)
EXTENDS Naturals, Integers, Sequences, FiniteSets, TLC, FormatTables

CONSTANT Rule           \* "Fit" | "Raw"

VARIABLES rk,           \* index into Tables: the record kind being written
          focus,        \* index of the field that receives the boundary value class
          cls,          \* that class
          i,            \* next field to write
          pos,          \* current line length
          starts        \* starts[j] = column at which field j's text begins

vars == <<rk, focus, cls, i, pos, starts>>

Fields == Tables[rk].fields
Max(a, b) == IF a > b THEN a ELSE b

(* value classes per field type *)
StrClasses(f) == {[c |-> "str", len |-> n] : n \in 0..(f.w + 1)}
IntClasses(f) == {[c |-> "int", neg |-> s, nd |-> n] : s \in BOOLEAN, n \in 1..(f.w + 1)}
(* reals in e-format: sign x printed exponent digits (2 or 3) x exponent sign;
   "up" = all-nines mantissa at exponent 99 (or -100) that rounds into the other class *)
ExpClasses(f) == {[c |-> "exp", neg |-> s, ed |-> d, eneg |-> es, up |-> u] :
                     s \in BOOLEAN, d \in {2, 3}, es \in BOOLEAN, u \in BOOLEAN}
(* reals in f-format: sign x integer digits; "up" = nines rounding into one more digit *)
FixClasses(f) == {[c |-> "fix", neg |-> s, id |-> n, up |-> u] : s \in BOOLEAN, n \in 1..(f.w + 1), u \in BOOLEAN}
Absent == [c |-> "absent"]

ClassesOf(f) ==
    {Absent} \cup
    (CASE f.t = "s" -> StrClasses(f)
       [] f.t = "d" -> IntClasses(f)
       [] f.t = "e" -> ExpClasses(f)
       [] f.t = "f" -> FixClasses(f)
       [] OTHER -> {})

Typical == [c |-> "typical"]        \* a value that certainly fits (the harness picks one)

(* width '%w.pt' produces for a class, with q decimals *)
Dec(q) == IF q > 0 THEN q + 1 ELSE 0
Natural(f, k, q) ==
    CASE k.c = "str" -> k.len
      [] k.c = "int" -> (IF k.neg THEN 1 ELSE 0) + k.nd
      [] k.c = "exp" -> (IF k.neg THEN 1 ELSE 0) + 1 + Dec(q) + 2 +
                        (IF (k.ed = 3 /\ ~(k.up /\ k.eneg)) \/ (k.ed = 2 /\ k.up /\ ~k.eneg) THEN 3 ELSE 2)
      [] k.c = "fix" -> (IF k.neg THEN 1 ELSE 0) + k.id + (IF k.up THEN 1 ELSE 0) + Dec(q)
      [] OTHER -> 0

(* outcome: FITS, TRIM by k decimals, or IMPOSSIBLE *)
TrimSet(f, k) == {d \in 0..f.p : Natural(f, k, f.p - d) <= f.w}
Outcome(f, k) ==
    IF k.c \in {"absent", "typical"} THEN [o |-> "FITS", k |-> 0]
    ELSE IF Natural(f, k, f.p) <= f.w THEN [o |-> "FITS", k |-> 0]
    ELSE IF k.c \in {"exp", "fix"} /\ TrimSet(f, k) # {}
         THEN [o |-> "TRIM", k |-> CHOOSE d \in TrimSet(f, k) : \A e \in TrimSet(f, k) : d <= e]
    ELSE [o |-> "IMPOSSIBLE", k |-> 0]

(* columns a field occupies when written under each rule *)
Occupied(f, k) ==
    IF Rule = "Raw" /\ k.c \notin {"absent", "typical"} THEN Max(f.w, Natural(f, k, f.p))
    ELSE f.w                 \* Fit: trimmed reals fit; impossible values raise instead of being written

ClassAt(j) == IF j = focus THEN cls ELSE Typical
Raises == Rule = "Fit" /\ Outcome(Fields[focus], cls).o = "IMPOSSIBLE"

Init ==
    /\ rk \in DOMAIN Tables
    /\ focus \in DOMAIN Tables[rk].fields
    /\ cls \in ClassesOf(Tables[rk].fields[focus])
    /\ i = 1 /\ pos = 0 /\ starts = <<>>

WriteField ==
    /\ i <= Len(Fields) /\ ~Raises
    /\ starts' = Append(starts, pos)
    /\ pos' = pos + Occupied(Fields[i], ClassAt(i))
    /\ i' = i + 1
    /\ UNCHANGED <<rk, focus, cls>>

Next == WriteField

(* the parser's column intervals *)
RECURSIVE SumW(_, _)
SumW(fs, n) == IF n = 0 THEN 0 ELSE SumW(fs, n - 1) + fs[n].w
ParseStart(j) == SumW(Fields, j - 1)

Done == i = Len(Fields) + 1
(* P1: the line is exactly as long as the sum of the field widths *)
P1_LineLength == Done => pos = SumW(Fields, Len(Fields))
(* P2/P3: every field's text starts where the parser will look for it *)
P3_NoDisplacement == \A j \in DOMAIN starts : starts[j] = ParseStart(j)
(* widths are positive (a negative width - the '-4s' flag taken as width - moves later columns left) *)
P0_WidthsPositive == \A j \in DOMAIN Fields : Fields[j].w > 0

=============================================================================
