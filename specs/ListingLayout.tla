---------------------------- MODULE ListingLayout ----------------------------
(***************************************************************************)
(* How t2listing reads a TOUGH2-family table (C05).  At the FIRST result   *)
(* set setup_table_TOUGH2 walks the table line by line and records a       *)
(* vertical layout: header_skiplines (lines from the header to the first   *)
(* row) and, per row, how many non-row lines follow it (blank lines,       *)
(* repeated internal headers with their unit lines).  At every LATER       *)
(* result set read_table_TOUGH2 replays that layout blindly, and           *)
(* skip_table_TOUGH2 jumps header_skiplines + rows + sum(skiplines) lines. *)
(*                                                                         *)
(* A page is the sequence of physical lines of one table, tagged           *)
(*   "H" header  "U" units/other non-row line  "B" blank  "D" data row     *)
(*   "S" separator (the @@@@ / ____ line or anything that ends the table)  *)
(* Infer transcribes the walk, Replay the positional re-read.              *)
(* Properties: replaying the layout on a page with the same structure      *)
(* visits exactly its data rows, once each, in order; and skipping leaves  *)
(* the cursor where reading leaves it.                                     *)
(***************************************************************************)
EXTENDS Naturals, Sequences, FiniteSets, TLC

CONSTANT MaxLines       \* bound on page length for enumeration

VARIABLE page           \* Seq of tags; grows by one line per step until it ends with "S"

Tags == {"H", "U", "B", "D", "S"}

\* ---- grammar of a printed table (what the simulators write), as a regular expression over tags:
\*      H U.. B.. D+ { [B] [H U.. B..] D+ }.. [B] S
RECURSIVE WellFormedFrom(_, _, _)
(* mode: "head" after H (units/blank may follow), "rows" inside data, "gap" after a blank inside data *)
WellFormedFrom(p, i, mode) ==
    IF i > Len(p) THEN FALSE
    ELSE LET t == p[i] IN
         CASE mode = "head" -> (t = "U" /\ WellFormedFrom(p, i + 1, "head"))
                               \/ (t = "B" /\ WellFormedFrom(p, i + 1, "headb"))
                               \/ (t = "D" /\ WellFormedFrom(p, i + 1, "rows"))
           [] mode = "headb" -> (t = "B" /\ WellFormedFrom(p, i + 1, "headb"))
                               \/ (t = "D" /\ WellFormedFrom(p, i + 1, "rows"))
           [] mode = "rows" -> (t = "D" /\ WellFormedFrom(p, i + 1, "rows"))
                               \/ (t = "B" /\ WellFormedFrom(p, i + 1, "gap"))
                               \/ (t = "H" /\ WellFormedFrom(p, i + 1, "head"))
                               \/ (t = "S" /\ i = Len(p))
           [] mode = "gap" -> (t = "D" /\ FALSE)          \* a blank inside a table is followed by a header or the end
                               \/ (t = "H" /\ WellFormedFrom(p, i + 1, "head"))
                               \/ (t = "S" /\ i = Len(p))
           [] OTHER -> FALSE
WellFormed(p) == Len(p) >= 3 /\ p[1] = "H" /\ WellFormedFrom(p, 2, "head")

(* ---- setup_table_TOUGH2 *)
FirstData(p, from) == CHOOSE i \in from..Len(p) : p[i] = "D" /\ \A j \in from..(i - 1) : p[j] # "D"
HasData(p, from) == \E i \in from..Len(p) : p[i] = "D"

(* Walk: at data line i (1-based index in page), having recorded `skips` so far and knowing the
   internal-header skip count ihs (0 = not yet known).  Returns the list of per-row skip counts. *)
RECURSIVE Walk(_, _, _, _)
Walk(p, i, skips, ihs) ==
    LET nxt == i + 1 IN
    IF nxt > Len(p) THEN Append(skips, 0)
    ELSE IF p[nxt] = "D" THEN Walk(p, nxt, Append(skips, 0), ihs)
    ELSE IF p[nxt] = "S" THEN Append(skips, 0)                         \* separator: end of table (cursor put back)
    ELSE LET hdr == IF p[nxt] = "H" THEN nxt
                    ELSE IF p[nxt] = "B" /\ nxt + 1 <= Len(p) /\ p[nxt + 1] = "H" THEN nxt + 1 ELSE 0
         IN IF hdr = 0 THEN Append(skips, 0)                           \* blank followed by separator/title/blank: end
            ELSE IF ~HasData(p, hdr + 1) THEN Append(skips, 0)
            ELSE LET fd == IF ihs = 0 THEN FirstData(p, hdr + 1) ELSE hdr + ihs
                     ih2 == IF ihs = 0 THEN fd - hdr ELSE ihs
                 IN IF fd > Len(p) THEN Append(skips, 0)
                    ELSE Walk(p, fd, Append(skips, fd - i - 1), ih2)

Infer(p) == LET fd == FirstData(p, 2) IN
            [hskip |-> fd - 1, skips |-> Walk(p, fd, <<>>, 0)]

(* ---- read_table_TOUGH2: positional replay; returns the sequence of visited line indices *)
RECURSIVE ReplayFrom(_, _, _)
ReplayFrom(pos, skips, k) ==
    IF k > Len(skips) THEN <<>>
    ELSE <<pos>> \o ReplayFrom(pos + 1 + skips[k], skips, k + 1)
Replay(lay) == ReplayFrom(1 + lay.hskip, lay.skips, 1)
RECURSIVE SumSeq(_, _)
SumSeq(s, n) == IF n = 0 THEN 0 ELSE SumSeq(s, n - 1) + s[n]
ReadEnd(lay) == 1 + lay.hskip + Len(lay.skips) + SumSeq(lay.skips, Len(lay.skips))     \* cursor after read_table
SkipEnd(lay) == 1 + lay.hskip + Len(lay.skips) + SumSeq(lay.skips, Len(lay.skips))     \* cursor after skip_table

DataLines(p) == {i \in DOMAIN p : p[i] = "D"}
SeqSet(s) == {s[i] : i \in DOMAIN s}

(* ---- enumeration of pages *)
Init == page = <<"H">>
Next == /\ Len(page) < MaxLines /\ page[Len(page)] # "S"
        /\ \E t \in Tags : page' = Append(page, t)

(* Precondition found by TLC (counterexample H D H U D H D S): the code measures the distance from
   an internal header to the next row ONCE and reuses it, so all repeated internal headers must be
   followed by the same number of non-row lines (they are verbatim repeats in real listings).       *)
InternalHeaders(p) == {i \in 2..Len(p) : p[i] = "H"}
GapAfter(p, h) == FirstData(p, h + 1) - h
UniformInternal(p) == \A h1, h2 \in InternalHeaders(p) : GapAfter(p, h1) = GapAfter(p, h2)

(* properties (checked on every complete, well-formed page) *)
Complete == page[Len(page)] = "S" /\ WellFormed(page) /\ UniformInternal(page)
CompleteNonUniform == page[Len(page)] = "S" /\ WellFormed(page)
P1_NeedsUniformHeaders ==          \* negative configuration: expected to be violated
    CompleteNonUniform => SeqSet(Replay(Infer(page))) = DataLines(page)
P1_ReplayVisitsExactlyTheRows ==
    Complete => LET v == Replay(Infer(page)) IN
                /\ SeqSet(v) = DataLines(page)
                /\ \A i, j \in DOMAIN v : i < j => v[i] < v[j]           \* once each, in printed order
                /\ Len(v) = Cardinality(DataLines(page))
P3_SkipEqualsRead == Complete => SkipEnd(Infer(page)) = ReadEnd(Infer(page))
P_EndsAtSeparatorOrBlank ==
    Complete => LET e == ReadEnd(Infer(page)) IN e <= Len(page) /\ page[e] \in {"S", "B"}

=============================================================================
