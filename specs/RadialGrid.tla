------------------------------ MODULE RadialGrid ------------------------------
(***************************************************************************)
(* What t2grid().radial(rblocks, zblocks, origin, atmos_type) must produce *)
(* for ordinary (two-dimensional) radial flow: rings x layers of blocks,   *)
(* with exact integer geometry once the factor pi is taken out:            *)
(*   volume / pi        = (Rout^2 - Rin^2) * dz                            *)
(*   top area / pi      = Rout^2 - Rin^2                                   *)
(*   outer area / pi    = 2 * Rout * dz                                    *)
(* Doubled distances avoid halves.  Blocks are (ring, layer) pairs in      *)
(* layer-major order; connections per layer: one vertical connection per   *)
(* ring to the block above (or to the atmosphere), then the radial         *)
(* connections from each ring to the next.  This module grows the          *)
(* specification beyond the 20 listed properties (fromgeo is C04; radial   *)
(* is its cylindrical sibling): what it finds is reported as an            *)
(* observation, not as a verdict on any of them.                           *)
(***************************************************************************)
EXTENDS Naturals, Sequences, FiniteSets, TLC

CONSTANTS Widths,      \* candidate ring widths
          Thick,       \* candidate layer thicknesses
          MaxR, MaxZ,  \* numbers of rings / layers up to
          Rin0s,       \* candidate inner radii of the first ring
          AtmTypes

VARIABLE g             \* [dr : Seq(Widths), dz : Seq(Thick), r0 : Rin0s, atm : AtmTypes]
SeqsUpTo(S, n) == UNION {[1..k -> S] : k \in 1..n}
Init == g \in [dr : SeqsUpTo(Widths, MaxR), dz : SeqsUpTo(Thick, MaxZ), r0 : Rin0s, atm : AtmTypes]
Next == UNCHANGED g

RECURSIVE Sum(_, _)
Sum(s, n) == IF n = 0 THEN 0 ELSE s[n] + Sum(s, n - 1)
NR == Len(g.dr)
NZ == Len(g.dz)
Rin(i) == g.r0 + Sum(g.dr, i - 1)
Rout(i) == g.r0 + Sum(g.dr, i)
TopArea(i) == Rout(i) * Rout(i) - Rin(i) * Rin(i)                \* / pi
Vol(i, j) == TopArea(i) * g.dz[j]                                \* / pi
OuterArea(i, j) == 2 * Rout(i) * g.dz[j]                         \* / pi
Centre2R(i) == Rin(i) + Rout(i)                                  \* 2 x the radius of the block centre
Centre2Z(j) == 0 - (2 * Sum(g.dz, j - 1) + g.dz[j])              \* 2 x the elevation of the block centre (top of the model at 0)

NAtm == IF g.atm = 0 THEN 1 ELSE IF g.atm = 1 THEN NR ELSE 0
Blocks == [k \in 1..(NR * NZ) |-> [ring |-> ((k - 1) % NR) + 1, lay |-> ((k - 1) \div NR) + 1]]
(* connections of layer j, in the order they are made: <<kind, ring, layer, other ring / "atm", area, 2 x distance of this block, 2 x distance of the other>> *)
Vertical(j) == SelectSeq([i \in 1..NR |-> [kind |-> "v", ring |-> i, lay |-> j, above |-> IF j = 1 THEN 0 ELSE j - 1,
                                           area |-> TopArea(i), d1 |-> g.dz[j], d2 |-> IF j = 1 THEN 0 ELSE g.dz[j - 1]]],
                         LAMBDA c : j > 1 \/ g.atm # 2)
Radial(j) == [i \in 1..(NR - 1) |-> [kind |-> "r", ring |-> i, lay |-> j, above |-> 0,
                                     area |-> OuterArea(i, j), d1 |-> g.dr[i], d2 |-> g.dr[i + 1]]]
RECURSIVE Conns(_)
Conns(j) == IF j > NZ THEN <<>> ELSE Vertical(j) \o Radial(j) \o Conns(j + 1)

(* ---- what must hold of the expected grid itself *)
R1_TotalVolume == LET RECURSIVE T(_)  T(k) == IF k = 0 THEN 0 ELSE Vol(Blocks[k].ring, Blocks[k].lay) + T(k - 1)
                  IN T(NR * NZ) = (Rout(NR) * Rout(NR) - g.r0 * g.r0) * Sum(g.dz, NZ)
R2_ConnectionCount == Len(Conns(1)) = NZ * (NR - 1) + NR * (NZ - 1) + (IF g.atm = 2 THEN 0 ELSE NR)
(* the outer face of a ring is the inner face of the next: the area of a radial connection is both *)
R3_SharedFace == \A j \in 1..NZ : \A i \in 1..(NR - 1) : OuterArea(i, j) = 2 * Rin(i + 1) * g.dz[j]
(* block centres lie strictly inside their ring, radial distances add up to the centre-to-centre separation *)
R4_Distances == \A i \in 1..(NR - 1) : g.dr[i] + g.dr[i + 1] = Centre2R(i + 1) - Centre2R(i)
=============================================================================
