------------------------------- MODULE Convert -------------------------------
(***************************************************************************)
(* AUTOUGH2 <-> TOUGH2 conversion of a t2data model (t2data.py:            *)
(* convert_to_TOUGH2 / convert_to_AUTOUGH2 and the `type` setter) as a     *)
(* state transformer (C20, first half).                                    *)
(*                                                                         *)
(* State: flavour-defining data (simulator string present, EOS name in     *)
(* MULTI, LINEQ / SOLVR), the MOP digits the conversion looks at, the      *)
(* generator LIST and the (block, name) LOOKUP as separate variables       *)
(* (generators are [key, cls]: several may share a lookup key), and the    *)
(* short-output / history requests as counts per kind.                     *)
(***************************************************************************)
EXTENDS Naturals, Sequences, FiniteSets, TLC

CONSTANTS Models,       \* initial models (MC module)
          MaxSteps

VARIABLES m, steps, last

vars == <<m, steps, last>>

Mops == {10, 12, 14, 17, 20, 21, 22, 23, 24, 1}       \* the digits the code tests, plus one it must not touch
Unsup(g) == g.cls = "unsup"
Conv(g) == IF g.cls = "conv" THEN [g EXCEPT !.cls = "converted"] ELSE g
Kept(gs) == SelectSeq(gs, LAMBDA g : ~Unsup(g))
LookupOf(gs) == [k \in {gs[i].key : i \in DOMAIN gs} |->
                    gs[CHOOSE i \in DOMAIN gs : gs[i].key = k /\ \A j \in DOMAIN gs : gs[j].key = k => j <= i].cls]

ToTOUGH2(mp) ==
    /\ m.flav = "AUTOUGH2"
    /\ m' = [m EXCEPT
          !.flav = "TOUGH2", !.simul = FALSE, !.eos = FALSE, !.lineq = FALSE,
          !.mop = [p \in Mops |->
                     CASE p = 10 -> IF m.mop[10] = 2 THEN 0 ELSE m.mop[10]
                       [] p = 12 -> IF m.mop[12] = 2 THEN 0 ELSE m.mop[12]
                       [] p = 21 -> IF mp THEN 0 ELSE (IF m.lineq /\ m.lineqtype > 1 THEN 5 ELSE 4)
                       [] p \in {22, 23, 24} -> 0
                       [] p \in {14, 17, 20} -> IF mp THEN 0 ELSE m.mop[p]
                       [] OTHER -> m.mop[p]],
          (* the documented rescaling.  (convert_AUTOUGH2_parameters_to_TOUGH2 has a second one for MOP(23) = 1 with an
             old simulator string, but convert_to_TOUGH2 clears the simulator string first: that branch is unreachable) *)
          !.condscaled = (m.mop[10] = 2),
          !.gens = [i \in DOMAIN Kept(m.gens) |-> Conv(Kept(m.gens)[i])],
          !.lookup = LookupOf([i \in DOMAIN Kept(m.gens) |-> Conv(Kept(m.gens)[i])]),
          !.hist = [k \in {"b", "c", "g"} |-> IF m.short[k] > 0 THEN m.short[k] ELSE m.hist[k]],
          !.short = [k \in {"b", "c", "g"} |-> 0]]
    /\ last' = [op |-> "to_TOUGH2", mp |-> mp]

ToAUTOUGH2(mp) ==
    /\ m.flav = "TOUGH2"
    /\ m' = [m EXCEPT
          !.flav = "AUTOUGH2", !.simul = TRUE, !.eos = m.multi, !.lineq = TRUE, !.solvr = FALSE,
          !.lineqtype = 1,
          !.mop = [p \in Mops |->
                     CASE p = 12 -> IF m.mop[12] = 2 THEN 0 ELSE m.mop[12]
                       [] p \in {21, 22, 23, 24} -> 0
                       [] p \in {14, 17, 20} -> IF mp THEN 0 ELSE m.mop[p]
                       [] OTHER -> m.mop[p]],
          !.condscaled = FALSE,
          !.short = m.hist,
          !.hist = [k \in {"b", "c", "g"} |-> 0]]
    /\ last' = [op |-> "to_AUTOUGH2", mp |-> mp]

Init == m \in Models /\ steps = 0 /\ last = [op |-> "init"]
Next == /\ steps < MaxSteps /\ steps' = steps + 1
        /\ \E mp \in BOOLEAN : ToTOUGH2(mp) \/ ToAUTOUGH2(mp)

(* ---- the clauses of C20 (conversion half) *)
P1_DeclaresFlavour == (last.op = "to_TOUGH2" => m.flav = "TOUGH2" /\ ~m.simul) /\ (last.op = "to_AUTOUGH2" => m.flav = "AUTOUGH2" /\ m.simul)
P2_NothingForeign ==
    /\ last.op = "to_TOUGH2" => ~m.simul /\ ~m.lineq /\ ~m.eos /\ \A k \in {"b", "c", "g"} : m.short[k] = 0
    /\ last.op = "to_AUTOUGH2" => ~m.solvr /\ m.lineq /\ (m.multi => m.eos) /\ \A k \in {"b", "c", "g"} : m.hist[k] = 0
P3_NoUnsupportedGenerators ==
    last.op = "to_TOUGH2" =>
        /\ \A i \in DOMAIN m.gens : m.gens[i].cls \in {"sup", "converted"}
        /\ \A k \in DOMAIN m.lookup : m.lookup[k] \in {"sup", "converted"}
        /\ DOMAIN m.lookup = {m.gens[i].key : i \in DOMAIN m.gens}             \* list and lookup describe the same generators
(* a request is never lost by a conversion, only moved between SHORT and the history sections *)
P4_RequestsMove ==
    [][/\ (last'.op = "to_TOUGH2" => \A k \in {"b", "c", "g"} : m'.hist[k] = (IF m.short[k] > 0 THEN m.short[k] ELSE m.hist[k]))
       /\ (last'.op = "to_AUTOUGH2" => m'.short = m.hist)
       /\ (last'.op = "to_AUTOUGH2" => m'.gens = m.gens /\ m'.lookup = m.lookup)]_vars
P_UntouchedDigit == m.mop[1] = 7

=============================================================================
