---------------------------- MODULE WaiweraExport ----------------------------
(***************************************************************************)
(* What t2data.json() must produce from a model and its geometry (C20,     *)
(* second half), as functions of an abstract model:                        *)
(*  - blocks in geometry order, the first NAtm of them atmosphere blocks;  *)
(*    each block has a rock type and a volume class                        *)
(*      "cell" (0 < vol < atmosphere volume), "zero", "huge";              *)
(*  - generators, each in a block; "group" generators produce no source;   *)
(*  - the EOS given explicitly, in MULTI, or only at the end of the        *)
(*    simulator string.                                                    *)
(***************************************************************************)
EXTENDS Naturals, Integers, Sequences, FiniteSets, TLC

CONSTANTS NBlocks, Rocks, EosNames, Unsupported

VARIABLES blocks, natm, gens, eosarg, eosmulti, eossim

vars == <<blocks, natm, gens, eosarg, eosmulti, eossim>>
VolClasses == {"cell", "zero", "huge"}

Init == /\ blocks \in [1..NBlocks -> [rock : Rocks, vol : VolClasses]]
        /\ natm \in 0..2 /\ natm < NBlocks
        /\ \A i \in 1..natm : blocks[i].vol = "huge"                   \* atmosphere blocks are boundary blocks
        /\ \E i \in (natm + 1)..NBlocks : blocks[i].vol = "cell"         \* a model has at least one cell
        (* a boundary block bounds something: it is next to a cell (the columns form a row; with one
           atmosphere block per column, the block under each of them is a cell) *)
        /\ \A i \in (natm + 1)..NBlocks : blocks[i].vol # "cell" =>
              \E j \in {i - 1, i + 1} : j > natm /\ j <= NBlocks /\ blocks[j].vol = "cell"
        /\ natm = 2 => \A i \in (natm + 1)..NBlocks : blocks[i].vol = "cell"
        /\ gens \in {<<>>, <<[blk |-> NBlocks, group |-> FALSE]>>, <<[blk |-> natm + 1, group |-> FALSE], [blk |-> NBlocks, group |-> TRUE]>>,
                     (* several generators outside any group (their names may be equal, or empty): one source each *)
                     <<[blk |-> natm + 1, group |-> FALSE], [blk |-> NBlocks, group |-> FALSE]>>,
                     <<[blk |-> natm + 1, group |-> FALSE], [blk |-> NBlocks, group |-> FALSE], [blk |-> natm + 1, group |-> FALSE]>>}
        /\ eosarg \in EosNames \cup {"none"} /\ eosmulti \in EosNames \cup {"none"} /\ eossim \in EosNames \cup {"none"}
        /\ Cardinality({eosarg, eosmulti, eossim} \ {"none"}) <= 1          \* one source of EOS information at a time (plus none)
Next == UNCHANGED vars

CellIndex(i) == i - 1 - natm                \* zero-based index among the non-atmosphere blocks
IsCell(i) == blocks[i].vol = "cell"
CellsOf(r) == {CellIndex(i) : i \in {j \in 1..NBlocks : IsCell(j) /\ blocks[j].rock = r}}
SourceCells == [k \in {j \in DOMAIN gens : ~gens[j].group} |-> CellIndex(gens[k].blk)]
EosDetected == IF eosarg # "none" THEN eosarg ELSE IF eosmulti # "none" THEN eosmulti ELSE eossim

(* P6: every non-boundary block is in exactly one rock type's cell list, boundary blocks in none *)
P6_RockCellsPartition ==
    /\ \A r1, r2 \in Rocks : r1 # r2 => CellsOf(r1) \cap CellsOf(r2) = {}
    /\ UNION {CellsOf(r) : r \in Rocks} = {CellIndex(i) : i \in {j \in 1..NBlocks : IsCell(j)}}
    /\ \A r \in Rocks : \A c \in CellsOf(r) : c >= 0
(* P7/P8: one source per non-group generator, at the cell index of its block *)
P7_SourceCells == \A k \in DOMAIN SourceCells : SourceCells[k] = gens[k].blk - 1 - natm
P8_OneSourcePerGenerator == Cardinality(DOMAIN SourceCells) = Cardinality({j \in DOMAIN gens : ~gens[j].group})
(* P9: the EOS is recognised from the argument, from MULTI, or from the simulator string *)
P9_EosRecognised == ({eosarg, eosmulti, eossim} # {"none"}) => EosDetected \in EosNames

=============================================================================
