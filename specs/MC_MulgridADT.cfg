CONSTANTS AtmType = 0
AtmCol = "ATM"
FreshNames = {"  x", "  y"}
INIT MCInit
NEXT Next
CONSTRAINT MCDepth
INVARIANT P1_ViewsAgree
INVARIANT P2_NodeKnowsItsColumns
INVARIANT P3_ColumnKnowsItsConnections
INVARIANT P4_ConnectionNodesAreTheSharedEdge
INVARIANT P5_ColumnsWellFormed
INVARIANT P6_BlockNamesCurrent
INVARIANT P7_ValidMesh
INVARIANT C11_Conforming
PROPERTY PropArea
PROPERTY PropVol
PROPERTY PropTiling
CHECK_DEADLOCK FALSE
