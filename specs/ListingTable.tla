----------------------------- MODULE ListingTable -----------------------------
(***************************************************************************)
(* The listingtable object (t2listing.py) as an abstract data type: a      *)
(* rows x columns array of numbers addressed by row index, by row key, by  *)
(* the reversed key of a two-key row (connection tables: the row is        *)
(* returned with the key reversed and every value negated) and by column   *)
(* name; rows are assigned whole, by index or by key; tables with the same *)
(* rows and columns are added and subtracted element by element.  C05      *)
(* checks that the addressing modes agree on the tables read from files;   *)
(* this module specifies the container itself.  It grows the specification *)
(* beyond the 20 listed properties: what it finds is reported as an        *)
(* observation, not as a verdict on any of them.                           *)
(***************************************************************************)
EXTENDS Integers, Sequences, FiniteSets, TLC

CONSTANTS Keys,        \* row keys: sequences of one or two names, e.g. <<"a">> or <<"a", "b">>
          NCols, Vals, MaxLen, Reverse

VARIABLES t,           \* the table: [1..Len(Keys) -> [1..NCols -> Int]]
          u,           \* a second table of the same shape (operand of + and -)
          hist
vars == <<t, u, hist>>

NRows == Len(Keys)
Rev(k) == [i \in DOMAIN k |-> k[Len(k) + 1 - i]]
RowOfKey(k) == {i \in 1..NRows : Keys[i] = k}
(* table[key]: the row of that key; for a two-key table that allows it, the row of the reversed key, negated *)
Lookup(tab, k) ==
    IF RowOfKey(k) # {} THEN [found |-> TRUE, key |-> k, vals |-> tab[CHOOSE i \in RowOfKey(k) : TRUE]]
    ELSE IF Reverse /\ Len(k) > 1 /\ RowOfKey(Rev(k)) # {}
         THEN [found |-> TRUE, key |-> k, vals |-> [c \in 1..NCols |-> 0 - tab[CHOOSE i \in RowOfKey(Rev(k)) : TRUE][c]]]
    ELSE [found |-> FALSE, key |-> k, vals |-> <<>>]
Column(tab, c) == [i \in 1..NRows |-> tab[i][c]]

Log(r) == hist' = Append(hist, r)
Init == /\ t = [i \in 1..NRows |-> [c \in 1..NCols |-> 0]] /\ u = [i \in 1..NRows |-> [c \in 1..NCols |-> 1]] /\ hist = <<>>
SetByIndex(i, v) == /\ t' = [t EXCEPT ![i] = v] /\ UNCHANGED u /\ Log([op |-> "set_index", i |-> i, v |-> v, t |-> t'])
SetByKey(i, v) ==   /\ t' = [t EXCEPT ![i] = v] /\ UNCHANGED u /\ Log([op |-> "set_key", i |-> i, v |-> v, t |-> t'])
Add ==              /\ t' = [i \in 1..NRows |-> [c \in 1..NCols |-> t[i][c] + u[i][c]]] /\ UNCHANGED u /\ Log([op |-> "add", i |-> 0, v |-> <<>>, t |-> t'])
Sub ==              /\ t' = [i \in 1..NRows |-> [c \in 1..NCols |-> t[i][c] - u[i][c]]] /\ UNCHANGED u /\ Log([op |-> "sub", i |-> 0, v |-> <<>>, t |-> t'])
Next == /\ Len(hist) < MaxLen
        /\ \/ \E i \in 1..NRows, v \in [1..NCols -> Vals] : SetByIndex(i, v) \/ SetByKey(i, v)
           \/ Add \/ Sub
Spec == Init /\ [][Next]_vars

(* ---- the addressing modes agree, whatever the table holds *)
T1_KeyIsIndex == \A i \in 1..NRows : Lookup(t, Keys[i]).vals = t[i]
T2_ReversedNegated == Reverse => \A i \in 1..NRows : (Len(Keys[i]) > 1 /\ RowOfKey(Rev(Keys[i])) = {}) =>
                          \A c \in 1..NCols : Lookup(t, Rev(Keys[i])).vals[c] = 0 - t[i][c]
T3_ColumnIsSlice == \A c \in 1..NCols : \A i \in 1..NRows : Column(t, c)[i] = t[i][c]
T4_AddThenSub == [][(hist' # hist /\ hist'[Len(hist')].op = "add") =>
                        [i \in 1..NRows |-> [c \in 1..NCols |-> t'[i][c] - u[i][c]]] = t]_vars
=============================================================================
