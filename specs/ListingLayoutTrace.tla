------------------------- MODULE ListingLayoutTrace -------------------------
(* Recorded pages of real listing tables (line tags classified by the harness, independently of
   the reader) with the lines the real reader consumed as rows.  For each record TLC infers the
   layout from the FIRST result set's page, replays it on the page of the recorded result set and
   reports whether the replay visits exactly that page's data rows and exactly the lines the real
   reader used.                                                                                   *)
EXTENDS ListingLayout, Json, IOUtils

Recs == JsonDeserialize(IOEnv.TRACE_FILE)   \* Seq([first: page tags, page: page tags, used: Seq(line index)])
VARIABLE i

TInit == i \in 1..Len(Recs) /\ page = Recs[i].page
TNext == UNCHANGED <<i, page>>

Lay == Infer(Recs[i].first)
Vis == Replay(Lay)
InRange == \A k \in DOMAIN Vis : Vis[k] \in DOMAIN page
Report ==
    PrintT("EMIT" \o ToJson([i |-> i,
        wf |-> WellFormed(Recs[i].first) /\ UniformInternal(Recs[i].first),
        same_structure |-> Recs[i].first = page,
        visits_rows |-> InRange /\ SeqSet(Vis) = DataLines(page),
        matches_reader |-> Vis = Recs[i].used,
        reader_on_rows |-> SeqSet(Recs[i].used) = DataLines(page)]))
=============================================================================
