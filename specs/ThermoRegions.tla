---------------------------- MODULE ThermoRegions ----------------------------
(***************************************************************************)
(* The decision structure of the IFC-67 routines (t2thermo, C15) and of    *)
(* the two region classifiers, over an abstract (T, P) plane.  A cell      *)
(* fixes the position of T among the thresholds the code compares against  *)
(*   0.01 < 350 < 373.946 (IAPWS-97 critical) < 374.15 (IFC-67 critical)   *)
(*        < 590 < 800  [deg C]                                             *)
(* and the relation of P to 0, to 100 MPa, and to the four curves          *)
(* psat67(T), psat97(T), b23_67(T), b23_97(T) where the code consults      *)
(* them.  Positions on T: odd = on a threshold, even = strictly between.   *)
(* Stated ranges (the routines' documentation and the statement of C15):   *)
(*   liquid  0.01..350 C, saturation pressure .. 100 MPa                   *)
(*   steam   0.01..800 C, up to saturation / region boundary / 100 MPa     *)
(*   sat     0.01 C .. critical temperature;  tsat  psat(0.01) .. Pc       *)
(* The tables below are the code's tests; the invariants relate them to    *)
(* each other (partition of the box, liquid range = region 1 below 350,    *)
(* steam range = closure of region 2, classifiers agree off the curves).   *)
(* SteamSweep: separated_steam_fraction along increasing enthalpy.         *)
(***************************************************************************)
EXTENDS Integers, FiniteSets, Sequences, TLC

CONSTANT Variant       \* "code" | "liquid_open" (p > psat) | "steam_550" (590 read as 550)

Rel == {"lt", "eq", "gt"}
TPosSet == 0..12
\* thresholds by number: 1 = 0.01, 2 = 350, 3 = tc97, 4 = tc67, 5 = 590, 6 = 800; threshold k sits at position 2k - 1
TLe(t, k) == t <= 2 * k - 1
TGe(t, k) == t >= 2 * k - 1
TLt(t, k) == t < 2 * k - 1

Cells == [t : TPosSet, p0 : Rel, p8 : Rel, s67 : Rel, s97 : Rel, b67 : Rel, b97 : Rel]
(* physically possible cells: all curves lie strictly between 0 and 100 MPa (the boundary curves reach 100 MPa at  *)
(* 590 C, so nothing is assumed there); between 350 C and the critical point the boundary lies below saturation;  *)
(* a curve the code does not consult at this temperature is recorded as "gt" (one representative)                 *)
UsesS67(t) == TGe(t, 1) /\ TLe(t, 4)
UsesS97(t) == TGe(t, 1) /\ TLe(t, 2)
UsesB67(t) == ~TLe(t, 2) /\ TLe(t, 5)
UsesB97(t) == ~TLe(t, 2) /\ TLe(t, 5)
Possible(c) ==
    /\ (~UsesS67(c.t) => c.s67 = "gt") /\ (~UsesS97(c.t) => c.s97 = "gt")
    /\ (~UsesB67(c.t) => c.b67 = "gt") /\ (~UsesB97(c.t) => c.b97 = "gt")
    /\ (c.p0 # "gt" => /\ c.p8 = "lt"
                       /\ (UsesS67(c.t) => c.s67 = "lt") /\ (UsesS97(c.t) => c.s97 = "lt")
                       /\ (UsesB67(c.t) => c.b67 = "lt") /\ (UsesB97(c.t) => c.b97 = "lt"))
    /\ (c.p8 # "lt" => c.s67 = "gt" /\ c.s97 = "gt")
    /\ (c.p8 # "lt" /\ TLe(c.t, 4) => c.b67 = "gt" /\ c.b97 = "gt")      \* (the boundary curves pass 100 MPa at about 590 C)
    /\ (UsesB67(c.t) /\ UsesS67(c.t) /\ c.s67 # "lt" => c.b67 = "gt")           \* b23 < psat between 350 and critical
    /\ (UsesB67(c.t) /\ UsesS67(c.t) /\ c.b67 # "gt" => c.s67 = "lt")
InBox(c) == TGe(c.t, 1) /\ TLe(c.t, 6) /\ c.p0 # "lt" /\ c.p8 # "gt"
None == 0

(* ---- the code's decision trees *)
Region67(c) ==          \* t2thermo.region
    IF ~InBox(c) THEN None
    ELSE IF TLe(c.t, 2) THEN (IF c.s67 = "lt" THEN 2 ELSE 1)
    ELSE IF TLe(c.t, 4) THEN (IF c.b67 # "gt" THEN 2 ELSE IF c.s67 = "lt" THEN 3 ELSE 4)
    ELSE IF TLe(c.t, 5) THEN (IF c.b67 = "lt" THEN 2 ELSE 3)
    ELSE 2
Region97(c) ==          \* IAPWS97.region
    IF ~InBox(c) THEN None
    ELSE IF TLe(c.t, 2) THEN (IF c.s97 = "gt" THEN 1 ELSE 2)
    ELSE IF TLe(c.t, 5) THEN (IF c.b97 = "gt" THEN 3 ELSE 2)
    ELSE 2
CowatOK(c) ==           \* t2thermo.cowat(bounds = True) returns values
    /\ TGe(c.t, 1) /\ TLe(c.t, 2) /\ c.p8 # "gt"
    /\ IF Variant = "liquid_open" THEN c.s67 = "gt" ELSE c.s67 # "lt"
SupstOK(c) ==           \* t2thermo.supst(bounds = True) returns values
    /\ TGe(c.t, 1) /\ TLe(c.t, 6) /\ c.p0 # "lt"
    /\ IF TLe(c.t, 4) THEN c.s67 # "gt"
       ELSE IF (IF Variant = "steam_550" THEN TLe(c.t, 4) ELSE TLe(c.t, 5)) THEN c.b67 # "gt"
       ELSE c.p8 # "gt"
SatOK(t) == TGe(t, 1) /\ TLe(t, 4)                   \* t2thermo.sat(bounds = True)
\* tsat: pressure positions 0..4 relative to psat(0.01) (1) and Pc (3)
TsatOK(pp) == pp >= 1 /\ pp <= 3

(* ---- what the statement says, in terms of the tables *)
VARIABLE cell
Init == cell \in {c \in Cells : Possible(c)}
Next == UNCHANGED cell
OffCurves(c) == c.s67 = c.s97 /\ c.b67 = c.b97 /\ c.s67 # "eq" /\ c.b67 # "eq"     \* not on, and not between, corresponding curves
(* every state of the box has exactly one region in each formulation, and none outside *)
I_Total == (InBox(cell) <=> Region67(cell) \in 1..4) /\ (InBox(cell) <=> Region97(cell) \in 1..3)
(* the classifiers agree below 350 C and above the critical temperature, away from the curves *)
I_ClassifiersAgree == InBox(cell) /\ OffCurves(cell) /\ (TLe(cell.t, 2) \/ ~TLe(cell.t, 4)) => Region67(cell) = Region97(cell)
(* between 350 C and the critical point IFC-67 splits IAPWS region 3 into 3 and 4 *)
I_Region4InsideRegion3 == InBox(cell) /\ OffCurves(cell) /\ Region67(cell) = 4 => Region97(cell) = 3
(* liquid routine: in range exactly on region 1 below 350 C (closed at the saturation line, which region() counts as liquid) *)
I_LiquidRange == /\ (CowatOK(cell) /\ cell.p0 = "gt" => InBox(cell) /\ Region67(cell) = 1)
                 /\ (InBox(cell) /\ TLe(cell.t, 2) /\ Region67(cell) = 1 => CowatOK(cell))
(* steam routine: in range exactly on the closure of region 2 (its upper boundary included), any pressure down to 0 *)
I_SteamRange == SupstOK(cell) /\ cell.p8 # "gt" =>
                    \/ Region67(cell) = 2
                    \/ (TLe(cell.t, 4) /\ cell.s67 = "eq")                      \* on the saturation line
                    \/ (~TLe(cell.t, 4) /\ TLe(cell.t, 5) /\ cell.b67 = "eq")   \* on the region boundary
                    \/ (~TLe(cell.t, 2) /\ TLe(cell.t, 4) /\ Region67(cell) = 3)   \* found by TLC: between 350 C and the critical point the
                                                                                 \* steam routine's stated range runs up to saturation, through region 3
I_SteamRangeComplete == InBox(cell) /\ Region67(cell) = 2 => SupstOK(cell)
(* the two ranges meet only on the saturation line; together with regions 3 and 4 they cover the box *)
I_RangesDisjoint == CowatOK(cell) /\ SupstOK(cell) => cell.s67 = "eq"
I_Cover == InBox(cell) => CowatOK(cell) \/ SupstOK(cell) \/ Region67(cell) \in {3, 4} \/ (Region67(cell) = 1 /\ ~TLe(cell.t, 2))

(* ---- separated steam fraction along increasing enthalpy: in [0, 1] (millionths) and never decreasing *)
SweepOK(s) == /\ \A i \in 1..Len(s) : 0 <= s[i] /\ s[i] <= 1000000
              /\ \A i \in 1..(Len(s) - 1) : s[i] <= s[i + 1]
=============================================================================
