------------------------------- MODULE RectGeo -------------------------------
(***************************************************************************)
(* Reverse-engineering a rectangular geometry from a TOUGH2 grid           *)
(* (t2grid.rectgeo, C18) on integer boxes.  A box has spacings DX, DY, DZ  *)
(* (sequences of positive integers) and, per column, the number of missing *)
(* top layers (a stepped surface on layer boundaries).  FromBox builds the *)
(* block graph that t2grid.fromgeo produces (blocks with volumes, centres, *)
(* connections with permeability direction and each block's own distance); *)
(* the walk of rectgeo is transcribed on that graph:                       *)
(*   origin block = lowest centre, first in list; Track(dir) follows       *)
(*   connections of one direction, block size = 2 x own distance; a        *)
(*   direction without connections is completed from the origin block's    *)
(*   volume (2-D grids); the block map is the triple walk; the surface of  *)
(*   a column is the top of its highest block.                             *)
(***************************************************************************)
EXTENDS Naturals, Integers, Sequences, FiniteSets, TLC

CONSTANTS Boxes,     \* set of [dx, dy, dz, miss] records (MC module)
          Variant    \* "fixed": sizes of the origin block from the tracks; "pinned": from the origin block's own connections
VARIABLE box
vars == <<box>>

NX == Len(box.dx)   NY == Len(box.dy)   NZ == Len(box.dz)
Col(i, j) == (j - 1) * NX + i                          \* column number, x fastest (as mulgrid.rectangular numbers them)
Exists(i, j, k) == k > box.miss[Col(i, j)]             \* layer k (1 = top) of column (i, j) is below the surface
Blocks == {b \in (1..NX) \X (1..NY) \X (1..NZ) : Exists(b[1], b[2], b[3])}
(* list order of t2grid.fromgeo: layer-major, then columns *)
Before(a, b) == a[3] < b[3] \/ (a[3] = b[3] /\ Col(a[1], a[2]) < Col(b[1], b[2]))
Vol(b) == box.dx[b[1]] * box.dy[b[2]] * box.dz[b[3]]
RECURSIVE SumTo(_, _)
SumTo(s, n) == IF n = 0 THEN 0 ELSE s[n] + SumTo(s, n - 1)
Z2(b) == 0 - (2 * SumTo(box.dz, b[3] - 1) + box.dz[b[3]])      \* doubled elevation of the block centre (ground = 0)
(* connections: [a, b, dir, da2, db2] with doubled own distances *)
Conns ==
    {[a |-> a, b |-> <<a[1] + 1, a[2], a[3]>>, dir |-> 1, da2 |-> box.dx[a[1]], db2 |-> box.dx[a[1] + 1]] :
        a \in {x \in Blocks : x[1] < NX /\ Exists(x[1] + 1, x[2], x[3])}} \cup
    {[a |-> a, b |-> <<a[1], a[2] + 1, a[3]>>, dir |-> 2, da2 |-> box.dy[a[2]], db2 |-> box.dy[a[2] + 1]] :
        a \in {x \in Blocks : x[2] < NY /\ Exists(x[1], x[2] + 1, x[3])}} \cup
    {[a |-> a, b |-> <<a[1], a[2], a[3] - 1>>, dir |-> 3, da2 |-> box.dz[a[3]], db2 |-> box.dz[a[3] - 1]] :
        a \in {x \in Blocks : x[3] > 1 /\ Exists(x[1], x[2], x[3] - 1)}}

(* ---- the walk *)
Origin == CHOOSE b \in Blocks : (\A c \in Blocks : Z2(b) <= Z2(c)) /\ (\A c \in Blocks : Z2(c) = Z2(b) => (c = b \/ Before(b, c)))
NextIn(b, lst, dir) ==      \* the connection of direction dir at b that does not lead back to lst
    {c \in Conns : c.dir = dir /\ (c.a = b \/ c.b = b) /\ (IF c.a = b THEN c.b ELSE c.a) # lst}
Other(c, b) == IF c.a = b THEN c.b ELSE c.a
Own2(c, b) == IF c.a = b THEN c.da2 ELSE c.db2
RECURSIVE Track(_, _, _, _)
(* returns the sizes (2 x own distance) met along direction dir from b; lastc = connection just crossed *)
Track(b, lst, dir, lastc) ==
    LET nx == NextIn(b, lst, dir) IN
    IF nx = {} THEN (IF lastc = <<>> THEN <<>> ELSE <<Own2(lastc[1], b)>>)
    ELSE LET c == CHOOSE x \in nx : TRUE IN <<Own2(c, b)>> \o Track(Other(c, b), b, dir, <<c>>)
Top == CHOOSE b \in Blocks : \A c \in Blocks : Z2(b) >= Z2(c)
Reverse(s) == [i \in DOMAIN s |-> s[Len(s) + 1 - i]]
Sp1 == Track(Origin, <<0, 0, 0>>, 1, <<>>)
Sp2 == Track(Origin, <<0, 0, 0>>, 2, <<>>)
Sp3raw == Track(Top, <<0, 0, 0>>, 3, <<>>)
Sp3 == Sp3raw                                   \* walking down from the top block: already top-to-bottom
(* 2-D completion: a direction with no connection gets  volume / product of the other two sizes  of the origin block *)
OriginSize(dir) == LET cs == {c \in Conns : c.dir = dir /\ (c.a = Origin \/ c.b = Origin)} IN
                   IF cs = {} THEN 0 ELSE Own2(CHOOSE c \in cs : TRUE, Origin)
SafeDiv(a, b) == IF b = 0 THEN 0 ELSE a \div b
Size(dir) == IF Variant = "pinned" THEN OriginSize(dir)
             ELSE LET sp == (CASE dir = 1 -> Sp1 [] dir = 2 -> Sp2 [] OTHER -> Sp3) IN
                  IF sp = <<>> THEN 0 ELSE IF dir = 3 THEN sp[Len(sp)] ELSE sp[1]
R1 == IF Sp1 # <<>> THEN Sp1 ELSE <<SafeDiv(Vol(Origin), Size(2) * Size(3))>>
R2 == IF Sp2 # <<>> THEN Sp2 ELSE <<SafeDiv(Vol(Origin), Size(1) * Size(3))>>
R3 == Sp3

(* ---- properties *)
OneD == Cardinality({d \in {1, 2, 3} : (CASE d = 1 -> Sp1 [] d = 2 -> Sp2 [] OTHER -> Sp3) = <<>>}) >= 2
WFBox == /\ \A c \in DOMAIN box.miss : box.miss[c] < NZ                     \* the bottom layer is complete
         /\ \E c \in DOMAIN box.miss : box.miss[c] = 0                        \* some column reaches the top of the model
         /\ ~(NX = 1 /\ NY = 1)                                               \* at most one horizontal direction with a single block
         /\ NZ >= 2
P_Spacings == WFBox => (R1 = box.dx /\ R2 = box.dy /\ R3 = box.dz)
P_OriginIsFirstBottomBlock == WFBox => Origin = <<1, 1, NZ>>
P_Not1D == WFBox => ~OneD

Init == box \in Boxes
Next == UNCHANGED box
=============================================================================
