------------------------------ MODULE InconFile ------------------------------
(***************************************************************************)
(* The initial-conditions (INCON / SAVE) file of t2incons.py as a protocol *)
(* between a writer and a reader over a stream of typed records (C13).     *)
(*                                                                         *)
(* Document: flavour, blocks [nv, por, perm, seq] (what determines the     *)
(* record stream: number of primary variables, which optional fields are   *)
(* present), timing present or not; call parameters reset (write) and nvar *)
(* (read: num_variables, 0 = None).  Values are tokens 1..nv, so loss,     *)
(* duplication or reordering is visible.                                   *)
(*                                                                         *)
(* Writer and reader are state machines, one step per record, transcribed  *)
(* from t2incon.write / t2incon.read.  A behaviour is: write doc, read it  *)
(* back (doc2), write doc2 again (file2).                                  *)
(***************************************************************************)
EXTENDS Naturals, Sequences, FiniteSets, TLC

CONSTANTS MaxBlocks,    \* bound on the number of blocks
          NVs,          \* set of numbers of primary variables to explore
          Relax         \* "none", or the name of one well-formedness condition to drop (negative configurations)

VARIABLES doc,          \* the document being written  [flav, blocks, timing]
          reset, nvar,  \* call parameters
          phase,        \* "w1" | "r" | "w2" | "done"
          file,         \* record stream produced by the current / last writer
          file1,        \* the first written stream (kept for comparison)
          wi, wj,       \* writer: block index, values already written of that block
          rest,         \* reader: unread part of the stream
          rmode, cur, got, doc2      \* reader: mode, block under construction, values read, result

vars == <<doc, reset, nvar, phase, file, file1, wi, wj, rest, rmode, cur, got, doc2>>

Min(a, b) == IF a < b THEN a ELSE b
Block(nv, por, perm, seq) == [nv |-> nv, por |-> por, perm |-> perm, seq |-> seq]
Blocks == [nv : NVs, por : BOOLEAN, perm : BOOLEAN, seq : BOOLEAN]
Docs == [flav : {"TOUGH2", "TOUGHREACT"}, timing : BOOLEAN,
         blocks : UNION {[1..n -> Blocks] : n \in 0..MaxBlocks}]

(* legality conditions without which the FORMAT is ambiguous (each has a negative configuration) *)
WF(d, nv) ==
    /\ Relax = "mixednv" \/ \A i, j \in DOMAIN d.blocks : d.blocks[i].nv = d.blocks[j].nv     \* one number of variables per file
    /\ Relax = "none4" \/ (nv = 0 => \A i \in DOMAIN d.blocks : d.blocks[i].nv <= 4)         \* num_variables=None reads one line
    /\ Relax \in {"mixednv", "nvlarger"} \/ (nv # 0 => \A i \in DOMAIN d.blocks : d.blocks[i].nv = nv)
    /\ Relax # "nvlarger" \/ (nv # 0 => \A i \in DOMAIN d.blocks : d.blocks[i].nv < nv)       \* asking for more than there is: the reader spins
    /\ d.flav = "TOUGH2" => \A i \in DOMAIN d.blocks : ~d.blocks[i].perm                    \* permeabilities are a TOUGHREACT feature
    /\ Relax = "trnoperm" \/ (d.flav = "TOUGHREACT" =>                                      \* the reader recognises TOUGHREACT by them
          (d.blocks # <<>> /\ \E i \in DOMAIN d.blocks : d.blocks[i].perm))         \* (some block, not necessarily every block)

(* ---- records *)
Header(long) == [k |-> IF long THEN "header_long" ELSE "header_short"]
Incon1(b, i, flav) ==
    [k |-> IF flav = "TOUGHREACT" /\ b.perm THEN "incon1_toughreact" ELSE "incon1",
     blk |-> i, por |-> b.por, seq |-> b.seq, perm |-> (flav = "TOUGHREACT" /\ b.perm)]
Incon2(from, n) == [k |-> "incon2", vals |-> [x \in 1..n |-> from + x]]
Blank == [k |-> "blank"]
Plus == [k |-> "plus"]
Timing(flav) == [k |-> IF flav = "TOUGHREACT" THEN "timing_toughreact" ELSE "timing"]

(* ---- writer: one record per step *)
LongForm(d) == d.timing /\ ~reset
WStep(d) ==            \* wj = 99: the block's header record has not been written yet
    IF file = <<>> THEN /\ file' = <<Header(LongForm(d))>> /\ wi' = 1 /\ wj' = 99 /\ UNCHANGED phase
    ELSE IF wi <= Len(d.blocks) THEN
        LET b == d.blocks[wi] IN
        IF wj = 99
        THEN /\ file' = Append(file, Incon1(b, wi, d.flav)) /\ wj' = 0 /\ UNCHANGED <<wi, phase>>
        ELSE LET n == Min(4, b.nv - wj) IN
             /\ file' = Append(file, Incon2(wj, n))
             /\ (IF wj + n >= b.nv THEN wi' = wi + 1 /\ wj' = 99 ELSE wi' = wi /\ wj' = wj + n)
             /\ UNCHANGED phase
    ELSE \* terminator: two blank lines, or +++ and the timing record
        /\ file' = (IF LongForm(d) THEN file \o <<Plus, Timing(d.flav)>> ELSE file \o <<Blank, Blank>>)
        /\ wi' = 0 /\ wj' = 0
        /\ phase' = (IF phase = "w1" THEN "r" ELSE "done")

(* ---- reader: one record per step *)
NewBlk(r) == [nv |-> 0, por |-> r.por, perm |-> r.perm, seq |-> r.seq, vals |-> <<>>]
RStep ==
    LET r == Head(rest) IN
    CASE rmode = "header" -> /\ rmode' = "block" /\ rest' = Tail(rest) /\ UNCHANGED <<cur, got, doc2, phase>>
      [] rmode = "block" ->
            IF rest = <<>> \/ r.k = "blank"
            THEN /\ rmode' = "end" /\ UNCHANGED <<rest, cur, got, doc2, phase>>
            ELSE IF r.k = "plus"
            THEN /\ rmode' = "timing" /\ rest' = Tail(rest) /\ UNCHANGED <<cur, got, doc2, phase>>
            ELSE \* any other record is parsed as a block header with the 7-field TOUGHREACT layout
                 /\ cur' = [nv |-> 0, vals |-> <<>>,
                            por |-> (IF r.k \in {"incon1", "incon1_toughreact"} THEN r.por ELSE TRUE),
                            seq |-> (IF r.k \in {"incon1", "incon1_toughreact"} THEN r.seq ELSE FALSE),
                            perm |-> (r.k = "incon1_toughreact" /\ r.perm),
                            misread |-> ~(r.k \in {"incon1", "incon1_toughreact"})]
                 /\ doc2' = IF r.k = "incon1_toughreact" /\ r.perm THEN [doc2 EXCEPT !.flav = "TOUGHREACT"] ELSE doc2
                 /\ rmode' = "values" /\ got' = 0 /\ rest' = Tail(rest) /\ UNCHANGED phase
      [] rmode = "values" ->
            IF rest = <<>> THEN /\ rmode' = "spin" /\ UNCHANGED <<rest, cur, got, doc2, phase>>   \* readline() returns '' forever
            ELSE LET vs == IF r.k = "incon2" THEN r.vals ELSE <<>>
                     g == got + Len(vs)
                     c2 == [cur EXCEPT !.vals = @ \o vs, !.nv = g, !.misread = @ \/ r.k # "incon2"]
                     fin == nvar = 0 \/ g >= nvar
                 IN /\ rest' = Tail(rest) /\ got' = g
                    /\ IF fin THEN /\ doc2' = [doc2 EXCEPT !.blocks = Append(@, c2)] /\ rmode' = "block" /\ cur' = cur
                              ELSE /\ cur' = c2 /\ rmode' = "values" /\ UNCHANGED doc2
                    /\ UNCHANGED phase
      [] rmode = "timing" ->
            /\ doc2' = [doc2 EXCEPT !.timing = (rest # <<>> /\ r.k \in {"timing", "timing_toughreact"}),
                                    !.tfmt = IF rest # <<>> THEN r.k ELSE "none",
                                    !.tread = IF doc2.flav = "TOUGHREACT" THEN "timing_toughreact" ELSE "timing"]
            /\ rmode' = "end" /\ UNCHANGED <<rest, cur, got, phase>>
      [] rmode = "end" ->
            /\ phase' = "w2" /\ rmode' = "closed" /\ UNCHANGED <<rest, cur, got, doc2>>

Strip(b) == [nv |-> b.nv, por |-> b.por, perm |-> b.perm, seq |-> b.seq]
AsDoc(d2) == [flav |-> d2.flav, timing |-> d2.timing, blocks |-> [i \in DOMAIN d2.blocks |-> Strip(d2.blocks[i])]]

Init ==
    /\ doc \in Docs /\ reset \in BOOLEAN /\ nvar \in NVs \cup {0}
    /\ WF(doc, nvar)
    /\ phase = "w1" /\ file = <<>> /\ file1 = <<>> /\ wi = 0 /\ wj = 0
    /\ rest = <<>> /\ rmode = "idle" /\ cur = [nv |-> 0] /\ got = 0
    /\ doc2 = [flav |-> "TOUGH2", timing |-> FALSE, blocks |-> <<>>, tfmt |-> "none", tread |-> "none"]

Write1 == phase = "w1" /\ WStep(doc) /\ UNCHANGED <<doc, reset, nvar, file1, rest, rmode, cur, got, doc2>>
StartRead == /\ phase = "r" /\ rmode = "idle" /\ rest' = file /\ file1' = file /\ rmode' = "header"
             /\ UNCHANGED <<doc, reset, nvar, phase, file, wi, wj, cur, got, doc2>>
Read == /\ phase = "r" /\ rmode \notin {"idle", "spin", "closed"} /\ RStep
        /\ UNCHANGED <<doc, reset, nvar, file, file1, wi, wj>>
Write2 == /\ phase = "w2"              \* the re-read document is written again, from an empty stream
          /\ IF rmode = "closed" THEN /\ file' = <<>> /\ rmode' = "w2" /\ UNCHANGED <<wi, wj, phase>>
             ELSE WStep(AsDoc(doc2)) /\ UNCHANGED rmode
          /\ UNCHANGED <<doc, reset, nvar, file1, rest, cur, got, doc2>>

Next == Write1 \/ StartRead \/ Read \/ Write2

(* ---- properties *)
Expected(d) == [flav |-> d.flav, timing |-> (d.timing /\ ~reset), blocks |-> d.blocks]
P_ReaderTerminates == rmode # "spin"
P1_RoundTrip == phase \in {"w2", "done"} =>
                  /\ AsDoc(doc2) = Expected(doc)                                   \* same blocks, flavour, timing iff not reset
                  /\ \A i \in DOMAIN doc2.blocks :
                        /\ doc2.blocks[i].vals = [x \in 1..doc.blocks[i].nv |-> x]  \* every value, in order, once
                        /\ ~doc2.blocks[i].misread
                  /\ doc2.timing => doc2.tfmt = doc2.tread                          \* timing parsed with the layout it was written in
P2_SecondWriteIdentical == phase = "done" => file = file1
P3_ValuesFourPerRecord == \A i \in DOMAIN file : file[i].k = "incon2" => Len(file[i].vals) \in 1..4

=============================================================================
