--------------------------- MODULE FortranNumTrace ---------------------------
(* Classifies recorded calls of fortran_float / fortran_int: each call is a
   one-state behaviour; TLC computes what the grammar says about the field and
   reports every call whose observed outcome the specification does not allow. *)
EXTENDS FortranNum, Json, IOUtils

Calls == JsonDeserialize(IOEnv.TRACE_FILE)   \* Seq([w: class string, f: "float"|"int", obs: "value"|"nan"|"blank"|"raised"])
VARIABLE i

TInit == i \in 1..Len(Calls) /\ str = Calls[i].w
TNext == UNCHANGED <<i, str>>

Kind == IF Calls[i].f = "float" THEN RealKind(str) ELSE IntKind(str)
Allowed ==
    CASE Kind = "blank" -> {"blank"}
      [] Kind = "badchar" -> {"nan"}
      [] Kind \in {"real", "int"} -> {"value"}
      [] OTHER -> {"value", "nan", "blank"}          \* free: anything but an exception
Tree == IF Calls[i].f = "float" THEN Run(str).t ELSE RunInt(str).t
Report ==
    PrintT("EMIT" \o ToJson([i |-> i, kind |-> Kind, ok |-> Calls[i].obs \in Allowed, exp |-> Tree.exp]))
=============================================================================
