----------------------------- MODULE MulgridADT -----------------------------
(***************************************************************************)
(* The MULgraph geometry container (mulgrids.py: class mulgrid) as an      *)
(* abstract data type with hand-maintained redundant views (C10), on an    *)
(* integer lattice so that orientation, area, containment and conformity   *)
(* are exact (C11).                                                        *)
(*                                                                         *)
(* Objects carry ids.  Variables mirror the code's separate stores:        *)
(*   nodes / nodeDict, cols / colDict, conns / connDict, layers            *)
(*   nodeCols   node.column        (columns using the node)                *)
(*   colConns   column.connection (incident connections)                  *)
(*   colNbrs    column.neighbour  (other ends of those connections)        *)
(*   bnames     block_name_list (the connection name list is compared with  *)
(*              a fresh recomputation by the harness)                       *)
(* Simple edits are specified exactly (one action per public method);      *)
(* refine / decompose / reduce / refine_layers / rotate / ... are          *)
(* specified by what they must preserve (Complex).                         *)
(***************************************************************************)
EXTENDS Naturals, Integers, Sequences, FiniteSets, TLC

CONSTANTS AtmType,      \* 0 one atmosphere block, 1 one per column, 2 none
          AtmCol,       \* name of the atmosphere "column" for type 0 ("ATM")
          FreshNames    \* column names available to split_column in model checking

VARIABLES nodes, nodeDict, cols, colDict, conns, connDict, layers, nodeCols, colConns, colNbrs, bnames, last

vars == <<nodes, nodeDict, cols, colDict, conns, connDict, layers, nodeCols, colConns, colNbrs, bnames>>
allvars == <<nodes, nodeDict, cols, colDict, conns, connDict, layers, nodeCols, colConns, colNbrs, bnames, last>>

Range(s) == {s[i] : i \in DOMAIN s}
Ids(s) == {s[i].id : i \in DOMAIN s}
ById(s, id) == s[CHOOSE i \in DOMAIN s : s[i].id = id]
Has(s, id) == \E i \in DOMAIN s : s[i].id = id
NodeIds == Ids(nodes)
ColIds == Ids(cols)
ColById(c) == ById(cols, c)
NodeById(n) == ById(nodes, n)
NodesOf(c) == Range(ColById(c).nodes)
ColName(c) == IF Has(cols, c) THEN ColById(c).name ELSE "?"
ConnKey(k) == <<ColName(k.c1), ColName(k.c2)>>
NewId(used) == CHOOSE i \in 1..(Cardinality(used) + 1) : i \notin used /\ \A j \in 1..(i - 1) : j \in used

(* ---- integer geometry *)
X(n) == NodeById(n).x
Y(n) == NodeById(n).y
Cross(ax, ay, bx, by, cx, cy) == (bx - ax) * (cy - ay) - (by - ay) * (cx - ax)
(* geometry with explicit position maps p : node id -> <<x, y>> (built once per evaluation: looking a node up by id in the
   node list for every coordinate is what makes large recorded states slow) *)
RECURSIVE ShoelaceP(_, _, _)
ShoelaceP(ns, i, p) ==
    IF i > Len(ns) THEN 0
    ELSE LET a == p[ns[i]]  b == p[ns[(i % Len(ns)) + 1]] IN a[1] * b[2] - b[1] * a[2] + ShoelaceP(ns, i + 1, p)
InsideOrOnP(q, ns, p) ==
    \A i \in DOMAIN ns : LET a == p[ns[i]]  b == p[ns[(i % Len(ns)) + 1]] IN Cross(a[1], a[2], b[1], b[2], q[1], q[2]) >= 0
OldPos == [n \in NodeIds |-> <<NodeById(n).x, NodeById(n).y>>]
NewPos == [n \in Ids(nodes') |-> LET r == ById(nodes', n) IN <<r.x, r.y>>]
RECURSIVE Shoelace(_, _)
Shoelace(ns, i) ==      \* doubled signed area of the node cycle ns
    IF i > Len(ns) THEN 0
    ELSE LET a == ns[i]  b == ns[(i % Len(ns)) + 1] IN X(a) * Y(b) - X(b) * Y(a) + Shoelace(ns, i + 1)
Area2(c) == Shoelace(ColById(c).nodes, 1)
(* point (px,py) inside or on the boundary of a COUNTER-CLOCKWISE convex-or-not polygon: winding by crossings is
   overkill here - refinement and decomposition only create convex pieces of convex cells, so "left of or on every
   edge" is exact for the meshes used; non-convex columns are excluded from the tiling clause by the harness *)
InsideOrOn(px, py, ns) ==
    \A i \in DOMAIN ns : LET a == ns[i]  b == ns[(i % Len(ns)) + 1] IN Cross(X(a), Y(a), X(b), Y(b), px, py) >= 0
StrictlyInside(px, py, ns) ==
    \A i \in DOMAIN ns : LET a == ns[i]  b == ns[(i % Len(ns)) + 1] IN Cross(X(a), Y(a), X(b), Y(b), px, py) > 0
OnOpenSegment(px, py, a, b) ==
    /\ Cross(X(a), Y(a), X(b), Y(b), px, py) = 0
    /\ (X(a) - px) * (X(b) - px) + (Y(a) - py) * (Y(b) - py) < 0

(* ---- the clauses of C10 *)
Unique(s) == \A i, j \in DOMAIN s : s[i].name = s[j].name => i = j
DictOK(s, d) == /\ Unique(s) /\ DOMAIN d = {s[i].name : i \in DOMAIN s} /\ \A i \in DOMAIN s : d[s[i].name] = s[i].id
P1_ViewsAgree ==
    /\ DictOK(nodes, nodeDict) /\ DictOK(cols, colDict)
    /\ \A i, j \in DOMAIN conns : conns[i].id = conns[j].id => i = j
    /\ \A i \in DOMAIN conns : Has(cols, conns[i].c1) /\ Has(cols, conns[i].c2)
    /\ DOMAIN connDict = {ConnKey(conns[i]) : i \in DOMAIN conns}
    /\ \A i \in DOMAIN conns : connDict[ConnKey(conns[i])] = conns[i].id
    /\ Cardinality(DOMAIN connDict) = Len(conns)
    /\ \A i \in DOMAIN cols : Range(cols[i].nodes) \subseteq NodeIds
P2_NodeKnowsItsColumns ==
    LET users == [n \in NodeIds |-> {cols[i].id : i \in {j \in DOMAIN cols : n \in Range(cols[j].nodes)}}] IN
    /\ DOMAIN nodeCols = NodeIds
    /\ \A n \in NodeIds : nodeCols[n] = users[n]
Incident(c) == {conns[i].id : i \in {j \in DOMAIN conns : c \in {conns[j].c1, conns[j].c2}}}
OtherEnds(c) == {IF conns[i].c1 = c THEN conns[i].c2 ELSE conns[i].c1 : i \in {j \in DOMAIN conns : c \in {conns[j].c1, conns[j].c2}}}
P3_ColumnKnowsItsConnections ==
    /\ DOMAIN colConns = ColIds /\ DOMAIN colNbrs = ColIds
    /\ \A c \in ColIds : colConns[c] = Incident(c) /\ colNbrs[c] = OtherEnds(c)
    /\ \A c \in ColIds : \A d \in colNbrs[c] : d \in ColIds /\ c \in colNbrs[d]
ConsecutiveIn(ns, a, b) == \E i \in DOMAIN ns : ns[i] = a /\ ns[(i % Len(ns)) + 1] = b
P4_ConnectionNodesAreTheSharedEdge ==
    \A i \in DOMAIN conns :
        LET k == conns[i] IN
        (Has(cols, k.c1) /\ Has(cols, k.c2)) =>
            /\ k.n1 # 0 /\ k.n2 # 0 /\ k.n1 # k.n2
            /\ {k.n1, k.n2} \subseteq NodesOf(k.c1) \cap NodesOf(k.c2)
            /\ ConsecutiveIn(ColById(k.c1).nodes, k.n1, k.n2)
NumLayersBelow(s) == Cardinality({i \in 2..Len(layers) : layers[i].bottom < s})
P5_ColumnsWellFormed ==
    LET p == OldPos IN
    \A i \in DOMAIN cols :
        /\ Len(cols[i].nodes) >= 3
        /\ Range(cols[i].nodes) \subseteq NodeIds => ShoelaceP(cols[i].nodes, 1, p) > 0   \* counter-clockwise, positive area
        /\ cols[i].nl = NumLayersBelow(cols[i].surf)

(* block and connection name lists (convention 0: 3-character column name + 2-character layer name) *)
BlockName(lay, colname) == colname \o lay.name
InLayer(c, lay) == c.surf > lay.bottom
RECURSIVE LayerBlocks(_, _)
LayerBlocks(lay, i) == IF i > Len(cols) THEN <<>>
                       ELSE (IF InLayer(cols[i], lay) THEN <<BlockName(lay, cols[i].name)>> ELSE <<>>) \o LayerBlocks(lay, i + 1)
RECURSIVE AllLayerBlocks(_)
AllLayerBlocks(j) == IF j > Len(layers) THEN <<>> ELSE LayerBlocks(layers[j], 1) \o AllLayerBlocks(j + 1)
AtmBlocks == IF Len(layers) = 0 THEN <<>>
             ELSE IF AtmType = 0 THEN <<BlockName(layers[1], AtmCol)>>
             ELSE IF AtmType = 1 THEN [i \in DOMAIN cols |-> BlockName(layers[1], cols[i].name)] ELSE <<>>
ExpectedBlockNames == IF Len(layers) = 0 THEN <<>> ELSE AtmBlocks \o AllLayerBlocks(2)
P6_BlockNamesCurrent == bnames = ExpectedBlockNames

(* validity of the mesh (demanded after operations that promise it) *)
Against(c, d) == Cardinality(NodesOf(c) \cap NodesOf(d)) > 1
Connected(c, d) == \E i \in DOMAIN conns : {conns[i].c1, conns[i].c2} = {c, d}
NoMissingConnections ==          \* columns sharing two nodes are found through the nodes' column sets, not by comparing all pairs
    LET users == [n \in NodeIds |-> {cols[i].id : i \in {j \in DOMAIN cols : n \in Range(cols[j].nodes)}}]
        pairs == {{conns[i].c1, conns[i].c2} : i \in DOMAIN conns} IN
    \A n \in NodeIds : \A c, d \in users[n] : (c # d /\ Against(c, d)) => {c, d} \in pairs
NoExtraConnections == \A i \in DOMAIN conns : Against(conns[i].c1, conns[i].c2)
NoOrphans == \A n \in NodeIds : \E c \in ColIds : n \in NodesOf(c)
ValidMesh == NoMissingConnections /\ NoExtraConnections /\ NoOrphans
(* constructors, reduce and check(fix) produce a valid mesh whatever they are given; refine and decompose keep a valid mesh valid *)
P7_ValidMesh == last.promise => ValidMesh
P7_ValidityPreserved == (last'.op \in {"refine", "decompose_columns"} /\ ValidMesh) => ValidMesh'

(* ---- the clauses of C11 (evaluated on steps) *)
RECURSIVE SumArea2(_)
SumArea2(S) == IF S = {} THEN 0 ELSE LET c == CHOOSE y \in S : TRUE IN Area2(c) + SumArea2(S \ {c})
TotalArea2 == SumArea2(ColIds)
Depth(c) == LET col == ColById(c) IN col.surf - layers[Len(layers)].bottom          \* surface down to the bottom of the model
Vol2(c) == Area2(c) * Depth(c)
RECURSIVE SumVol2(_)
SumVol2(S) == IF S = {} THEN 0 ELSE LET c == CHOOSE y \in S : TRUE IN Vol2(c) + SumVol2(S \ {c})
TotalVol2 == SumVol2(ColIds)
Conserving == last'.op \in {"refine", "decompose_columns", "split_column", "refine_layers", "rename_column", "rename_columns", "translate",
                            "rotate90", "connect", "check"}
(* every new column lies inside an old column with the same surface; the pieces of an old column add up to it *)
Pieces(old) == {c \in ColIds' : \A n \in Range(ById(cols', c).nodes) :
                    InsideOrOn(ById(nodes', n).x, ById(nodes', n).y, ColById(old).nodes)}
RECURSIVE SumNewA(_, _)
SumNewA(J, p) == IF J = {} THEN 0 ELSE LET j == CHOOSE y \in J : TRUE IN ShoelaceP(cols'[j].nodes, 1, p) + SumNewA(J \ {j}, p)
RECURSIVE SumNewV(_, _)
SumNewV(J, p) == IF J = {} THEN 0
                 ELSE LET j == CHOOSE y \in J : TRUE IN
                      ShoelaceP(cols'[j].nodes, 1, p) * (cols'[j].surf - layers'[Len(layers')].bottom) + SumNewV(J \ {j}, p)
RECURSIVE SumOldA(_, _)
SumOldA(I, p) == IF I = {} THEN 0 ELSE LET i == CHOOSE y \in I : TRUE IN ShoelaceP(cols[i].nodes, 1, p) + SumOldA(I \ {i}, p)
RECURSIVE SumOldV(_, _)
SumOldV(I, p) == IF I = {} THEN 0
                 ELSE LET i == CHOOSE y \in I : TRUE IN
                      ShoelaceP(cols[i].nodes, 1, p) * (cols[i].surf - layers[Len(layers)].bottom) + SumOldV(I \ {i}, p)
(* (primed applications of recursive operators are avoided: TLC evaluates them very slowly) *)
C11_AreaConserved == Conserving => LET po == OldPos  pn == NewPos IN SumNewA(DOMAIN cols', pn) = SumOldA(DOMAIN cols, po)
C11_VolumeConserved == Conserving => LET po == OldPos  pn == NewPos IN SumNewV(DOMAIN cols', pn) = SumOldV(DOMAIN cols, po)
(* every new column lies inside an old column with the same surface; the pieces of an old column add up to it.
   Only columns that changed are compared: gone = old columns that are not in the new list as they were, born likewise. *)
C11_Tiling ==
    last'.op \in {"refine", "decompose_columns", "split_column"} =>
        LET po == OldPos
            pn == NewPos
            gone == {i \in DOMAIN cols : ~\E j \in DOMAIN cols' : cols'[j] = cols[i]}
            born == {j \in DOMAIN cols' : ~\E i \in DOMAIN cols : cols[i] = cols'[j]}
            In(j, i) == \A k \in DOMAIN cols'[j].nodes : InsideOrOnP(pn[cols'[j].nodes[k]], cols[i].nodes, po)
            (* sample points of the half-lattice, in doubled coordinates (2x+1, 2y+1): every one strictly inside an old
               column and on no new edge lies strictly inside exactly one of its pieces - no overlap, no gap *)
            Dbl(p, n) == <<2 * p[n][1], 2 * p[n][2]>>
            StrictIn(q, ns, p) == \A k \in DOMAIN ns :
                LET a == Dbl(p, ns[k])  b == Dbl(p, ns[(k % Len(ns)) + 1]) IN Cross(a[1], a[2], b[1], b[2], q[1], q[2]) > 0
            OnEdge(q, ns, p) == \E k \in DOMAIN ns :
                LET a == Dbl(p, ns[k])  b == Dbl(p, ns[(k % Len(ns)) + 1]) IN
                Cross(a[1], a[2], b[1], b[2], q[1], q[2]) = 0 /\ (a[1] - q[1]) * (b[1] - q[1]) + (a[2] - q[2]) * (b[2] - q[2]) <= 0
            Xs(i) == {po[cols[i].nodes[k]][1] : k \in DOMAIN cols[i].nodes}
            Ys(i) == {po[cols[i].nodes[k]][2] : k \in DOMAIN cols[i].nodes}
            MinS(S) == CHOOSE x \in S : \A y \in S : x <= y
            MaxS(S) == CHOOSE x \in S : \A y \in S : x >= y
            Samples(i) == {<<2 * x + 1, 2 * y + 1>> : x \in MinS(Xs(i))..(MaxS(Xs(i)) - 1), y \in MinS(Ys(i))..(MaxS(Ys(i)) - 1)}
        IN /\ \A j \in born : \E i \in gone : In(j, i) /\ cols'[j].surf = cols[i].surf
           /\ \A i \in gone : SumNewA({j \in born : In(j, i)}, pn) = ShoelaceP(cols[i].nodes, 1, po)
           /\ \A i \in gone :
                 LET pieces == {j \in born : In(j, i)} IN
                 \A q \in Samples(i) :
                    (StrictIn(q, cols[i].nodes, po) /\ ~\E j \in pieces : OnEdge(q, cols'[j].nodes, pn))
                        => Cardinality({j \in pieces : StrictIn(q, cols'[j].nodes, pn)}) = 1
(* conformity: no node lies in the open interior of an edge of a column that does not list it *)
OnOpenSegmentP(q, a, b) ==
    /\ Cross(a[1], a[2], b[1], b[2], q[1], q[2]) = 0
    /\ (a[1] - q[1]) * (b[1] - q[1]) + (a[2] - q[2]) * (b[2] - q[2]) < 0
Conforming ==
    LET p == OldPos IN
    \A i \in DOMAIN cols : \A j \in DOMAIN cols[i].nodes :
        LET a == p[cols[i].nodes[j]]  b == p[cols[i].nodes[(j % Len(cols[i].nodes)) + 1]] IN
        \A n \in NodeIds : n \notin Range(cols[i].nodes) => ~OnOpenSegmentP(p[n], a, b)
C11_Conforming == last.promise => Conforming
(* refining / decomposing / splitting a conforming mesh gives a conforming mesh *)
ConformingNew ==
    LET p == NewPos IN
    \A i \in DOMAIN cols' : \A j \in DOMAIN cols'[i].nodes :
        LET a == p[cols'[i].nodes[j]]  b == p[cols'[i].nodes[(j % Len(cols'[i].nodes)) + 1]] IN
        \A n \in Ids(nodes') : n \notin Range(cols'[i].nodes) => ~OnOpenSegmentP(p[n], a, b)
C11_ConformityPreserved == (last'.op \in {"refine", "decompose_columns", "split_column"} /\ Conforming) => ConformingNew

(* ---- exactly specified edits *)
Restrict(f, S) == [x \in S |-> f[x]]
Promise(op) == op \in {"init", "reduce", "check"}
Act(op, args) == [op |-> op, args |-> args, promise |-> Promise(op)]
SharedEdge(c1nodes, c2nodes) ==       \* first edge of c1 (in its node order) whose two nodes are both in c2
    LET idx == {i \in DOMAIN c1nodes : c1nodes[i] \in Range(c2nodes) /\ c1nodes[(i % Len(c1nodes)) + 1] \in Range(c2nodes)} IN
    IF idx = {} THEN <<0, 0>> ELSE LET i == CHOOSE j \in idx : \A m \in idx : j <= m IN <<c1nodes[i], c1nodes[(i % Len(c1nodes)) + 1]>>

RenameColumn(old, new) ==
    /\ old \in DOMAIN colDict /\ new \notin DOMAIN colDict
    /\ LET id == colDict[old]
           Ren(n) == IF n = old THEN new ELSE n IN
       /\ cols' = [i \in DOMAIN cols |-> IF cols[i].id = id THEN [cols[i] EXCEPT !.name = new] ELSE cols[i]]
       /\ colDict' = [n \in {Ren(x) : x \in DOMAIN colDict} |-> colDict[CHOOSE x \in DOMAIN colDict : Ren(x) = n]]
       /\ connDict' = [k \in {<<Ren(x[1]), Ren(x[2])>> : x \in DOMAIN connDict} |->
                          connDict[CHOOSE x \in DOMAIN connDict : <<Ren(x[1]), Ren(x[2])>> = k]]
    /\ UNCHANGED <<nodes, nodeDict, conns, layers, nodeCols, colConns, colNbrs>>
    /\ last' = Act("rename_column", <<old, new>>)
    /\ bnames' = ExpectedBlockNames'

(* rename_column with lists: several columns renamed in one call (old names distinct, new names fresh and distinct) *)
RenameColumns(olds, news) ==
    /\ Len(olds) = Len(news) /\ Len(olds) > 0
    /\ \A i \in DOMAIN olds : olds[i] \in DOMAIN colDict /\ news[i] \notin DOMAIN colDict
    /\ \A i, j \in DOMAIN olds : i # j => olds[i] # olds[j] /\ news[i] # news[j]
    /\ LET Ren(n) == IF \E i \in DOMAIN olds : olds[i] = n THEN news[CHOOSE i \in DOMAIN olds : olds[i] = n] ELSE n IN
       /\ cols' = [i \in DOMAIN cols |-> [cols[i] EXCEPT !.name = Ren(cols[i].name)]]
       /\ colDict' = [n \in {Ren(x) : x \in DOMAIN colDict} |-> colDict[CHOOSE x \in DOMAIN colDict : Ren(x) = n]]
       /\ connDict' = [k \in {<<Ren(x[1]), Ren(x[2])>> : x \in DOMAIN connDict} |->
                          connDict[CHOOSE x \in DOMAIN connDict : <<Ren(x[1]), Ren(x[2])>> = k]]
    /\ UNCHANGED <<nodes, nodeDict, conns, layers, nodeCols, colConns, colNbrs>>
    /\ last' = Act("rename_columns", <<olds, news>>)
    /\ bnames' = ExpectedBlockNames'

DeleteColumn(name) ==
    /\ name \in DOMAIN colDict
    /\ LET id == colDict[name]
           gone == Incident(id)
           goneKeys == {k \in DOMAIN connDict : connDict[k] \in gone} IN
       /\ conns' = SelectSeq(conns, LAMBDA k : k.id \notin gone)
       /\ connDict' = Restrict(connDict, DOMAIN connDict \ goneKeys)
       /\ cols' = SelectSeq(cols, LAMBDA c : c.id # id)
       /\ colDict' = Restrict(colDict, DOMAIN colDict \ {name})
       /\ nodeCols' = [n \in DOMAIN nodeCols |-> nodeCols[n] \ {id}]
       /\ colConns' = [c \in DOMAIN colConns \ {id} |-> colConns[c] \ gone]
       /\ colNbrs' = [c \in DOMAIN colNbrs \ {id} |-> colNbrs[c] \ {id}]
    /\ UNCHANGED <<nodes, nodeDict, layers>>
    /\ last' = Act("delete_column", <<name>>)
    /\ bnames' = ExpectedBlockNames'

SetSurface(name, s) ==         \* column.surface = s; set_column_num_layers; name lists refreshed
    /\ name \in DOMAIN colDict
    /\ cols' = [i \in DOMAIN cols |-> IF cols[i].name = name THEN [cols[i] EXCEPT !.surf = s, !.nl = NumLayersBelow(s)] ELSE cols[i]]
    /\ UNCHANGED <<nodes, nodeDict, colDict, conns, connDict, layers, nodeCols, colConns, colNbrs>>
    /\ last' = Act("set_surface", <<name, s>>)
    /\ bnames' = ExpectedBlockNames'

(* split_column(col, node): a quadrilateral becomes two triangles; the new column takes the two edges after the
   node opposite... see the code: col keeps nodes i0,i1,i2, the new column gets i2,i3,i0 *)
SplitColumn(name, nodename, newname) ==
    /\ name \in DOMAIN colDict /\ nodename \in DOMAIN nodeDict /\ newname \notin DOMAIN colDict
    /\ LET id == colDict[name]
           col == ColById(id)
           nid == nodeDict[nodename] IN
       /\ Len(col.nodes) = 4 /\ nid \in Range(col.nodes)
       /\ LET i0 == CHOOSE i \in 1..4 : col.nodes[i] = nid
              at(j) == col.nodes[((i0 - 1 + j) % 4) + 1]
              newid == NewId(ColIds \cup Range(colDict))
              n3 == at(3)
              keepNodes == SelectSeq(col.nodes, LAMBDA n : n # n3)
              newNodes == <<at(2), at(3), at(0)>>
              moved == {k \in Incident(id) : LET kk == ById(conns, k) IN
                            n3 \in NodesOf(IF kk.c1 = id THEN kk.c2 ELSE kk.c1)}
              cid == NewId(Ids(conns) \cup Range(connDict))
              conns1 == [i \in DOMAIN conns |-> IF conns[i].id \in moved
                                                  THEN (IF conns[i].c1 = id THEN [conns[i] EXCEPT !.c1 = newid] ELSE [conns[i] EXCEPT !.c2 = newid])
                                                  ELSE conns[i]]
              edge == SharedEdge(keepNodes, newNodes)
          IN
          /\ cols' = [i \in DOMAIN cols |-> IF cols[i].id = id THEN [cols[i] EXCEPT !.nodes = keepNodes] ELSE cols[i]]
                     \o <<[id |-> newid, name |-> newname, nodes |-> newNodes, surf |-> col.surf, nl |-> col.nl]>>
          /\ colDict' = (newname :> newid) @@ colDict
          /\ conns' = conns1 \o <<[id |-> cid, c1 |-> id, c2 |-> newid, n1 |-> edge[1], n2 |-> edge[2]]>>
          /\ nodeCols' = [n \in DOMAIN nodeCols |->
                             IF n = n3 THEN (nodeCols[n] \ {id}) \cup {newid}
                             ELSE IF n \in {at(0), at(2)} THEN nodeCols[n] \cup {newid} ELSE nodeCols[n]]
    /\ UNCHANGED <<nodes, nodeDict, layers>>
    /\ last' = Act("split_column", <<name, nodename, newname>>)
    (* the derived views are whatever the invariants force them to be *)
    /\ connDict' = [k \in {<<ById(cols', conns'[i].c1).name, ById(cols', conns'[i].c2).name>> : i \in DOMAIN conns'} |->
                       conns'[CHOOSE i \in DOMAIN conns' : <<ById(cols', conns'[i].c1).name, ById(cols', conns'[i].c2).name>> = k].id]
    /\ colConns' = [c \in Ids(cols') |-> {conns'[i].id : i \in {j \in DOMAIN conns' : c \in {conns'[j].c1, conns'[j].c2}}}]
    /\ colNbrs' = [c \in Ids(cols') |-> {IF conns'[i].c1 = c THEN conns'[i].c2 ELSE conns'[i].c1 :
                                            i \in {j \in DOMAIN conns' : c \in {conns'[j].c1, conns'[j].c2}}}]
    /\ bnames' = ExpectedBlockNames'

Init == FALSE      \* initial states come from the MC module (a small lattice mesh) or from recorded traces

Next ==
    \/ \E old \in DOMAIN colDict, new \in FreshNames : RenameColumn(old, new)
    \/ \E name \in DOMAIN colDict : DeleteColumn(name)
    \/ \E name \in DOMAIN colDict, s \in {layers[i].bottom : i \in DOMAIN layers} \cup {layers[1].bottom - 1} : SetSurface(name, s) /\ cols' # cols
    \/ \E name \in DOMAIN colDict, nn \in DOMAIN nodeDict, new \in FreshNames : SplitColumn(name, nn, new)

Consistent == P1_ViewsAgree /\ P2_NodeKnowsItsColumns /\ P3_ColumnKnowsItsConnections

=============================================================================
