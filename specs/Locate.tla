------------------------------- MODULE Locate -------------------------------
(***************************************************************************)
(* Point and line location in a MULgraph geometry (C12) on exact integer   *)
(* coordinates.  A mesh is given by the vertex cycle of each column, the   *)
(* (rational) centre of each column, the bounding rectangle, the outer     *)
(* boundary polygon, layers and column surfaces.  Transcribed from the     *)
(* code, step for step:                                                    *)
(*   geometry.in_polygon            the half-open crossing rule            *)
(*   geometry.in_rectangle, rectangles_intersect, sub_rectangles           *)
(*   mulgrids.quadtree              constructor (children on demand),      *)
(*                                  leaf(), search_wave()                  *)
(*   mulgrid.column_containing_point   bounds / guess / subset / quadtree  *)
(*   mulgrid.block_name_containing_point                                   *)
(*   mulgrid.column_track with geometry.line_polygon_intersections         *)
(* and decided against independent definitions: the winding number, the    *)
(* same-side test for convex polygons, exhaustive search over all columns, *)
(* and the Cyrus-Beck clip of a segment by a convex polygon.               *)
(* Quadtree rectangles carry numerators over 2^g (g = generation), column  *)
(* centres are <<xn, yn, d>>, line parameters are reduced <<n, d>>.        *)
(***************************************************************************)
EXTENDS Integers, Sequences, FiniteSets, TLC, SequencesExt, FiniteSetsExt, Functions

CONSTANTS NCols,      \* columns are 1..NCols in column-list order
          Poly,       \* Poly[c]: vertex cycle, sequence of <<x, y>>
          Centre,     \* Centre[c] = <<xn, yn, d>>, d > 0
          Root,       \* <<x0, y0, x1, y1>>: bounding rectangle of all nodes
          BPoly,      \* outer boundary polygon (simplified)
          Xs, Ys,     \* candidate query coordinates
          Layers,     \* Layers[i] = <<bottom, top>>; Layers[1] is the atmosphere layer (bottom = top)
          Surface,    \* Surface[c]
          Zs,         \* candidate elevations
          Lines,      \* set of <<p0, p1>> segments for column_track
          GuessMode,  \* "all" | "rnf" (right, neighbours of right, far)
          Variant,    \* "code" | "no_fallback" (the pinned tree) | "strict_rect" | "half_open_child" | "done_forgotten" | "sort_exit" (harmless: same order) | "closed_crossing" | "no_end_clip"
          WaveOrder   \* "sorted" | "any"

VARIABLES q,      \* the query
          pc,     \* "start" "guess" "full" "leaf" "wave" "layer" "track" "sort" "done"
          node,   \* current quadtree node [g, x0, y0, x1, y1, elts]
          anc,    \* its ancestors, nearest first (quadtree.parent chain)
          todo, done,   \* search_wave / donecols
          res,    \* column found (0 = None)
          blk,    \* <<layer, column>> found (<<0, 0>> = None)
          tr      \* column_track state [i, sc, ec, track]
vars == <<q, pc, node, anc, todo, done, res, blk, tr>>

None == 0
AllCols == 1..NCols
NoBlk == <<0, 0>>
NoNode == [g |-> 0, x0 |-> 0, y0 |-> 0, x1 |-> 0, y1 |-> 0, elts |-> <<>>]
NoTr == [i |-> 0, sc |-> 0, ec |-> 0, track |-> <<>>]

(* ------------------------------------------------------------------ geometry, exact *)
Edges(poly) == [i \in 1..Len(poly) |-> <<poly[i], poly[(i % Len(poly)) + 1]>>]
Cross2(ax, ay, bx, by) == ax * by - bx * ay
IsLeft(a, b, p) == Cross2(b[1] - a[1], b[2] - a[2], p[1] - a[1], p[2] - a[2])
Min2(a, b) == IF a < b THEN a ELSE b
Max2(a, b) == IF a > b THEN a ELSE b
OnSeg(p, a, b) == /\ IsLeft(a, b, p) = 0
                  /\ Min2(a[1], b[1]) <= p[1] /\ p[1] <= Max2(a[1], b[1])
                  /\ Min2(a[2], b[2]) <= p[2] /\ p[2] <= Max2(a[2], b[2])
OnBoundary(p, poly) == \E i \in 1..Len(poly) : OnSeg(p, Edges(poly)[i][1], Edges(poly)[i][2])

(* the code: geometry.in_polygon (coordinates relative to polygon[0] change nothing in exact arithmetic) *)
CrossEdge(a, b, v) ==
    IF (a[2] <= v[2] /\ v[2] < b[2]) \/ (b[2] <= v[2] /\ v[2] < a[2])
       \/ (Variant = "closed_crossing" /\ a[2] # b[2] /\ (v[2] = a[2] \/ v[2] = b[2]))
    THEN LET dx == b[1] - a[1]  dy == b[2] - a[2] IN
         (* v.x < a.x + (v.y - a.y) * dx / dy *)
         IF dy > 0 THEN (IF (v[1] - a[1]) * dy < (v[2] - a[2]) * dx THEN 1 ELSE 0)
                   ELSE (IF (v[1] - a[1]) * dy > (v[2] - a[2]) * dx THEN 1 ELSE 0)
    ELSE 0
RECURSIVE CrossCount(_, _, _)
CrossCount(v, poly, i) == IF i = 0 THEN 0 ELSE CrossEdge(Edges(poly)[i][1], Edges(poly)[i][2], v) + CrossCount(v, poly, i - 1)
InPolygon(v, poly) == (CrossCount(v, poly, Len(poly)) % 2) = 1

(* independent: winding number by upward / downward crossings with a side test *)
WindEdge(a, b, p) ==
    IF a[2] <= p[2] THEN (IF b[2] > p[2] /\ IsLeft(a, b, p) > 0 THEN 1 ELSE 0)
                    ELSE (IF b[2] <= p[2] /\ IsLeft(a, b, p) < 0 THEN 0 - 1 ELSE 0)
RECURSIVE WindSum(_, _, _)
WindSum(p, poly, i) == IF i = 0 THEN 0 ELSE WindEdge(Edges(poly)[i][1], Edges(poly)[i][2], p) + WindSum(p, poly, i - 1)
Winding(p, poly) == WindSum(p, poly, Len(poly))
Inside(p, poly) == Winding(p, poly) # 0
(* independent, convex polygons: strictly on one side of every edge *)
Convex(poly) == \/ \A i \in 1..Len(poly) : IsLeft(Edges(poly)[i][1], Edges(poly)[i][2], poly[((i + 1) % Len(poly)) + 1]) >= 0
                \/ \A i \in 1..Len(poly) : IsLeft(Edges(poly)[i][1], Edges(poly)[i][2], poly[((i + 1) % Len(poly)) + 1]) <= 0
SameSide(p, poly) == \/ \A i \in 1..Len(poly) : IsLeft(Edges(poly)[i][1], Edges(poly)[i][2], p) > 0
                     \/ \A i \in 1..Len(poly) : IsLeft(Edges(poly)[i][1], Edges(poly)[i][2], p) < 0

BBox(c) == LET xs == {Poly[c][i][1] : i \in 1..Len(Poly[c])}  ys == {Poly[c][i][2] : i \in 1..Len(Poly[c])} IN
           <<Min(xs), Min(ys), Max(xs), Max(ys)>>
BBoxT == [c \in AllCols |-> BBox(c)]
InRectI(p, r) == r[1] <= p[1] /\ p[1] <= r[3] /\ r[2] <= p[2] /\ p[2] <= r[4]       \* in_rectangle, integer rectangle
Near(c, p) == InRectI(p, BBoxT[c])                                                   \* column.near_point
ColHas(c, p) == InPolygon(p, Poly[c])                                             \* column.contains_point

SharesEdge(c, d) == \E i \in 1..Len(Poly[c]), j \in 1..Len(Poly[d]) :
                        LET e == Edges(Poly[c])[i]  f == Edges(Poly[d])[j] IN (e[1] = f[2] /\ e[2] = f[1]) \/ (e[1] = f[1] /\ e[2] = f[2])
Nbr == [c \in AllCols |-> {d \in AllCols \ {c} : SharesEdge(c, d)}]

(* ------------------------------------------------------------------ query points *)
OnAnyEdge(p) == \E c \in AllCols : OnBoundary(p, Poly[c])
Points == {p \in Xs \X Ys : ~OnAnyEdge(p)}
Owners(p) == {c \in AllCols : Inside(p, Poly[c])}
Ans(p) == IF Owners(p) = {} THEN None ELSE CHOOSE c \in Owners(p) : TRUE

(* ------------------------------------------------------------------ quadtree *)
P2(g) == 2 ^ g
InRectQ(p, n) == LET s == P2(n.g) IN n.x0 <= p[1] * s /\ p[1] * s <= n.x1 /\ n.y0 <= p[2] * s /\ p[2] * s <= n.y1
InRectC(c, n) == LET s == P2(n.g)  ce == Centre[c] IN
                 n.x0 * ce[3] <= ce[1] * s /\ ce[1] * s <= n.x1 * ce[3] /\ n.y0 * ce[3] <= ce[2] * s /\ ce[2] * s <= n.y1 * ce[3]
(* the "half_open_child" variant: a centre on the upper/right side of a sub-rectangle is not taken *)
InRectCHalf(c, n) == LET s == P2(n.g)  ce == Centre[c] IN
                 n.x0 * ce[3] <= ce[1] * s /\ ce[1] * s < n.x1 * ce[3] /\ n.y0 * ce[3] <= ce[2] * s /\ ce[2] * s < n.y1 * ce[3]
RectsIntersect(b, n) ==       \* rectangles_intersect(column bounding box, node bounds)
    LET s == P2(n.g) IN
    IF Variant = "strict_rect"
    THEN b[3] * s > n.x0 /\ n.x1 > b[1] * s /\ b[4] * s > n.y0 /\ n.y1 > b[2] * s
    ELSE b[3] * s >= n.x0 /\ n.x1 >= b[1] * s /\ b[4] * s >= n.y0 /\ n.y1 >= b[2] * s
SubRects(n) ==                 \* sub_rectangles: r0 bottom-left, r1 bottom-right, r2 top-left, r3 top-right
    LET g == n.g + 1  cx == n.x0 + n.x1  cy == n.y0 + n.y1 IN
    << [g |-> g, x0 |-> 2 * n.x0, y0 |-> 2 * n.y0, x1 |-> cx, y1 |-> cy],
       [g |-> g, x0 |-> cx, y0 |-> 2 * n.y0, x1 |-> 2 * n.x1, y1 |-> cy],
       [g |-> g, x0 |-> 2 * n.x0, y0 |-> cy, x1 |-> cx, y1 |-> 2 * n.y1],
       [g |-> g, x0 |-> cx, y0 |-> cy, x1 |-> 2 * n.x1, y1 |-> 2 * n.y1] >>
InSub(c, r) == IF Variant = "half_open_child" THEN InRectCHalf(c, r) ELSE InRectC(c, r)
FirstRect(c, rs) == LET hit == {k \in 1..4 : InSub(c, rs[k])} IN IF hit = {} THEN 0 ELSE Min(hit)
Children(n) ==                 \* the non-empty children, in order, each element in the first sub-rectangle holding its centre
    IF Len(n.elts) <= 1 THEN <<>>
    ELSE LET rs == SubRects(n)
             part == [k \in 1..4 |-> SelectSeq(n.elts, LAMBDA c : FirstRect(c, rs) = k)]
             kids == [k \in 1..4 |-> [g |-> rs[k].g, x0 |-> rs[k].x0, y0 |-> rs[k].y0, x1 |-> rs[k].x1, y1 |-> rs[k].y1, elts |-> part[k]]]
         IN SelectSeq(kids, LAMBDA k : k.elts # <<>>)
MkNode(r, elts) == [g |-> 0, x0 |-> r[1], y0 |-> r[2], x1 |-> r[3], y1 |-> r[4], elts |-> elts]
RECURSIVE Tree(_)
Tree(n) == [g |-> n.g, b |-> <<n.x0, n.y0, n.x1, n.y1>>, elts |-> n.elts,
            kids |-> LET ks == Children(n) IN [k \in 1..Len(ks) |-> Tree(ks[k])]]

(* ------------------------------------------------------------------ the queries *)
AscSeq(S) == SortSeq(SetToSeq(S), <)
Half(a) == LET lo == {c \in AllCols : 2 * c <= NCols} IN IF a \in lo THEN lo ELSE AllCols \ lo
SubsetCols(tag, a) == CASE tag = "none" -> AllCols
                        [] tag = "ansnbr" -> {a} \cup Nbr[a]
                        [] tag = "ansonly" -> {a}
                        [] tag = "half" -> Half(a)
SubsetTags(a) == IF a = None THEN {"none", "half"} ELSE {"none", "ansnbr", "ansonly", "half"}
Far(a) == {c \in AllCols : c \notin Nbr[a] \cup {a} /\ (c = 1 \/ c = NCols \/ c = (NCols + 1) \div 2)}
Guesses(a) == IF GuessMode = "all" THEN {None} \cup AllCols
              ELSE IF a = None THEN {None, 1, NCols} ELSE {None, a} \cup Nbr[a] \cup Far(a)
ColQueries(p) == LET a == Ans(p) IN
    {[kind |-> "col", a |-> a, pt |-> p, guess |-> g, bounds |-> b, cols |-> s, useq |-> u, z |-> 0, line |-> <<>>] :
        g \in Guesses(a), b \in {"none", "rect", "poly"}, s \in SubsetTags(a), u \in BOOLEAN}
BlkQueries(p) == {[kind |-> "blk", a |-> Ans(p), pt |-> p, guess |-> None, bounds |-> "none", cols |-> "none", useq |-> u, z |-> z, line |-> <<>>] :
        u \in BOOLEAN, z \in Zs}
TrackQueries == {[kind |-> "track", a |-> None, pt |-> <<0, 0>>, guess |-> None, bounds |-> "none", cols |-> "none", useq |-> FALSE, z |-> 0, line |-> ln] :
        ln \in Lines}
Queries == UNION {ColQueries(p) \cup BlkQueries(p) : p \in Points} \cup TrackQueries

SearchSet == SubsetCols(q.cols, q.a)      \* q.a = Ans(q.pt), computed once with the query
SearchSeq == AscSeq(SearchSet)
BoundsOf(S) == <<Min({BBoxT[c][1] : c \in S}), Min({BBoxT[c][2] : c \in S}), Max({BBoxT[c][3] : c \in S}), Max({BBoxT[c][4] : c \in S})>>
RootNode == IF q.cols = "none" THEN MkNode(Root, SearchSeq) ELSE MkNode(BoundsOf(SearchSet), SearchSeq)
InBounds == CASE q.bounds = "none" -> TRUE
              [] q.bounds = "rect" -> InRectI(q.pt, Root)
              [] q.bounds = "poly" -> InPolygon(q.pt, BPoly)

Init == /\ q \in Queries
        /\ pc = IF q.kind = "track" THEN "track" ELSE "start"
        /\ node = NoNode /\ anc = <<>> /\ todo = <<>> /\ done = {} /\ res = None /\ blk = NoBlk
        /\ tr = IF q.kind = "track" THEN [NoTr EXCEPT !.i = 1] ELSE NoTr

Finish(c) == /\ res' = c
             /\ pc' = IF q.kind = "blk" THEN "layer" ELSE "done"

(* column_containing_point: the bounds test *)
Start == /\ pc = "start"
         /\ IF ~InBounds THEN Finish(None) ELSE res' = res /\ pc' = (IF q.guess # None THEN "guess" ELSE "full")
         /\ UNCHANGED <<q, node, anc, todo, done, blk, tr>>

(* the guess, then its near neighbours that are searched columns *)
Guess == /\ pc = "guess"
         /\ IF ColHas(q.guess, q.pt) THEN Finish(q.guess) /\ done' = done
            ELSE LET near == {c \in Nbr[q.guess] : Near(c, q.pt) /\ c \in SearchSet}
                     hit == {c \in near : ColHas(c, q.pt)} IN
                 IF hit # {} THEN Finish(Min(hit)) /\ done' = done
                 ELSE /\ done' = (IF Variant = "done_forgotten" THEN {} ELSE {q.guess} \cup near)
                      /\ pc' = "full" /\ res' = res
         /\ UNCHANGED <<q, node, anc, todo, blk, tr>>

(* full search: quadtree if given, otherwise the near columns not yet done *)
Full == /\ pc = "full"
        /\ IF q.useq THEN /\ node' = RootNode /\ pc' = "leaf" /\ res' = res
           ELSE LET near == {c \in SearchSet : Near(c, q.pt)} \ done
                    hit == {c \in near : ColHas(c, q.pt)} IN
                /\ Finish(IF hit = {} THEN None ELSE Min(hit)) /\ node' = node
        /\ UNCHANGED <<q, anc, todo, done, blk, tr>>

(* quadtree.leaf: one generation per step *)
Leaf == /\ pc = "leaf"
        /\ IF node.g = 0 /\ ~InRectQ(q.pt, node) THEN Finish(None) /\ UNCHANGED <<node, anc, todo, done>>
           ELSE LET hits == SelectSeq(Children(node), LAMBDA k : InRectQ(q.pt, k)) IN
                IF hits # <<>> THEN node' = hits[1] /\ anc' = <<node>> \o anc /\ UNCHANGED <<pc, res, todo, done>>
                ELSE pc' = "wave" /\ todo' = node.elts /\ done' = {} /\ UNCHANGED <<node, anc, res>>
        /\ UNCHANGED <<q, blk, tr>>

(* quadtree.search_wave: one element per step; quadtree.search: when a wave is exhausted, the parent's wave *)
Wave == /\ pc = "wave"
        /\ IF todo = <<>>
           THEN IF anc = <<>> \/ Variant = "no_fallback" THEN Finish(None) /\ UNCHANGED <<node, anc, todo, done>>
                ELSE /\ node' = Head(anc) /\ anc' = Tail(anc) /\ todo' = Head(anc).elts /\ done' = {}
                     /\ UNCHANGED <<pc, res>>
           ELSE LET e == Head(todo) IN
                IF ColHas(e, q.pt) THEN Finish(e) /\ UNCHANGED <<node, anc, todo, done>>
                ELSE LET d2 == done \cup {e}
                         new == {n \in Nbr[e] \cap SearchSet :
                                    RectsIntersect(BBoxT[n], node) /\ n \notin d2 /\ n \notin Range(Tail(todo))} IN
                     /\ done' = d2 /\ res' = res /\ pc' = pc /\ UNCHANGED <<node, anc>>
                     /\ IF WaveOrder = "any" THEN \E s \in {t \in [1..Cardinality(new) -> new] : Range(t) = new} : todo' = Tail(todo) \o s
                        ELSE todo' = Tail(todo) \o AscSeq(new)
        /\ UNCHANGED <<q, blk, tr>>

(* block_name_containing_point, after the column has been found *)
LayerOf(z) == LET hit == {i \in 2..Len(Layers) : Layers[i][1] <= z /\ z <= Layers[i][2]} IN IF hit = {} THEN 0 ELSE Min(hit)
Layer == /\ pc = "layer"
         /\ LET lay == IF res = None THEN 0
                       ELSE IF Layers[1][1] < q.z /\ q.z <= Surface[res] THEN 2 ELSE LayerOf(q.z) IN
            blk' = IF res # None /\ lay # 0 /\ Surface[res] > Layers[lay][1] THEN <<lay, res>> ELSE NoBlk
         /\ pc' = "done"
         /\ UNCHANGED <<q, node, anc, todo, done, res, tr>>

(* ------------------------------------------------------------------ column_track *)
RECURSIVE GCD(_, _)
GCD(a, b) == IF b = 0 THEN a ELSE GCD(b, a % b)
Abs(a) == IF a < 0 THEN 0 - a ELSE a
Rat(n, d) == LET s == IF d < 0 THEN 0 - 1 ELSE 1  g == GCD(Abs(n), Abs(d)) IN <<(s * n) \div g, (s * d) \div g>>     \* d # 0
RLt(a, b) == a[1] * b[2] < b[1] * a[2]
RLe(a, b) == a[1] * b[2] <= b[1] * a[2]
R0 == <<0, 1>>
R1 == <<1, 1>>
(* segment meets closed rectangle (what the Cohen-Sutherland loop of line_intersects_rectangle decides) *)
SegsMeet(a, b, c, d) ==
    LET o1 == IsLeft(a, b, c)  o2 == IsLeft(a, b, d)  o3 == IsLeft(c, d, a)  o4 == IsLeft(c, d, b) IN
    \/ ((o1 > 0 /\ o2 < 0) \/ (o1 < 0 /\ o2 > 0)) /\ ((o3 > 0 /\ o4 < 0) \/ (o3 < 0 /\ o4 > 0))
    \/ OnSeg(c, a, b) \/ OnSeg(d, a, b) \/ OnSeg(a, c, d) \/ OnSeg(b, c, d)
SegMeetsRect(ln, r) ==
    \/ InRectI(ln[1], r) \/ InRectI(ln[2], r)
    \/ SegsMeet(ln[1], ln[2], <<r[1], r[2]>>, <<r[3], r[2]>>) \/ SegsMeet(ln[1], ln[2], <<r[3], r[2]>>, <<r[3], r[4]>>)
    \/ SegsMeet(ln[1], ln[2], <<r[3], r[4]>>, <<r[1], r[4]>>) \/ SegsMeet(ln[1], ln[2], <<r[1], r[4]>>, <<r[1], r[2]>>)
(* line_polygon_intersections: the parameters (along the line) of the crossings with each side, duplicates removed, sorted *)
CrossParam(a, b, ln) ==       \* {} or {s}
    LET dpx == b[1] - a[1]  dpy == b[2] - a[2]  dlx == ln[2][1] - ln[1][1]  dly == ln[2][2] - ln[1][2]
        wx == ln[1][1] - a[1]  wy == ln[1][2] - a[2]
        D == Cross2(dpx, dpy, dlx, dly)  un == Cross2(wx, wy, dlx, dly)  sn == Cross2(wx, wy, dpx, dpy) IN
    IF D = 0 THEN {}
    ELSE LET u == Rat(un, D)  s == Rat(sn, D) IN
         IF RLe(R0, u) /\ RLe(u, R1) /\ RLe(R0, s) /\ RLe(s, R1) THEN {s} ELSE {}
Crossings(poly, ln) == SortSeq(SetToSeq(UNION {CrossParam(Edges(poly)[i][1], Edges(poly)[i][2], ln) : i \in 1..Len(poly)}), RLt)

TrackStep ==
    /\ pc = "track"
    /\ LET i == tr.i  ln == q.line IN
       IF i > NCols THEN pc' = "sort" /\ tr' = tr
       ELSE IF ~SegMeetsRect(ln, BBoxT[i]) THEN tr' = [tr EXCEPT !.i = i + 1] /\ pc' = pc
       ELSE LET sc == IF tr.sc = None /\ ColHas(i, ln[1]) THEN i ELSE tr.sc
                ec == IF tr.ec = None /\ ColHas(i, ln[2]) THEN i ELSE tr.ec IN
            IF i = sc /\ i = ec
            THEN /\ tr' = [i |-> i, sc |-> sc, ec |-> ec, track |-> Append(tr.track, <<i, R0, R1>>)]
                 /\ pc' = "sort"                                                            \* break
            ELSE LET pts == Crossings(Poly[i], ln)
                     pin == IF pts = <<>> THEN R0 ELSE IF i = sc THEN R0 ELSE pts[1]
                     pout == IF pts = <<>> THEN R0 ELSE IF i = sc THEN pts[Len(pts)] ELSE IF i = ec /\ Variant # "no_end_clip" THEN R1 ELSE pts[Len(pts)]
                     keep == pts # <<>> /\ pin # pout          \* |dout - din| > col_tol, exact: lines with clips near the tolerance are excluded
                 IN /\ tr' = [i |-> i + 1, sc |-> sc, ec |-> ec, track |-> IF keep THEN Append(tr.track, <<i, pin, pout>>) ELSE tr.track]
                    /\ pc' = pc
    /\ UNCHANGED <<q, node, anc, todo, done, res, blk>>

SortKey(a, b) == IF Variant = "sort_exit" THEN RLt(a[3], b[3]) ELSE RLt(a[2], b[2])
TrackSort == /\ pc = "sort"
             /\ tr' = [tr EXCEPT !.track = SortSeq(tr.track, SortKey)]
             /\ pc' = "done"
             /\ UNCHANGED <<q, node, anc, todo, done, res, blk>>

Next == Start \/ Guess \/ Full \/ Leaf \/ Wave \/ Layer \/ TrackStep \/ TrackSort
Spec == Init /\ [][Next]_vars

(* ------------------------------------------------------------------ properties *)
TypeOK == /\ pc \in {"start", "guess", "full", "leaf", "wave", "layer", "track", "sort", "done"}
          /\ res \in {None} \cup AllCols
          /\ done \subseteq AllCols
Final == pc = "done" /\ q.kind # "track"
Canon == pc = "start" /\ q.kind = "col" /\ q.guess = None /\ q.bounds = "none" /\ q.cols = "none" /\ ~q.useq
(* P1: the column reported contains the point (winding number) *)
P1_ReportedContains == Final /\ res # None => Inside(q.pt, Poly[res])
(* P2: whatever the aids, the answer is that of exhaustive search over all columns *)
P2_AidsAgree == Final => res = q.a
L_AnswerIsExhaustive == Canon => q.a = Ans(q.pt)
(* P3: a point outside every column yields nothing *)
P3_OutsideNothing == Final /\ q.a = None => res = None /\ blk = NoBlk
(* P4: the block reported is the unique block containing the 3-D point *)
BlocksAt(p, z) == {b \in (2..Len(Layers)) \X AllCols :
                      /\ Inside(p, Poly[b[2]]) /\ Surface[b[2]] > Layers[b[1]][1] /\ Layers[b[1]][1] < z
                      (* the top block of a column whose surface lies above the top layer reaches up to the surface *)
                      /\ (z < Layers[b[1]][2] \/ (b[1] = 2 /\ z < Surface[b[2]]))}
P4_UniqueBlock == Final /\ q.kind = "blk" => /\ Cardinality(BlocksAt(q.pt, q.z)) <= 1
                                            /\ blk = (IF BlocksAt(q.pt, q.z) = {} THEN NoBlk ELSE CHOOSE b \in BlocksAt(q.pt, q.z) : TRUE)
(* lemmas about the containment rule itself, evaluated once per point (at its plain query) *)
L_CrossingIsWinding == Canon => \A c \in AllCols : ColHas(c, q.pt) <=> Inside(q.pt, Poly[c])
L_ConvexSameSide == Canon => \A c \in AllCols : Convex(Poly[c]) => (SameSide(q.pt, Poly[c]) <=> Inside(q.pt, Poly[c]))
L_AtMostOneOwner == Canon => Cardinality(Owners(q.pt)) <= 1
L_BoundaryPolygon == Canon => (InPolygon(q.pt, BPoly) <=> Inside(q.pt, BPoly)) /\ (Owners(q.pt) # {} => Inside(q.pt, BPoly))

(* the track: Cyrus-Beck clip of the segment by a convex column, independent of the crossing list *)
ClipEdge(a, b, ln, ori) ==       \* [kind, t]: "in" lower bound, "out" upper bound, "all", "none"
    LET nn == ori * IsLeft(a, b, ln[1])                 \* > 0: start point on the inner side
        dd == ori * (IsLeft(a, b, ln[2]) - IsLeft(a, b, ln[1])) IN
    IF dd = 0 THEN (IF nn > 0 THEN [kind |-> "all", t |-> R0] ELSE [kind |-> "none", t |-> R0])
    ELSE IF dd > 0 THEN [kind |-> "in", t |-> Rat(0 - nn, dd)] ELSE [kind |-> "out", t |-> Rat(0 - nn, dd)]
Orient(poly) == IF \A i \in 1..Len(poly) : IsLeft(Edges(poly)[i][1], Edges(poly)[i][2], poly[((i + 1) % Len(poly)) + 1]) >= 0 THEN 1 ELSE 0 - 1
RMax(S) == CHOOSE a \in S : \A b \in S : RLe(b, a)
RMin(S) == CHOOSE a \in S : \A b \in S : RLe(a, b)
Clip(c, ln) ==                   \* <<tin, tout>> with tin < tout, or <<>>
    LET poly == Poly[c]  o == Orient(poly)
        es == {ClipEdge(Edges(poly)[i][1], Edges(poly)[i][2], ln, o) : i \in 1..Len(poly)}
        tin == RMax({R0} \cup {e.t : e \in {x \in es : x.kind = "in"}})
        tout == RMin({R1} \cup {e.t : e \in {x \in es : x.kind = "out"}}) IN
    IF (\E e \in es : e.kind = "none") \/ ~RLt(tin, tout) THEN <<>> ELSE <<tin, tout>>
TrackDone == pc = "done" /\ q.kind = "track"
AllConvex == \A c \in AllCols : Convex(Poly[c])
T1_ExactlyCrossed == TrackDone /\ AllConvex =>
    /\ {e[1] : e \in Range(tr.track)} = {c \in AllCols : Clip(c, q.line) # <<>>}
    /\ \A e \in Range(tr.track) : Clip(e[1], q.line) = <<e[2], e[3]>>
    /\ Len(tr.track) = Cardinality({e[1] : e \in Range(tr.track)})
T2_Ordered == TrackDone => \A i \in 1..(Len(tr.track) - 1) : RLe(tr.track[i][2], tr.track[i + 1][2]) /\ RLe(tr.track[i][3], tr.track[i + 1][2])
T3_AbutOrGap == TrackDone /\ AllConvex => \A i \in 1..(Len(tr.track) - 1) :
    \/ tr.track[i][3] = tr.track[i + 1][2]
    \/ (* a gap (non-convex domain): no column is crossed strictly inside it *)
       LET a == tr.track[i][3]  b == tr.track[i + 1][2] IN
       \A c \in AllCols : LET cl == Clip(c, q.line) IN cl = <<>> \/ RLe(cl[2], a) \/ RLe(b, cl[1])
=============================================================================
