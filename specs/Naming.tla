------------------------------- MODULE Naming -------------------------------
(***************************************************************************)
(* Names in MULgraph geometries (mulgrids.py; C17).                        *)
(*                                                                         *)
(* Part 1 - generated names.  A name is a sequence of symbol indices       *)
(* 0..Base-1 into the character set.  IntToChars is bijective numeration   *)
(* (spaces allowed: a, b, .. z, aa, ..) or zero-based positional           *)
(* numeration padded with symbol 0 (no spaces: aab, aac, ..).  A name      *)
(* longer than the convention's length is a NAMING ERROR, never a          *)
(* truncated or duplicate name.  The enumeration walks i = 1, 2, ...       *)
(*                                                                         *)
(* Part 2 - the (A3, I2) quirk.  A five-character name is a sequence of    *)
(* character CLASSES  L letter, Z zero, N non-zero digit, B blank,         *)
(* P punctuation.  Fix repairs a blank in the fourth column between two    *)
(* digits; Unfix prints the last two characters as an I2 number.           *)
(***************************************************************************)
EXTENDS Naturals, Sequences, FiniteSets, TLC

CONSTANTS Base,         \* size of the character set (26)
          Spaces,       \* TRUE: bijective numeration; FALSE: positional, padded
          Length,       \* name length of the convention (2 or 3)
          MaxNum,       \* enumerate numbers 1..MaxNum
          Mode          \* "gen" (part 1) | "quirk" (part 2)

VARIABLES num, name5

vars == <<num, name5>>

(* ---- part 1 *)
RECURSIVE ItoC(_, _)
ItoC(i, st) ==
    IF i > 0
    THEN LET ci == IF Spaces THEN i - 1 ELSE i IN ItoC(ci \div Base, <<ci % Base>> \o st)
    ELSE st
Pad(st) == IF ~Spaces /\ Len(st) < Length THEN [k \in 1..(Length - Len(st)) |-> 0] \o st ELSE st
GenName(i) == Pad(ItoC(i, <<>>))
TooLong(i) == Len(GenName(i)) > Length

(* inverse: the number a name stands for *)
RECURSIVE CtoI(_, _)
CtoI(st, acc) ==
    IF st = <<>> THEN acc
    ELSE CtoI(Tail(st), acc * Base + Head(st) + (IF Spaces THEN 1 ELSE 0))

(* capacities *)
RECURSIVE Pow(_, _)
Pow(b, e) == IF e = 0 THEN 1 ELSE b * Pow(b, e - 1)
RECURSIVE SumPow(_, _)
SumPow(b, e) == IF e = 0 THEN 0 ELSE Pow(b, e) + SumPow(b, e - 1)
Capacity == IF Spaces THEN SumPow(Base, Length) ELSE Pow(Base, Length) - 1

P_Invertible == Mode = "gen" => CtoI(GenName(num), 0) = num                 \* hence all generated names are distinct
P_ErrorExactlyAboveCapacity == Mode = "gen" => (TooLong(num) <=> num > Capacity)
P_LengthWithinConvention == Mode = "gen" /\ ~TooLong(num) => Len(GenName(num)) <= Length /\ (~Spaces => Len(GenName(num)) = Length)
(* the surface-layer names the layer generator must skip: 'atm' and 'at' in bijective base 26 (a=0, t=19, m=12) *)
P_SurfaceLayerNumbers == Mode = "gen" /\ Spaces /\ Base = 26 =>
    /\ (num = 1209 => GenName(num) = <<0, 19, 12>>)
    /\ (num = 46 => GenName(num) = <<0, 19>>)

(* ---- part 2 *)
Classes == {"L", "Z", "N", "B", "P"}
Digit(c) == c \in {"Z", "N"}
Fix(n) == IF Digit(n[3]) /\ Digit(n[5]) /\ n[4] = "B" THEN [n EXCEPT ![4] = "Z"] ELSE n
(* '%3s%2d' % (name[0:3], int(name[3:5])) when both are digits: a leading zero becomes a blank *)
Unfix(n) == IF Digit(n[4]) /\ Digit(n[5]) THEN (IF n[4] = "Z" THEN [n EXCEPT ![4] = "B"] ELSE n) ELSE n
Valid(n) == n[4] \in {"Z", "N", "B"} /\ Digit(n[5])
(* what the simulator prints for a name it holds as (A3, I2): the number is printed in I2 *)
SimPrint(n) == IF n[4] \in {"B", "Z"} THEN [n EXCEPT ![4] = "B"] ELSE n
Cycle(n) == Fix(Unfix(n))       \* written (un-repaired), read back (repaired)

Q_FixIdempotent == Mode = "quirk" => Fix(Fix(name5)) = Fix(name5)
Q_UnfixIsPrintForm == Mode = "quirk" /\ Valid(name5) => Unfix(Fix(name5)) = SimPrint(name5)
Q_CycleReachesFixpoint == Mode = "quirk" => Cycle(Cycle(name5)) = Cycle(name5)
Q_FixKeepsValidity == Mode = "quirk" => (Valid(name5) <=> Valid(Fix(name5)))
Q_RepairedSurvivesCycle == Mode = "quirk" /\ Valid(name5) /\ Fix(name5) = name5 /\ ~(name5[4] = "Z" /\ ~Digit(name5[3]))
                              => Cycle(name5) = name5

Init == IF Mode = "gen" THEN num = 1 /\ name5 = <<>>
        ELSE num = 0 /\ name5 \in [1..5 -> Classes]
Next == Mode = "gen" /\ num < MaxNum /\ num' = num + 1 /\ UNCHANGED name5

=============================================================================
