------------------------------ MODULE GeoToGrid ------------------------------
(***************************************************************************)
(* What t2grid().fromgeo(geo) must produce (C04), as functions of a        *)
(* MulgridADT state on the integer lattice: the block list and the         *)
(* connection list (names, order, orientation), and - exactly, in lattice  *)
(* units - block volumes, interface areas, connection distances and the    *)
(* sign / squared value of the gravity cosine.                             *)
(* Doubled quantities avoid halves: Area2 = 2 x area, centres are kept as  *)
(* 2 x coordinate.                                                         *)
(*                                                                         *)
(* The module is evaluated on recorded geometries (one state per case).    *)
(***************************************************************************)
EXTENDS MulgridADT, Json, IOUtils

Cases == JsonDeserialize(IOEnv.TRACE_FILE)
VARIABLE ci

PairsToFun(ps) == [k \in {ps[i][1] : i \in DOMAIN ps} |-> ps[CHOOSE i \in DOMAIN ps : ps[i][1] = k][2]]
TriplesToFun(ps) == [k \in {<<ps[i][1], ps[i][2]>> : i \in DOMAIN ps} |-> ps[CHOOSE i \in DOMAIN ps : <<ps[i][1], ps[i][2]>> = k][3]]
SetsToFun(ps) == [k \in {ps[i][1] : i \in DOMAIN ps} |-> Range(ps[CHOOSE i \in DOMAIN ps : ps[i][1] = k][2])]

GInit ==
    /\ ci \in 1..Len(Cases)
    /\ LET st == Cases[ci] IN
       /\ nodes = st.nodes /\ nodeDict = PairsToFun(st.nodeDict) /\ cols = st.cols /\ colDict = PairsToFun(st.colDict)
       /\ conns = st.conns /\ connDict = TriplesToFun(st.connDict) /\ layers = st.layers
       /\ nodeCols = SetsToFun(st.nodeCols) /\ colConns = SetsToFun(st.colConns) /\ colNbrs = SetsToFun(st.colNbrs)
       /\ bnames = st.bnames
    /\ last = Act("init", <<>>)
GNext == UNCHANGED <<allvars, ci>>

(* block names are emitted as <<column name, layer name>> pairs: composing them is the naming convention's business (Naming.tla) *)
BN(lay, colname) == <<colname, lay.name>>
BNList == LET RECURSIVE LB(_, _)
                  LB(j, i) == IF j > Len(layers) THEN <<>> ELSE IF i > Len(cols) THEN LB(j + 1, 1)
                              ELSE (IF cols[i].surf > layers[j].bottom THEN <<BN(layers[j], cols[i].name)>> ELSE <<>>) \o LB(j, i + 1)
              IN (IF AtmType = 0 THEN <<BN(layers[1], AtmCol)>> ELSE IF AtmType = 1 THEN [i \in DOMAIN cols |-> BN(layers[1], cols[i].name)] ELSE <<>>) \o LB(2, 1)

(* ---- block geometry *)
Ground == layers[1].bottom
(* top of the block of column c in layer j (j >= 2): the column surface in a truncated surface block, or when the surface
   rises above the top of the model in the first layer; the layer top otherwise *)
BlockTop(c, j) ==
    IF c.surf < layers[j].top THEN c.surf
    ELSE IF c.surf > layers[1].top /\ j = 2 THEN c.surf
    ELSE layers[j].top
ColArea2(c) == Shoelace(c.nodes, 1)
BlockVol2(c, j) == ColArea2(c) * (BlockTop(c, j) - layers[j].bottom)
(* twice the layer's centre elevation: a layer record may give a centre that is not at mid-height (case field lctr2) *)
LC2(j) == IF "lctr2" \in DOMAIN Cases[ci] THEN Cases[ci].lctr2[j] ELSE layers[j].bottom + layers[j].top
(* twice the elevation of the block centre: mid-height of a truncated surface block, the layer centre otherwise *)
BlockZ2(c, j) == IF layers[j].bottom < c.surf /\ c.surf <= layers[j].top THEN layers[j].bottom + c.surf
                 ELSE LC2(j)
InLay(c, j) == c.surf > layers[j].bottom
TotalVol2G == LET RECURSIVE S(_, _)
                  S(i, j) == IF i > Len(cols) THEN 0
                             ELSE IF j > Len(layers) THEN S(i + 1, 2)
                             ELSE (IF InLay(cols[i], j) THEN BlockVol2(cols[i], j) ELSE 0) + S(i, j + 1)
              IN S(1, 2)
(* total rock volume = sum over columns of area x depth from the surface to the bottom of the model *)
P_TotalVolume == TotalVol2G = LET RECURSIVE T(_)
                                  T(i) == IF i > Len(cols) THEN 0
                                          ELSE ColArea2(cols[i]) * (cols[i].surf - layers[Len(layers)].bottom) + T(i + 1)
                              IN T(1)

(* ---- connections of layer j: vertical ones first (in column order), then horizontal ones (in connection order) *)
AtmName(c) == IF AtmType = 0 THEN BN(layers[1], AtmCol) ELSE BN(layers[1], c.name)
ToAtm(c, j) == j = 2 \/ c.surf <= layers[j].top
Vertical(c, j) ==
    IF ToAtm(c, j)
    THEN (IF AtmType = 2 THEN <<>>
          ELSE <<[kind |-> "atm", b1 |-> BN(layers[j], c.name), b2 |-> AtmName(c), area2 |-> ColArea2(c),
                  d1x2 |-> 2 * c.surf - BlockZ2(c, j), d2x2 |-> -1, cossign |-> -1]>>)
    ELSE <<[kind |-> "vert", b1 |-> BN(layers[j], c.name), b2 |-> BN(layers[j - 1], c.name), area2 |-> ColArea2(c),
            d1x2 |-> 2 * layers[j].top - LC2(j),
            d2x2 |-> BlockZ2(c, j - 1) - 2 * layers[j - 1].bottom, cossign |-> -1]>>
RECURSIVE Verticals(_, _)
Verticals(i, j) == IF i > Len(cols) THEN <<>> ELSE (IF InLay(cols[i], j) THEN Vertical(cols[i], j) ELSE <<>>) \o Verticals(i + 1, j)
Min(a, b) == IF a < b THEN a ELSE b
AbsI(a) == IF a < 0 THEN 0 - a ELSE a
Horizontal(k, j) ==
    LET c1 == ColById(k.c1)  c2 == ColById(k.c2)
        dx == X(k.n2) - X(k.n1)  dy == Y(k.n2) - Y(k.n1)
        axis == dx = 0 \/ dy = 0
        h == Min(BlockTop(c1, j), BlockTop(c2, j)) - layers[j].bottom
        dz2 == BlockZ2(c2, j) - BlockZ2(c1, j)
    IN [kind |-> "horiz", b1 |-> BN(layers[j], c1.name), b2 |-> BN(layers[j], c2.name),
        area2 |-> IF axis THEN 2 * (AbsI(dx) + AbsI(dy)) * h ELSE -1,          \* side length x lower of the two block heights
        d1x2 |-> -1, d2x2 |-> -1,                                                \* perpendicular distances: harness leaf
        cossign |-> IF dz2 > 0 THEN -1 ELSE IF dz2 < 0 THEN 1 ELSE 0]           \* block 2 higher => line points up => negative cosine
RECURSIVE Horizontals(_, _)
Horizontals(i, j) == IF i > Len(conns) THEN <<>>
                     ELSE (IF InLay(ColById(conns[i].c1), j) /\ InLay(ColById(conns[i].c2), j) THEN <<Horizontal(conns[i], j)>> ELSE <<>>)
                          \o Horizontals(i + 1, j)
RECURSIVE AllConns(_)
AllConns(j) == IF j > Len(layers) THEN <<>> ELSE Verticals(1, j) \o Horizontals(1, j) \o AllConns(j + 1)
ExpectedConns == AllConns(2)

RECURSIVE BlockData(_, _)
BlockData(j, i) == IF j > Len(layers) THEN <<>>
                   ELSE IF i > Len(cols) THEN BlockData(j + 1, 1)
                   ELSE (IF InLay(cols[i], j) THEN <<[name |-> BN(layers[j], cols[i].name), vol2 |-> BlockVol2(cols[i], j),
                                                      z2 |-> BlockZ2(cols[i], j)]>> ELSE <<>>) \o BlockData(j, i + 1)

(* every block named by the geometry takes part in some connection, unless the model is a single block *)
P_EveryBlockConnected ==
    LET names == {ExpectedConns[i].b1 : i \in DOMAIN ExpectedConns} \cup {ExpectedConns[i].b2 : i \in DOMAIN ExpectedConns}
        under == BlockData(2, 1) IN
    Len(under) > 1 => \A i \in DOMAIN under : under[i].name \in names
P_BlockNamesMatch == bnames = ExpectedBlockNames

Emit == PrintT("EMIT" \o ToJson([ci |-> ci, blocks |-> BNList, data |-> BlockData(2, 1), conns |-> ExpectedConns,
                                 totalvol |-> P_TotalVolume, connected |-> P_EveryBlockConnected, names |-> P_BlockNamesMatch]))
=============================================================================
