----------------------------- MODULE HistoryFile -----------------------------
(***************************************************************************)
(* FOFT / COFT / GOFT history files as t2historyfile (t2listing.py) reads  *)
(* them: a file is a sequence of records (time, key); what the reader      *)
(* exposes is the list of keys in order of first appearance, the list of   *)
(* times, one row per record, the rows of a key as its history, and the    *)
(* row of a (key, time) pair.  The values of a record are a function of    *)
(* (key, time, column) chosen by the harness, so that a value read from    *)
(* the wrong row or column is visible.  This module grows the              *)
(* specification beyond the 20 listed properties: what it finds is         *)
(* reported as an observation, not as a verdict on any of them.            *)
(*                                                                         *)
(* Layouts: "lines"  - TOUGH2 and TOUGH+ FOFT: one line per time listing   *)
(*                     the keys reported at that time;                     *)
(*          "rows"   - TOUGH2_MP: one line per record, possibly repeated   *)
(*                     (the same record written by two processes).         *)
(***************************************************************************)
EXTENDS Naturals, Sequences, FiniteSets, TLC

CONSTANTS Keys,        \* key ids (1..K)
          NT,          \* number of times
          Layout       \* "lines" | "rows"

VARIABLE file          \* sequence of records [t |-> time index, k |-> key]
Rec == [t : 1..NT, k : Keys]

Range(s) == {s[i] : i \in DOMAIN s}
NoRepeat(s) == \A i, j \in DOMAIN s : i # j => s[i] # s[j]
TimesNonDecreasing(s) == \A i, j \in DOMAIN s : i < j => s[i].t <= s[j].t
(* the files in the domain: times in order; in the "lines" layout a line lists a key once and the first line is not
   empty; in the "rows" layout a record may be repeated (consecutively or not) *)
WellFormed(s) ==
    /\ TimesNonDecreasing(s)
    /\ Layout = "lines" => NoRepeat(s) /\ (\E i \in DOMAIN s : s[i].t = 1)
    /\ Layout = "rows" => Len(s) > 0

(* ---- what the reader exposes *)
RECURSIVE Dedup(_)
Dedup(s) == IF s = <<>> THEN <<>>
            ELSE LET r == Dedup(SubSeq(s, 1, Len(s) - 1)) IN
                 IF s[Len(s)] \in Range(r) THEN r ELSE Append(r, s[Len(s)])
Rows(s) == IF Layout = "rows" THEN Dedup(s) ELSE s           \* a repeated record is kept once
KeysOf(s) == Dedup([i \in DOMAIN s |-> s[i].k])              \* order of first appearance
History(s, k) == SelectSeq(Rows(s), LAMBDA r : r.k = k)     \* the rows of a key, in file order
TimesOf(s) ==
    IF Layout = "lines" THEN [i \in 1..NT |-> i]                                    \* one per line, reported or not
    ELSE LET h == History(s, s[1].k) IN [i \in DOMAIN h |-> h[i].t]               \* the times of the first key
RowOf(s, k, t) == {i \in DOMAIN Rows(s) : Rows(s)[i] = [t |-> t, k |-> k]}

Read(s) == [keys |-> KeysOf(s), times |-> TimesOf(s), rows |-> Rows(s),
            hist |-> [k \in Range(KeysOf(s)) |-> [i \in DOMAIN History(s, k) |-> History(s, k)[i].t]]]

Init == file \in {s \in UNION {[1..n -> Rec] : n \in 0..(NT * Cardinality(Keys) + (IF Layout = "rows" THEN 1 ELSE 0))} : WellFormed(s)}
Next == UNCHANGED file

(* ---- what must hold of the reader's view, for every file *)
H1_KeysAreTheKeysPresent == NoRepeat(KeysOf(file)) /\ Range(KeysOf(file)) = {file[i].k : i \in DOMAIN file}
H2_RowsPartitionedByKey ==
    LET R == Rows(file) IN
    /\ NoRepeat(R) /\ Range(R) = Range(file)
    /\ \A i \in DOMAIN R : \E j \in DOMAIN History(file, R[i].k) : History(file, R[i].k)[j] = R[i]
H3_HistoryInTimeOrder == \A k \in Range(KeysOf(file)) : \A i, j \in DOMAIN History(file, k) : i < j => History(file, k)[i].t < History(file, k)[j].t
H4_RowLookupUnique == \A r \in Range(file) : Cardinality(RowOf(file, r.k, r.t)) = 1
(* a complete file (every key at every time) has every time in its list and a full-length history for every key *)
Complete(s) == \A t \in 1..NT, k \in Keys : [t |-> t, k |-> k] \in Range(s)
H5_CompleteFile == Complete(file) => /\ TimesOf(file) = [i \in 1..NT |-> i]
                                     /\ \A k \in Keys : Len(History(file, k)) = NT
=============================================================================
