--------------------------- MODULE T2DataADTTrace ---------------------------
(* Recorded executions of the real t2data object (random edit sequences) validated against T2DataADT:                *)
(* G1 / G2 in every recorded state, R_RenameKeeps on every recorded rename step, and whether the step is the one the  *)
(* specification's action allows (otherwise drift).  Findings are EMITted; verdicts are total.                        *)
EXTENDS T2DataADT, Json, IOUtils

Traces == JsonDeserialize(IOEnv.TRACE_FILE)
VARIABLES tid, l, drift

PairsToFun(ps) == [k \in {ps[i][1] : i \in DOMAIN ps} |-> ps[CHOOSE i \in DOMAIN ps : ps[i][1] = k][2]]
KeysToFun(ps) == [k \in {<<ps[i][1], ps[i][2]>> : i \in DOMAIN ps} |-> ps[CHOOSE i \in DOMAIN ps : <<ps[i][1], ps[i][2]>> = k][3]]
ToPairs(s) == [i \in DOMAIN s |-> <<s[i][1], s[i][2]>>]
Range(f) == {f[x] : x \in DOMAIN f}
Ev(t, i) == Traces[t][i]
Load(st) == /\ grid' = Range(st.grid) /\ incon' = PairsToFun(st.incon) /\ gens' = st.gens /\ genDict' = KeysToFun(st.genDict)
            /\ printBlock' = st.printBlock /\ hist' = [b |-> st.hist.b, c |-> ToPairs(st.hist.c), g |-> st.hist.g]
TraceInit == /\ tid \in 1..Len(Traces) /\ l = 1 /\ drift = FALSE
             /\ LET st == Ev(tid, 1).state IN
                /\ grid = Range(st.grid) /\ incon = PairsToFun(st.incon) /\ gens = st.gens /\ genDict = KeysToFun(st.genDict)
                /\ printBlock = st.printBlock /\ hist = [b |-> st.hist.b, c |-> ToPairs(st.hist.c), g |-> st.hist.g]
             /\ last = [op |-> "init"]
ActOf(a) == IF a.op = "rename_blocks" THEN [op |-> "rename_blocks", m |-> PairsToFun(a.m)] ELSE a
Match(a) == CASE a.op = "add_generator" -> AddGenerator(a.b, a.n)
              [] a.op = "delete_generator" -> DeleteGenerator(a.b, a.n)
              [] a.op = "clear_generators" -> ClearGenerators
              [] a.op = "delete_orphan_generators" -> DeleteOrphanGenerators
              [] a.op = "delete_block" -> DeleteBlockFromGrid(a.b)
              [] a.op = "set_incon" -> SetIncon(a.b, a.v)
              [] a.op = "rename_blocks" -> RenameBlocks(a.m)
              [] a.op = "set_requests" -> TRUE
              [] OTHER -> FALSE
TraceNext == /\ l < Len(Traces[tid]) /\ l' = l + 1 /\ tid' = tid
             /\ LET ev == Ev(tid, l + 1) IN
                /\ last' = ActOf(ev.act) /\ Load(ev.state)
                /\ drift' = ~Match(ActOf(ev.act))
StateFailing == (IF G1_LookupIntoList THEN {} ELSE {"G1_LookupIntoList"})
ReportState == LET f == StateFailing IN (f = {} /\ ~drift) \/ PrintT("EMIT" \o ToJson([tid |-> tid, l |-> l, failing |-> f, drift |-> drift, kind |-> "state"]))
ReportStep == R_RenameKeeps \/ PrintT("EMIT" \o ToJson([tid |-> tid, l |-> l', failing |-> {"R_RenameKeeps"}, drift |-> FALSE, kind |-> "step"]))
=============================================================================
