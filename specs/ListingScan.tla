----------------------------- MODULE ListingScan -----------------------------
(***************************************************************************)
(* Token-level model of how t2listing.history() finds the tables it was    *)
(* asked for (C06: "terminates" and "reads the right table of the right    *)
(* result set").  A listing is a sequence of LINE TOKENS; the cursor is an *)
(* index into it.  The three skip procedures of the code                   *)
(*    skip_to_table_TOUGHplus / _TOUGH2 / _AUTOUGH2, next_table_*          *)
(* are transcribed with one TLA+ step per loop iteration, so that "the     *)
(* loop spins at end of file" is a reachable state (pc = "stuck") instead  *)
(* of a non-terminating evaluation.                                        *)
(*                                                                         *)
(* Token grammars (read off the shipped files):                            *)
(*  TOUGH+  : EQ THDR EQ  HEAD US ROW* AT  { US HEAD US ROW* [AT] }*       *)
(*            - no AT after the primary table: its rows run into the US    *)
(*              line that precedes the next header                         *)
(*  TOUGH2  : AT THDR AT  HEAD ROW* AT  { KCYC HEAD ROW* AT }*             *)
(*  AUTOUGH2: { KW(t) OUT KW(t) HEAD ROW* KW(t) }*                         *)
(*                                                                         *)
(* Variant = "pinned" keeps the two TOUGH+ mistakes of the pinned tree as  *)
(* named deviations (the element-table counter is taken from the caller,   *)
(* who only counts SELECTED element tables; the primary table is left with *)
(* a '_____' skip even when the cursor is already inside its rows);        *)
(* Variant = "fixed" is what the property requires.                        *)
(***************************************************************************)
EXTENDS Naturals, Integers, Sequences, FiniteSets, TLC

CONSTANTS Flavour,      \* "TOUGH+" | "TOUGH2" | "AUTOUGH2"
          Present,      \* tables of each result set, in file order (names as the reader gives them)
          NSets,        \* number of result sets
          NRows,        \* rows per table
          Variant       \* "fixed" | "pinned"

VARIABLES sel,          \* selected tables, a subsequence of Present (what ordered_selection produces)
          si, ti,       \* result set and position in sel being processed
          cur,          \* cursor: index of the next token to be read
          tname, nelt,  \* locals of skip_to_table
          last, hnelt,  \* history()'s last_tname and its element-table counter
          pc

vars == <<sel, si, ti, cur, tname, nelt, last, hnelt, pc>>

None == "none"
IsElem(t) == t \in {"element", "element1", "element2"}
TypeOf(t) == IF IsElem(t) THEN "element" ELSE t         \* what the header line says
Tok(k, t, s) == [k |-> k, t |-> t, s |-> s]

RECURSIVE Rows(_, _, _)
Rows(n, t, s) == IF n = 0 THEN <<>> ELSE <<Tok("ROW", t, s)>> \o Rows(n - 1, t, s)

TableToks(i, s) ==
    LET t == Present[i] IN
    CASE Flavour = "TOUGH+" ->
            (IF i > 1 THEN <<Tok("US", t, s)>> ELSE <<>>) \o <<Tok("HEAD", t, s), Tok("US", t, s)>> \o Rows(NRows, t, s)
            \o (IF t = "primary" THEN <<>> ELSE <<Tok("AT", t, s)>>)
      [] Flavour = "TOUGH2" ->
            (IF i > 1 THEN <<Tok("KCYC", t, s)>> ELSE <<>>) \o <<Tok("HEAD", t, s)>> \o Rows(NRows, t, s) \o <<Tok("AT", t, s)>>
      [] OTHER ->  \* AUTOUGH2
            <<Tok("KW", t, s), Tok("OUT", t, s), Tok("KW", t, s), Tok("HEAD", t, s)>> \o Rows(NRows, t, s) \o <<Tok("KW", t, s)>>

RECURSIVE Tables(_, _)
Tables(i, s) == IF i > Len(Present) THEN <<>> ELSE TableToks(i, s) \o Tables(i + 1, s)

SetToks(s) ==
    CASE Flavour = "TOUGH+" -> <<Tok("EQ", None, s), Tok("THDR", None, s), Tok("EQ", None, s)>> \o Tables(1, s)
      [] Flavour = "TOUGH2" -> <<Tok("AT", None, s), Tok("THDR", None, s), Tok("AT", None, s)>> \o Tables(1, s)
      [] OTHER -> Tables(1, s)

RECURSIVE Sets(_)
Sets(s) == IF s > NSets THEN <<>> ELSE SetToks(s) \o Sets(s + 1)
File == Sets(1)
EOF == Len(File) + 1

(* the reader's recorded start of result set s: just after the time-header line
   (TOUGH2 / TOUGH+), just after the first EEEEE keyword line (AUTOUGH2) *)
SetStart(s) ==
    IF s > NSets THEN EOF
    ELSE LET first == CHOOSE j \in DOMAIN File : File[j].s = s /\ \A m \in DOMAIN File : File[m].s = s => j <= m
         IN IF Flavour = "AUTOUGH2" THEN first + 1 ELSE first + 2

(* skipto(kind): position after the next token of that kind at or after p; EOF if none *)
SkipTo(p, kinds) ==
    LET c == {j \in p..Len(File) : File[j].k \in kinds} IN
    IF c = {} THEN EOF ELSE (CHOOSE j \in c : \A m \in c : j <= m) + 1
Found(p, kinds) == \E j \in p..Len(File) : File[j].k \in kinds
SkipToKW(p, t) ==
    LET c == {j \in p..Len(File) : File[j].k = "KW" /\ File[j].t = t} IN
    IF c = {} THEN EOF ELSE (CHOOSE j \in c : \A m \in c : j <= m) + 1
(* skip_to_nonblank: blank lines are not tokens, so this is the identity *)

(* next_table_*: from p, find the next table header of the current result set.
   Returns [pos, name]; name = None when there is none (end of file or next result set). *)
NextTable(p, s) ==
    LET kind == IF Flavour = "TOUGH+" THEN {"US"} ELSE {"KCYC"}
        q == SkipTo(p, kind)          \* TOUGH+: past the '_____' line (and the blank after it)
    IN IF ~Found(p, kind) THEN [pos |-> EOF, name |-> None]
       ELSE IF NSets > 1 /\ s < NSets /\ q >= SetStart(s + 1) THEN [pos |-> q, name |-> None]
       ELSE IF q <= Len(File) /\ File[q].k = "HEAD" THEN [pos |-> q, name |-> TypeOf(File[q].t)]
       ELSE [pos |-> q, name |-> None]   \* the line read as "headers" is not a header: table_type gives None

ElemName(n) == IF n = 0 THEN "element" ELSE IF n = 1 THEN "element1" ELSE "element2"
(* number of element tables up to and including table t, minus one (fixed variant) *)
ElemsUpTo(t) ==
    LET i == CHOOSE j \in DOMAIN Present : Present[j] = t IN
    Cardinality({j \in 1..i : IsElem(Present[j])}) - 1

Wanted == sel[ti]

IsSubSeqOfPresent(s) ==
    \E f \in [DOMAIN s -> DOMAIN Present] :
        /\ \A i \in DOMAIN s : s[i] = Present[f[i]]
        /\ \A i, j \in DOMAIN s : i < j => f[i] < f[j]

Init ==
    /\ sel \in {s \in UNION {[1..n -> {Present[i] : i \in DOMAIN Present}] : n \in 1..Len(Present)} : IsSubSeqOfPresent(s)}
    /\ si = 1 /\ ti = 1 /\ cur = SetStart(1)
    /\ tname = None /\ nelt = 0 /\ last = None /\ hnelt = -1
    /\ pc = "call"

(* entry of skip_to_table(Wanted, last, hnelt) *)
Call ==
    /\ pc = "call"
    /\ CASE Flavour = "AUTOUGH2" ->
              \* no loop: keyword skips only
              LET first == Present[1]
                  p1 == IF Wanted # first THEN SkipToKW(cur, Wanted) ELSE cur
                  p2 == SkipTo(p1, {"OUT"})
                  p3 == SkipToKW(p2, Wanted)
              IN /\ cur' = p3 /\ tname' = (IF p3 <= Len(File) /\ File[p3].k = "HEAD" THEN File[p3].t ELSE None)
                 /\ nelt' = nelt /\ pc' = "landed"
         [] OTHER ->
              IF last = None
              THEN /\ cur' = SkipTo(cur, IF Flavour = "TOUGH+" THEN {"EQ"} ELSE {"AT"})
                   /\ tname' = "element" /\ nelt' = 0 /\ pc' = "loop"
              ELSE /\ cur' = cur /\ tname' = last /\ pc' = "loop"
                   /\ nelt' = IF Variant = "pinned" \/ Flavour # "TOUGH+" THEN hnelt ELSE ElemsUpTo(last)
    /\ UNCHANGED <<sel, si, ti, last, hnelt>>

(* one iteration of "while tname != tablename" *)
Loop ==
    /\ pc = "loop"
    /\ IF tname = Wanted THEN pc' = "landed" /\ UNCHANGED <<cur, tname, nelt>>
       ELSE LET inside == (tname = last)                 \* first iteration after rows of `last` were read
                skipKinds == IF Flavour = "TOUGH+" /\ tname = "primary" THEN {"US"} ELSE {"AT"}
                doSkip == ~(Flavour = "TOUGH+" /\ tname = "primary" /\ inside /\ Variant = "fixed")
                p == IF doSkip THEN SkipTo(cur, skipKinds) ELSE cur
                nt == NextTable(p, si)
                isEl == nt.name = "element"
                n2 == IF Flavour = "TOUGH+" /\ isEl THEN nelt + 1 ELSE nelt
                nm == IF Flavour = "TOUGH+" /\ isEl THEN ElemName(n2) ELSE nt.name
            IN /\ cur' = nt.pos /\ nelt' = n2 /\ tname' = nm
               /\ pc' = IF nt.pos = EOF /\ nm # Wanted /\ cur = EOF THEN "stuck" ELSE "loop"
    /\ UNCHANGED <<sel, si, ti, last, hnelt>>

(* the rows of the table are read: 1..NRows lines, the cursor ends inside ROW* *)
Read ==
    /\ pc = "landed"
    /\ \E k \in 1..NRows :
          cur' = (IF Flavour = "TOUGH+" THEN cur + 2 ELSE cur + 1) + k      \* header (+ underline), then k rows
    /\ last' = Wanted
    /\ hnelt' = IF IsElem(Wanted) THEN hnelt + 1 ELSE hnelt
    /\ IF ti < Len(sel)
       THEN /\ ti' = ti + 1 /\ si' = si /\ pc' = "call" /\ UNCHANGED <<tname, nelt>>
       ELSE /\ ti' = 1 /\ si' = si + 1 /\ tname' = None /\ nelt' = 0
            /\ pc' = IF si = NSets THEN "done" ELSE "newset"
    /\ UNCHANGED sel

NewSet ==          \* history() seeks to the recorded start of the next result set
    /\ pc = "newset"
    /\ cur' = SetStart(si) /\ last' = None /\ hnelt' = -1 /\ pc' = "call"
    /\ UNCHANGED <<sel, si, ti, tname, nelt>>

Next == Call \/ Loop \/ Read \/ NewSet

Spec == Init /\ [][Next]_vars /\ WF_vars(Next)

(* termination, safety form: the search loop never spins at end of file *)
P_Terminates == pc # "stuck"
(* on return the cursor is at the header of the wanted table of the current result set *)
P_Lands == pc = "landed" =>
              /\ cur <= Len(File) /\ File[cur].k = "HEAD"
              /\ File[cur].t = Wanted /\ File[cur].s = si
(* liveness form *)
P_Done == <>(pc = "done")

=============================================================================
