--------------------------- MODULE MulgridADTTrace ---------------------------
(* Trace validation for MulgridADT: recorded executions of the real mulgrid (exhaustive short edit
   sequences on small lattice meshes, random sequences on larger and shipped geometries).  TLC evaluates
   the C10 invariants in every recorded state, the C11 clauses on every recorded step (when the state is
   on the integer lattice), and matches exactly specified edits against their actions.                  *)
EXTENDS MulgridADT, Json, IOUtils

Traces == JsonDeserialize(IOEnv.TRACE_FILE)
VARIABLES tid, l, drift, lattice

PairsToFun(ps) == [k \in {ps[i][1] : i \in DOMAIN ps} |-> ps[CHOOSE i \in DOMAIN ps : ps[i][1] = k][2]]
TriplesToFun(ps) == [k \in {<<ps[i][1], ps[i][2]>> : i \in DOMAIN ps} |-> ps[CHOOSE i \in DOMAIN ps : <<ps[i][1], ps[i][2]>> = k][3]]
SetsToFun(ps) == [k \in {ps[i][1] : i \in DOMAIN ps} |-> Range(ps[CHOOSE i \in DOMAIN ps : ps[i][1] = k][2])]
Ev(t, i) == Traces[t][i]

TraceInit ==
    /\ tid \in 1..Len(Traces) /\ l = 1 /\ drift = FALSE
    /\ LET st == Ev(tid, 1).state IN
       /\ nodes = st.nodes /\ nodeDict = PairsToFun(st.nodeDict) /\ cols = st.cols /\ colDict = PairsToFun(st.colDict)
       /\ conns = st.conns /\ connDict = TriplesToFun(st.connDict) /\ layers = st.layers
       /\ nodeCols = SetsToFun(st.nodeCols) /\ colConns = SetsToFun(st.colConns) /\ colNbrs = SetsToFun(st.colNbrs)
       /\ bnames = st.bnames /\ lattice = st.lattice
    /\ last = Act("init", <<>>)

Match(a) ==
    CASE a.op = "rename_column" -> RenameColumn(a.args[1], a.args[2])
      [] a.op = "rename_columns" -> RenameColumns(a.args[1], a.args[2])
      [] a.op = "delete_column" -> DeleteColumn(a.args[1])
      [] a.op = "set_surface" -> SetSurface(a.args[1], a.args[2])
      [] a.op = "split_column" -> SplitColumn(a.args[1], a.args[2], a.args[3])
      [] a.op = "refused" -> UNCHANGED vars      \* an operation that declines (returns False) leaves everything as it was
      [] OTHER -> TRUE            \* Complex: specified by the invariants and the conservation clauses only

TraceNext ==
    /\ l < Len(Traces[tid]) /\ l' = l + 1 /\ tid' = tid
    /\ LET ev == Ev(tid, l + 1)  st == ev.state IN
       /\ last' = Act(ev.act.op, ev.act.args)
       /\ nodes' = st.nodes /\ nodeDict' = PairsToFun(st.nodeDict) /\ cols' = st.cols /\ colDict' = PairsToFun(st.colDict)
       /\ conns' = st.conns /\ connDict' = TriplesToFun(st.connDict) /\ layers' = st.layers
       /\ nodeCols' = SetsToFun(st.nodeCols) /\ colConns' = SetsToFun(st.colConns) /\ colNbrs' = SetsToFun(st.colNbrs)
       /\ bnames' = st.bnames /\ lattice' = st.lattice
       /\ drift' = ~(Consistent /\ Match(Act(ev.act.op, ev.act.args)))

Geo(p) == ~lattice \/ p          \* geometric clauses only on lattice states
StateFailing ==
    (IF P1_ViewsAgree THEN {} ELSE {"P1_ViewsAgree"}) \cup
    (IF ~P1_ViewsAgree \/ P2_NodeKnowsItsColumns THEN {} ELSE {"P2_NodeKnowsItsColumns"}) \cup
    (IF ~P1_ViewsAgree \/ P3_ColumnKnowsItsConnections THEN {} ELSE {"P3_ColumnKnowsItsConnections"}) \cup
    (IF ~P1_ViewsAgree \/ P4_ConnectionNodesAreTheSharedEdge THEN {} ELSE {"P4_ConnectionNodesAreTheSharedEdge"}) \cup
    (IF ~P1_ViewsAgree \/ ~lattice \/ P5_ColumnsWellFormed THEN {} ELSE {"P5_ColumnsWellFormed"}) \cup
    (IF ~P1_ViewsAgree \/ P6_BlockNamesCurrent THEN {} ELSE {"P6_BlockNamesCurrent"}) \cup
    (IF ~P1_ViewsAgree \/ P7_ValidMesh THEN {} ELSE {"P7_ValidMesh"}) \cup
    (IF ~P1_ViewsAgree \/ ~lattice \/ C11_Conforming THEN {} ELSE {"C11_Conforming"})
ReportState ==
    LET f == StateFailing IN
    (f = {} /\ ~drift) \/ PrintT("EMIT" \o ToJson([tid |-> tid, l |-> l, failing |-> f, drift |-> drift, kind |-> "state"]))

StepFailing ==
    IF ~Consistent THEN {}
    ELSE IF ~(lattice /\ lattice') THEN (IF P7_ValidityPreserved THEN {} ELSE {"P7_ValidMesh"})
    ELSE (IF P7_ValidityPreserved THEN {} ELSE {"P7_ValidMesh"}) \cup
         (IF C11_AreaConserved THEN {} ELSE {"C11_AreaConserved"}) \cup
         (IF C11_VolumeConserved THEN {} ELSE {"C11_VolumeConserved"}) \cup
         (IF C11_Tiling THEN {} ELSE {"C11_Tiling"}) \cup
         (IF C11_ConformityPreserved THEN {} ELSE {"C11_Conforming"})
ReportStep ==
    LET f == StepFailing IN
    f = {} \/ PrintT("EMIT" \o ToJson([tid |-> tid, l |-> l', failing |-> f, drift |-> FALSE, kind |-> "step"]))
=============================================================================
