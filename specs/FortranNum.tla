----------------------------- MODULE FortranNum -----------------------------
(***************************************************************************)
(* What a Fortran program can put into a fixed-width numeric field, and    *)
(* what reading that field means (list C16).  A field is a sequence of     *)
(* character CLASSES; the deterministic automaton below is the grammar of  *)
(* a Fortran E/D/F input field under BN editing (blanks are ignored):      *)
(*                                                                         *)
(*   real  ::= [sign] ( digits [ "." [digits] ] | "." digits ) [exp]       *)
(*   exp   ::= (E|D) [sign] digits  |  sign digits                         *)
(*   int   ::= [sign] digits                                               *)
(*                                                                         *)
(* The accumulator records the parse tree, from which the harness builds   *)
(* the canonical text whose value is the expected result.                  *)
(* fortran_float / fortran_int of fixed_format_file.py are bound to it by  *)
(* replaying every class string TLC enumerates, and by classifying         *)
(* arbitrary recorded strings with FortranNumTrace.                        *)
(***************************************************************************)
EXTENDS Naturals, Sequences, FiniteSets, TLC

CONSTANTS MaxLen        \* bound on field length for enumeration

Classes == {"DIG", "PT", "PLUS", "MINUS", "E", "D", "BL", "STAR", "OTH"}
(* "PY" (letters of inf/nan/infinity, underscore) only occurs in recorded
   strings: Python's own conversion may accept such text, so only the
   "same as Python" and "never raises" clauses apply to it.                *)
AllClasses == Classes \cup {"PY"}

VARIABLE str            \* the field read so far: Seq(Classes)

EmptyTree == [sign |-> "", int |-> 0, pt |-> FALSE, frac |-> 0,
              exp |-> "none", esign |-> "", edig |-> 0]

(* automaton states *)
S0 == [q |-> "start", t |-> EmptyTree]

IsSign(c) == c \in {"PLUS", "MINUS"}
SignOf(c) == IF c = "PLUS" THEN "+" ELSE "-"
Dead(s) == [q |-> "dead", t |-> s.t]

StepReal(s, c) ==
    LET q == s.q  t == s.t IN
    IF c = "BL" THEN s                                   \* BN editing: blanks are ignored everywhere
    ELSE IF c \in {"STAR", "OTH", "PY"} \/ q = "dead" THEN Dead(s)
    ELSE CASE q = "start" ->
                 IF IsSign(c) THEN [q |-> "sign", t |-> [t EXCEPT !.sign = SignOf(c)]]
                 ELSE IF c = "DIG" THEN [q |-> "int", t |-> [t EXCEPT !.int = 1]]
                 ELSE IF c = "PT" THEN [q |-> "point0", t |-> [t EXCEPT !.pt = TRUE]]
                 ELSE Dead(s)
           [] q = "sign" ->
                 IF c = "DIG" THEN [q |-> "int", t |-> [t EXCEPT !.int = 1]]
                 ELSE IF c = "PT" THEN [q |-> "point0", t |-> [t EXCEPT !.pt = TRUE]]
                 ELSE Dead(s)
           [] q = "int" ->
                 IF c = "DIG" THEN [s EXCEPT !.t.int = @ + 1]
                 ELSE IF c = "PT" THEN [q |-> "frac", t |-> [t EXCEPT !.pt = TRUE]]
                 ELSE IF c \in {"E", "D"} THEN [q |-> "expl", t |-> [t EXCEPT !.exp = "letter"]]
                 ELSE IF IsSign(c) THEN [q |-> "exps", t |-> [t EXCEPT !.exp = "sign", !.esign = SignOf(c)]]
                 ELSE Dead(s)
           [] q = "point0" ->
                 IF c = "DIG" THEN [q |-> "frac", t |-> [t EXCEPT !.frac = 1]]
                 ELSE Dead(s)
           [] q = "frac" ->
                 IF c = "DIG" THEN [s EXCEPT !.t.frac = @ + 1]
                 ELSE IF c \in {"E", "D"} THEN [q |-> "expl", t |-> [t EXCEPT !.exp = "letter"]]
                 ELSE IF IsSign(c) THEN [q |-> "exps", t |-> [t EXCEPT !.exp = "sign", !.esign = SignOf(c)]]
                 ELSE Dead(s)
           [] q = "expl" ->
                 IF c = "DIG" THEN [q |-> "expd", t |-> [t EXCEPT !.edig = 1]]
                 ELSE IF IsSign(c) THEN [q |-> "exps", t |-> [t EXCEPT !.exp = "letter+sign", !.esign = SignOf(c)]]
                 ELSE Dead(s)
           [] q = "exps" ->
                 IF c = "DIG" THEN [q |-> "expd", t |-> [t EXCEPT !.edig = 1]]
                 ELSE Dead(s)
           [] q = "expd" ->
                 IF c = "DIG" THEN [s EXCEPT !.t.edig = @ + 1]
                 ELSE Dead(s)

RECURSIVE RunFrom(_, _)
RunFrom(s, w) == IF w = <<>> THEN s ELSE RunFrom(StepReal(s, Head(w)), Tail(w))
Run(w) == RunFrom(S0, w)

AcceptsReal(s) == s.q \in {"int", "frac", "expd"}
Has(w, cs) == \E i \in DOMAIN w : w[i] \in cs
AllBlank(w) == \A i \in DOMAIN w : w[i] = "BL"

(* outcome class of a real field *)
RealKind(w) ==
    IF AllBlank(w) THEN "blank"
    ELSE IF Has(w, {"PY"}) THEN "free"                      \* Python's conversion decides
    ELSE IF Has(w, {"STAR", "OTH"}) THEN "badchar"          \* must be not-a-number
    ELSE IF AcceptsReal(Run(w)) THEN "real"                 \* Fortran reads a value: the tree's value
    ELSE "free"                                             \* malformed but numeric alphabet: only "never raises"

(* integer fields *)
StepInt(s, c) ==
    IF c = "BL" THEN s
    ELSE IF c # "DIG" /\ ~IsSign(c) THEN [q |-> "dead", t |-> s.t]
    ELSE CASE s.q = "start" -> IF IsSign(c) THEN [q |-> "sign", t |-> [s.t EXCEPT !.sign = SignOf(c)]]
                               ELSE [q |-> "int", t |-> [s.t EXCEPT !.int = 1]]
           [] s.q = "sign" -> IF c = "DIG" THEN [q |-> "int", t |-> [s.t EXCEPT !.int = 1]] ELSE [q |-> "dead", t |-> s.t]
           [] s.q = "int" -> IF c = "DIG" THEN [s EXCEPT !.t.int = @ + 1] ELSE [q |-> "dead", t |-> s.t]
           [] OTHER -> s
RECURSIVE RunIntFrom(_, _)
RunIntFrom(s, w) == IF w = <<>> THEN s ELSE RunIntFrom(StepInt(s, Head(w)), Tail(w))
RunInt(w) == RunIntFrom(S0, w)

IntKind(w) ==
    IF AllBlank(w) THEN "blank"
    ELSE IF Has(w, {"PY"}) THEN "free"
    ELSE IF Has(w, {"STAR", "OTH", "PT", "E", "D"}) THEN "badchar"    \* cannot occur in an integer: no value
    ELSE IF RunInt(w).q = "int" THEN "int"
    ELSE "free"

(* the renderings a Fortran program can produce for a finite real (no asterisks):
   optional sign, digits and/or fraction, then E/D with or without sign, or - for
   three-digit exponents - the sign alone; blanks anywhere.                   *)
FortranOutput(w) ==
    LET s == Run(w) IN
    /\ ~Has(w, {"STAR", "OTH", "PY"})
    /\ AcceptsReal(s)
    /\ s.t.exp = "sign" => s.t.edig >= 3

-----------------------------------------------------------------------------
(* enumeration of all fields up to MaxLen *)
Init == str = <<>>
Next == /\ Len(str) < MaxLen
        /\ \E c \in Classes : str' = Append(str, c)

NoBlank(w) == SelectSeq(w, LAMBDA c : c # "BL")
DtoE(w) == [i \in DOMAIN w |-> IF w[i] = "D" THEN "E" ELSE w[i]]

(* design-level properties of the grammar, checked by TLC on every field *)
I_BlanksIgnored == AllBlank(str) \/ (Run(str) = Run(NoBlank(str)) /\ RunInt(str) = RunInt(NoBlank(str)))
I_DmeansE == Run(str) = Run(DtoE(str))
I_OutputAccepted == FortranOutput(str) => RealKind(str) = "real"
I_KindTotal == RealKind(str) \in {"blank", "real", "badchar", "free"} /\ IntKind(str) \in {"blank", "int", "badchar", "free"}
I_Prefix == \* a dead automaton never recovers: extending an invalid numeric text cannot make it valid
    \A i \in 0..Len(str) : Run(SubSeq(str, 1, i)).q = "dead" => Run(str).q = "dead"
I_TreeCounts == LET t == Run(str).t IN
    Run(str).q # "dead" => t.int + t.frac + t.edig = Cardinality({i \in DOMAIN str : str[i] = "DIG"})

=============================================================================
