------------------------------ MODULE T2DataADT ------------------------------
(***************************************************************************)
(* The parts of a t2data object that refer to grid blocks by name, beyond  *)
(* the grid itself (which T2Grid.tla specifies): the initial-condition     *)
(* table keyed by block name, the generator container (an ordered list     *)
(* plus a lookup keyed by <<block, name>>, in which two generators may     *)
(* share a key), the PARAM print block and the three history request       *)
(* lists.  Operations: add_generator, delete_generator, clear_generators,  *)
(* delete_orphan_generators, and t2data.rename_blocks, which is specified  *)
(* as ONE simultaneous substitution applied to every place a block name    *)
(* occurs.  This module grows the specification beyond the 20 listed       *)
(* properties: what it finds is reported as an observation, not as a       *)
(* verdict on any of them.                                                 *)
(***************************************************************************)
EXTENDS Naturals, Sequences, FiniteSets, TLC

CONSTANTS Names,      \* block names
          GenNames    \* generator names

VARIABLES grid,       \* set of block names in the grid
          incon,      \* function: block name -> value id
          gens,       \* sequence of [id, block, name]
          genDict,    \* function: <<block, name>> -> generator id
          printBlock, \* a block name or "none"
          hist,       \* [b : Seq(Names), c : Seq(Names \X Names), g : Seq(Names)] as read from a file (names)
          last
vars == <<grid, incon, gens, genDict, printBlock, hist>>

GenIds == {gens[i].id : i \in DOMAIN gens}
NewId == CHOOSE i \in 1..(Len(gens) + 1) : i \notin GenIds \cup {genDict[k] : k \in DOMAIN genDict}
Restrict(f, S) == [x \in S |-> f[x]]

Init == /\ grid = Names /\ incon = <<>> /\ gens = <<>> /\ genDict = <<>> /\ printBlock = "none"
        /\ hist = [b |-> <<>>, c |-> <<>>, g |-> <<>>] /\ last = [op |-> "init"]

AddGenerator(b, n) ==
    /\ LET id == NewId IN
       /\ gens' = Append(gens, [id |-> id, block |-> b, name |-> n])
       /\ genDict' = (<<b, n>> :> id) @@ genDict          \* the lookup points at the newest generator with that key
    /\ UNCHANGED <<grid, incon, printBlock, hist>>
    /\ last' = [op |-> "add_generator", b |-> b, n |-> n]

DeleteGenerator(b, n) ==
    /\ <<b, n>> \in DOMAIN genDict
    /\ gens' = SelectSeq(gens, LAMBDA x : x.id # genDict[<<b, n>>])
    /\ genDict' = Restrict(genDict, DOMAIN genDict \ {<<b, n>>})
    /\ UNCHANGED <<grid, incon, printBlock, hist>>
    /\ last' = [op |-> "delete_generator", b |-> b, n |-> n]

ClearGenerators ==
    /\ gens' = <<>> /\ genDict' = <<>>
    /\ UNCHANGED <<grid, incon, printBlock, hist>>
    /\ last' = [op |-> "clear_generators"]

DeleteOrphanGenerators ==
    /\ gens' = SelectSeq(gens, LAMBDA x : x.block \in grid)
    /\ genDict' = Restrict(genDict, {k \in DOMAIN genDict : k[1] \in grid})
    /\ UNCHANGED <<grid, incon, printBlock, hist>>
    /\ last' = [op |-> "delete_orphan_generators"]

DeleteBlockFromGrid(b) ==
    /\ b \in grid /\ grid' = grid \ {b}
    /\ UNCHANGED <<incon, gens, genDict, printBlock, hist>>
    /\ last' = [op |-> "delete_block", b |-> b]

SetIncon(b, v) ==
    /\ incon' = (b :> v) @@ incon
    /\ UNCHANGED <<grid, gens, genDict, printBlock, hist>>
    /\ last' = [op |-> "set_incon", b |-> b, v |-> v]

(* rename_blocks(m): m one-to-one on the names in use, its targets not colliding with an un-renamed name *)
Ren(m, n) == IF n \in DOMAIN m THEN m[n] ELSE n
InUse == grid \cup DOMAIN incon \cup {gens[i].block : i \in DOMAIN gens} \cup {k[1] : k \in DOMAIN genDict}
RenameOK(m) == /\ DOMAIN m \subseteq grid
               /\ \A a, b \in InUse : a # b => Ren(m, a) # Ren(m, b)      \* (names of deleted blocks may linger in the tables)
RenameBlocks(m) ==
    /\ RenameOK(m)
    /\ grid' = {Ren(m, n) : n \in grid}
    /\ incon' = [k \in {Ren(m, n) : n \in DOMAIN incon} |-> incon[CHOOSE n \in DOMAIN incon : Ren(m, n) = k]]
    /\ gens' = [i \in DOMAIN gens |-> [gens[i] EXCEPT !.block = Ren(m, gens[i].block)]]
    /\ genDict' = [k \in {<<Ren(m, x[1]), x[2]>> : x \in DOMAIN genDict} |->
                      genDict[CHOOSE x \in DOMAIN genDict : <<Ren(m, x[1]), x[2]>> = k]]
    /\ printBlock' = IF printBlock = "none" THEN "none" ELSE Ren(m, printBlock)
    /\ hist' = [b |-> [i \in DOMAIN hist.b |-> Ren(m, hist.b[i])],
                c |-> [i \in DOMAIN hist.c |-> <<Ren(m, hist.c[i][1]), Ren(m, hist.c[i][2])>>],
                g |-> [i \in DOMAIN hist.g |-> Ren(m, hist.g[i])]]
    /\ last' = [op |-> "rename_blocks", m |-> m]

SetRequests(b, c, g, p) ==
    /\ hist' = [b |-> b, c |-> c, g |-> g] /\ printBlock' = p
    /\ UNCHANGED <<grid, incon, gens, genDict>>
    /\ last' = [op |-> "set_requests"]

Next == \/ \E b \in grid, n \in GenNames : AddGenerator(b, n) \/ DeleteGenerator(b, n)
        \/ ClearGenerators \/ DeleteOrphanGenerators
        \/ \E b \in grid : DeleteBlockFromGrid(b)
        \/ \E b \in grid, v \in 1..2 : SetIncon(b, v)
        \/ \E m \in UNION {[d -> Names] : d \in SUBSET grid \ {{}}} : RenameBlocks(m)
Spec == Init /\ [][Next]_<<vars, last>>

(* ---- what must hold *)
(* every lookup entry names a generator of the list with that block and name; every generator of the list is reachable
   through its key unless a newer generator took the key *)
G1_LookupIntoList == \A k \in DOMAIN genDict : \E i \in DOMAIN gens : gens[i].id = genDict[k] /\ gens[i].block = k[1] /\ gens[i].name = k[2]
(* (not an invariant: after two generators shared a key and the newer was deleted, the older one is in the list only -
   TLC shows it in three steps; it holds as long as keys have always been distinct) *)
G2_ListKeysInLookup == \A i \in DOMAIN gens : <<gens[i].block, gens[i].name>> \in DOMAIN genDict
(* renaming loses nothing: the same initial-condition values, the same generators, under the new names *)
R_RenameKeeps ==
    last'.op = "rename_blocks" =>
        LET m == last'.m IN
        /\ Cardinality(DOMAIN incon') = Cardinality(DOMAIN incon)
        /\ \A n \in DOMAIN incon : Ren(m, n) \in DOMAIN incon' /\ incon'[Ren(m, n)] = incon[n]
        /\ Len(gens') = Len(gens)
        /\ \A i \in DOMAIN gens : gens'[i].id = gens[i].id /\ gens'[i].block = Ren(m, gens[i].block) /\ gens'[i].name = gens[i].name
        /\ Cardinality(DOMAIN genDict') = Cardinality(DOMAIN genDict)
Prop_RenameKeeps == [][R_RenameKeeps]_<<vars, last>>
Bound == Len(gens) <= 2 /\ TLCGet("level") <= 5
=============================================================================
