----------------------------- MODULE T2DataFile -----------------------------
(***************************************************************************)
(* The TOUGH2 / AUTOUGH2 data file of t2data.py as a protocol between      *)
(* t2data.write and t2data.read over a stream of typed records (C01).      *)
(*                                                                         *)
(* A document is a sequence of sections in file order; a section is a kind *)
(* (one of the 23 keywords) with the SHAPE that determines its records:    *)
(* entry counts, table lengths, which optional sub-blocks are present.     *)
(* Values are not modelled (the fixed-column layer is FixedRecord.tla).    *)
(*                                                                         *)
(* The writer is a function from sections to records (the per-section      *)
(* writers are independent).  The reader is a state machine with one step  *)
(* per SECTION: keyword dispatch at top level (unknown lines are skipped), *)
(* per-section consumption by the counting / sentinel rules of the code,   *)
(* and PARAM's continuation rule, which may hand a line back to the        *)
(* dispatcher.  The document also carries the bookkeeping that write()     *)
(* mutates (_sections), because the property speaks about later cycles.    *)
(* Deviation from "one action per record": sections whose reading is a     *)
(* plain counted loop are consumed in one step.                            *)
(***************************************************************************)
EXTENDS Naturals, Sequences, FiniteSets, TLC

CONSTANTS Docs,         \* set of documents to explore (defined in the MC module)
          Variant       \* "fixed" | "pinned" (PARAM continuation does not know the end keywords)

VARIABLES doc, rest, got, held, ctx, phase

vars == <<doc, rest, got, held, ctx, phase>>

Kinds == {"SIMUL", "ROCKS", "PARAM", "MOMOP", "START", "NOVER", "RPCAP", "LINEQ", "SOLVR", "MULTI", "TIMES", "SELEC",
          "DIFFU", "ELEME", "CONNE", "MESHM", "GENER", "SHORT", "FOFT", "COFT", "GOFT", "INCON", "INDOM"}
Ceil(n, d) == (n + d - 1) \div d
KW(k) == [k |-> "kw", name |-> k]
Blank == [k |-> "blank"]
Rec(k) == [k |-> k]
RepeatRec(n, r) == [i \in 1..n |-> r]
RECURSIVE Flatten(_)
Flatten(ss) == IF ss = <<>> THEN <<>> ELSE Head(ss) \o Flatten(Tail(ss))

(* ---- writer: records of one section (s.kind, plus shape fields) *)
GenRecs(g) ==       \* g = [ltab, delv, enth]   (table generator: times, rates, optional enthalpies, 4 per line)
    LET nt == IF g.ltab > 0 /\ ~g.delv THEN g.ltab ELSE 1
        nl == Ceil(nt, 4)
    IN <<[k |-> "generator", ltab |-> g.ltab, delv |-> g.delv, itab |-> g.enth]>>
       \o (IF nt > 1 THEN RepeatRec(nl, Rec("gen_times")) \o RepeatRec(nl, Rec("gen_rates"))
                          \o (IF g.enth THEN RepeatRec(nl, Rec("gen_enthalpy")) ELSE <<>>)
           ELSE <<>>)
WriteSection(s) ==
    CASE s.kind = "SIMUL" -> <<KW("SIMUL"), Rec("simulator")>>
      [] s.kind = "ROCKS" -> <<KW("ROCKS")>> \o Flatten([i \in 1..Len(s.nads) |->
                                 <<[k |-> "rocks1", nad |-> s.nads[i]]>> \o (IF s.nads[i] >= 1 THEN <<Rec("rocks1.1")>> ELSE <<>>)
                                 \o (IF s.nads[i] >= 2 THEN <<Rec("rocks1.2"), Rec("rocks1.3")>> ELSE <<>>)]) \o <<Blank>>
      [] s.kind = "PARAM" -> <<KW("PARAM"), [k |-> "param1"], [k |-> "param2", nts |-> s.nts]>> \o RepeatRec(s.nts, Rec("timestep"))
                             \o <<Rec("param3")>>
                             \o (IF s.ninc > 0 THEN RepeatRec(Ceil(s.ninc, 4), Rec("default_incons")) ELSE <<Blank>>)
      [] s.kind = "MOMOP" -> <<KW("MOMOP"), Rec("momop")>>
      [] s.kind = "START" -> <<KW("START")>>
      [] s.kind = "NOVER" -> <<KW("NOVER")>>
      [] s.kind = "RPCAP" -> <<KW("RPCAP"), Rec("relative_permeability"), Rec("capillarity")>>
      [] s.kind = "LINEQ" -> <<KW("LINEQ"), Rec("lineq")>>
      [] s.kind = "SOLVR" -> <<KW("SOLVR"), Rec("solver")>>
      [] s.kind = "MULTI" -> <<KW("MULTI"), [k |-> "multi", ncomp |-> s.ncomp]>>
      [] s.kind = "TIMES" -> <<KW("TIMES"), [k |-> "times1", n |-> s.n]>> \o RepeatRec(Ceil(s.n, 8), Rec("times2"))
      [] s.kind = "SELEC" -> <<KW("SELEC"), [k |-> "selec1", n |-> s.n]>> \o RepeatRec(s.n, Rec("selec2"))
      [] s.kind = "DIFFU" -> <<KW("DIFFU")>> \o RepeatRec(s.n, Rec("diffusion"))
      [] s.kind = "ELEME" -> <<KW("ELEME")>> \o RepeatRec(s.n, Rec("blocks")) \o <<Blank>>
      [] s.kind = "CONNE" -> <<KW("CONNE")>> \o RepeatRec(s.n, Rec("connections")) \o <<Blank>>
      [] s.kind = "MESHM" -> <<KW("MESHM")>> \o RepeatRec(s.n, Rec("meshmaker")) \o <<Blank>>
      [] s.kind = "GENER" -> <<KW("GENER")>> \o Flatten([i \in 1..Len(s.gens) |-> GenRecs(s.gens[i])]) \o <<Blank>>
      [] s.kind = "SHORT" -> <<KW("SHORT")>>
                             \o (IF s.b > 0 THEN <<KW("ELEME")>> \o RepeatRec(s.b, Rec("name")) ELSE <<>>)
                             \o (IF s.c > 0 THEN <<KW("CONNE")>> \o RepeatRec(s.c, Rec("name")) ELSE <<>>)
                             \o (IF s.g > 0 THEN <<KW("GENER")>> \o RepeatRec(s.g, Rec("name")) ELSE <<>>) \o <<Blank>>
      [] s.kind \in {"FOFT", "COFT", "GOFT"} -> <<KW(s.kind)>> \o RepeatRec(s.n, Rec("name")) \o <<Blank>>
      [] s.kind = "INCON" -> <<KW("INCON")>> \o Flatten([i \in 1..s.n |-> <<Rec("incon1"), Rec("incon2")>>]) \o <<Blank>>
      [] s.kind = "INDOM" -> <<KW("INDOM")>> \o Flatten([i \in 1..s.n |-> <<Rec("name"), Rec("indom2")>>]) \o <<Blank>>

WriteDoc(d) == <<Rec("title")>> \o Flatten([i \in 1..Len(d.secs) |-> WriteSection(d.secs[i])]) \o <<KW(d.endkw)>>

(* ---- reader *)
Take(n, s) == SubSeq(s, 1, IF n < Len(s) THEN n ELSE Len(s))
Drop(n, s) == SubSeq(s, (IF n < Len(s) THEN n ELSE Len(s)) + 1, Len(s))
(* records up to and including the first blank (sentinel-terminated lists); at end of file: everything *)
RECURSIVE UntilBlank(_)
UntilBlank(s) == IF s = <<>> THEN <<>> ELSE IF Head(s).k = "blank" THEN <<Head(s)>> ELSE <<Head(s)>> \o UntilBlank(Tail(s))
CountK(s, k) == Cardinality({i \in DOMAIN s : s[i].k = k})
IsSectionKW(r) == r.k = "kw" /\ r.name \in Kinds
IsEndKW(r) == r.k = "kw" /\ r.name \in {"ENDCY", "ENDFI"}

(* generators: read records until the blank, rebuilding each generator from its header record and
   consuming the table lines its ltab / type / itab announce *)
RECURSIVE ReadGens(_, _)
ReadGens(s, acc) ==
    IF s = <<>> THEN [gens |-> acc, rest |-> <<>>, ok |-> FALSE]
    ELSE IF Head(s).k = "blank" THEN [gens |-> acc, rest |-> Tail(s), ok |-> TRUE]
    ELSE LET h == Head(s)
             ishdr == h.k = "generator"
             ltab == IF ishdr THEN h.ltab ELSE 0
             delv == IF ishdr THEN h.delv ELSE FALSE
             itab == IF ishdr THEN h.itab ELSE FALSE
             nt == IF ltab > 0 /\ ~delv THEN ltab ELSE 1
             nl == IF nt > 1 THEN Ceil(nt, 4) * (IF itab THEN 3 ELSE 2) ELSE 0
             body == Take(nl, Tail(s))
             good == ishdr /\ Len(body) = nl /\ \A i \in DOMAIN body : body[i].k \in {"gen_times", "gen_rates", "gen_enthalpy"}
         IN IF ~good THEN [gens |-> acc, rest |-> s, ok |-> FALSE]
            ELSE ReadGens(Drop(nl, Tail(s)), Append(acc, [ltab |-> ltab, delv |-> delv, enth |-> (itab /\ nt > 1)]))

(* rock types: each header record announces (nad) how many more records belong to the rock type *)
RECURSIVE ReadRocks(_, _)
ReadRocks(s, acc) ==
    IF s = <<>> THEN [nads |-> acc, rest |-> <<>>, ok |-> FALSE]
    ELSE IF Head(s).k = "blank" THEN [nads |-> acc, rest |-> Tail(s), ok |-> TRUE]
    ELSE LET h == Head(s)
             nad == IF h.k = "rocks1" THEN h.nad ELSE 0
             extra == IF nad >= 2 THEN 3 ELSE IF nad = 1 THEN 1 ELSE 0
         IN IF h.k # "rocks1" \/ Len(s) < 1 + extra THEN [nads |-> acc, rest |-> s, ok |-> FALSE]
            ELSE ReadRocks(Drop(extra, Tail(s)), Append(acc, nad))

(* SHORT: sub-dispatch on ELEME / CONNE / GENER until a blank *)
RECURSIVE ReadShort(_, _, _)
ReadShort(s, mode, acc) ==      \* acc = [b, c, g]
    IF s = <<>> THEN [sh |-> acc, rest |-> <<>>, ok |-> FALSE]
    ELSE LET h == Head(s) IN
         IF h.k = "blank" THEN [sh |-> acc, rest |-> Tail(s), ok |-> TRUE]
         ELSE IF h.k = "kw" /\ h.name \in {"ELEME", "CONNE", "GENER"} THEN ReadShort(Tail(s), h.name, acc)
         ELSE IF h.k = "name" /\ mode # "none"
              THEN ReadShort(Tail(s), mode, [acc EXCEPT !.b = IF mode = "ELEME" THEN @ + 1 ELSE @,
                                                        !.c = IF mode = "CONNE" THEN @ + 1 ELSE @,
                                                        !.g = IF mode = "GENER" THEN @ + 1 ELSE @])
         ELSE [sh |-> acc, rest |-> s, ok |-> FALSE]

(* result of reading one section starting after its keyword record: [sec, rest, held, ok] *)
Result(sec, r, h, ok) == [sec |-> sec, rest |-> r, held |-> h, ok |-> ok]
NoHeld == [k |-> "none"]
ReadSection(name, s) ==
    CASE name \in {"SIMUL", "MOMOP", "LINEQ", "SOLVR"} -> Result([kind |-> name], Drop(1, s), NoHeld, Len(s) >= 1)
      [] name \in {"START", "NOVER"} -> Result([kind |-> name], s, NoHeld, TRUE)
      [] name = "RPCAP" -> Result([kind |-> name], Drop(2, s), NoHeld, Len(s) >= 2)
      [] name = "MULTI" -> Result([kind |-> name, ncomp |-> IF s # <<>> /\ s[1].k = "multi" THEN s[1].ncomp ELSE 0], Drop(1, s), NoHeld, Len(s) >= 1)
      [] name = "ROCKS" -> LET r == ReadRocks(s, <<>>) IN Result([kind |-> name, nads |-> r.nads], r.rest, NoHeld, r.ok)
      [] name = "PARAM" ->
            LET nts == IF Len(s) >= 2 /\ s[2].k = "param2" THEN s[2].nts ELSE 0
                fixedpart == 2 + nts + 1 + 1           \* param1, param2, time-step lines, param3, first default-incons line
                after == Drop(fixedpart, s)
                first == IF Len(s) >= fixedpart THEN s[fixedpart] ELSE Blank
                n1 == IF first.k = "default_incons" THEN 1 ELSE 0
                (* continuation: lines until a blank (consumed) or a section keyword (handed back) *)
                RECURSIVE Cont(_, _)
                Cont(t, n) == IF t = <<>> THEN [n |-> n, rest |-> <<>>, held |-> NoHeld]
                              ELSE IF Head(t).k = "blank" THEN [n |-> n, rest |-> Tail(t), held |-> NoHeld]
                              ELSE IF IsSectionKW(Head(t)) \/ (Variant = "fixed" /\ IsEndKW(Head(t)))
                                   THEN [n |-> n, rest |-> Tail(t), held |-> Head(t)]
                              ELSE Cont(Tail(t), n + (IF Head(t).k = "default_incons" THEN 1 ELSE 0))
                c == Cont(after, n1)
            IN Result([kind |-> name, nts |-> nts, ninclines |-> c.n], c.rest, c.held, Len(s) >= fixedpart)
      [] name = "TIMES" -> LET n == IF s # <<>> /\ s[1].k = "times1" THEN s[1].n ELSE 0 IN
                           Result([kind |-> name, n |-> n], Drop(1 + Ceil(n, 8), s), NoHeld, Len(s) >= 1 + Ceil(n, 8))
      [] name = "SELEC" -> LET n == IF s # <<>> /\ s[1].k = "selec1" THEN s[1].n ELSE 0 IN
                           Result([kind |-> name, n |-> n], Drop(1 + n, s), NoHeld, Len(s) >= 1 + n)
      [] name = "DIFFU" -> Result([kind |-> name, n |-> ctx.ncomp], Drop(ctx.ncomp, s), NoHeld, Len(s) >= ctx.ncomp)   \* needs MULTI first
      [] name \in {"ELEME", "CONNE", "MESHM", "FOFT", "COFT", "GOFT"} ->
            LET b == UntilBlank(s) IN
            Result([kind |-> name, n |-> Len(b) - 1], Drop(Len(b), s), NoHeld, b # <<>> /\ b[Len(b)].k = "blank")
      [] name \in {"INCON", "INDOM"} ->
            LET b == UntilBlank(s) IN
            Result([kind |-> name, n |-> (Len(b) - 1) \div 2], Drop(Len(b), s), NoHeld, b # <<>> /\ b[Len(b)].k = "blank" /\ (Len(b) - 1) % 2 = 0)
      [] name = "GENER" -> LET g == ReadGens(s, <<>>) IN Result([kind |-> name, gens |-> g.gens], g.rest, NoHeld, g.ok)
      [] name = "SHORT" -> LET h == ReadShort(s, "none", [b |-> 0, c |-> 0, g |-> 0]) IN
                           Result([kind |-> name, b |-> h.sh.b, c |-> h.sh.c, g |-> h.sh.g], h.rest, NoHeld, h.ok)

(* the shape the writer derives from what was read (PARAM: number of default initial conditions is
   only known up to its line count) *)
Norm(s) == IF s.kind = "PARAM" THEN [kind |-> "PARAM", nts |-> s.nts, ninclines |-> Ceil(s.ninc, 4)] ELSE s

Init == /\ doc \in Docs
        /\ rest = Tail(WriteDoc(doc))          \* read_title consumed
        /\ got = [secs |-> <<>>, endkw |-> "ENDCY", bad |-> FALSE] /\ held = NoHeld
        /\ ctx = [ncomp |-> 0] /\ phase = "read"

Dispatch ==         \* one iteration of read()'s loop: next line (or the held one), keyword dispatch
    /\ phase = "read"
    /\ LET line == IF held.k # "none" THEN held ELSE (IF rest = <<>> THEN [k |-> "eof"] ELSE Head(rest))
           after == IF held.k # "none" THEN rest ELSE (IF rest = <<>> THEN <<>> ELSE Tail(rest))
       IN IF line.k = "eof" THEN /\ phase' = "done" /\ UNCHANGED <<doc, rest, got, held, ctx>>
          ELSE IF IsEndKW(line) THEN /\ got' = [got EXCEPT !.endkw = line.name] /\ phase' = "done" /\ held' = NoHeld
                                     /\ rest' = after /\ UNCHANGED <<doc, ctx>>
          ELSE IF IsSectionKW(line)
               THEN LET r == ReadSection(line.name, after) IN
                    /\ got' = [got EXCEPT !.secs = Append(@, r.sec), !.bad = @ \/ ~r.ok]
                    /\ rest' = r.rest /\ held' = r.held
                    /\ ctx' = IF line.name = "MULTI" THEN [ncomp |-> r.sec.ncomp] ELSE ctx
                    /\ UNCHANGED <<doc, phase>>
          ELSE /\ rest' = after /\ held' = NoHeld /\ UNCHANGED <<doc, got, ctx, phase>>      \* unknown line: skipped

Next == Dispatch

(* ---- well-formedness: legality conditions without which the format itself is ambiguous *)
Pos(d, k) == IF \E i \in DOMAIN d.secs : d.secs[i].kind = k THEN CHOOSE i \in DOMAIN d.secs : d.secs[i].kind = k ELSE 0
Before(d, a, b) == Pos(d, b) = 0 \/ (Pos(d, a) # 0 /\ Pos(d, a) < Pos(d, b))
WF(d) ==
    /\ \A i, j \in DOMAIN d.secs : d.secs[i].kind = d.secs[j].kind => i = j
    /\ Before(d, "SIMUL", "PARAM") /\ Before(d, "SIMUL", "MULTI") \* the flavour (SIMUL) selects the PARAM / MULTI record layouts
    /\ (Pos(d, "SIMUL") # 0 => Pos(d, "SIMUL") < Pos(d, "PARAM") \/ Pos(d, "PARAM") = 0)
    /\ Before(d, "MULTI", "DIFFU")                              \* DIFFU rows are counted by MULTI's components
    /\ Pos(d, "DIFFU") # 0 => d.secs[Pos(d, "DIFFU")].n = d.secs[Pos(d, "MULTI")].ncomp
    /\ (Pos(d, "ELEME") # 0 /\ d.secs[Pos(d, "ELEME")].n > 0) => Before(d, "ROCKS", "ELEME")     \* blocks name their rock types
    /\ (Pos(d, "CONNE") # 0 /\ d.secs[Pos(d, "CONNE")].n > 0) => Before(d, "ELEME", "CONNE")     \* connections name their blocks
    /\ \A k \in {"SHORT", "FOFT", "COFT", "GOFT"} : Before(d, "ELEME", k) /\ Before(d, "CONNE", k)
    /\ Before(d, "GENER", "SHORT")

(* ---- properties *)
P_NoMisread == ~got.bad
P1_RoundTrip == phase = "done" =>
    /\ [i \in DOMAIN got.secs |-> got.secs[i]] = [i \in DOMAIN doc.secs |-> Norm(doc.secs[i])]     \* same sections, same order, same shapes
    /\ got.endkw = doc.endkw
P_AllConsumed == phase = "done" => rest = <<>>

=============================================================================
