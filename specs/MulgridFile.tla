----------------------------- MODULE MulgridFile -----------------------------
(***************************************************************************)
(* The MULgraph geometry file of mulgrids.py (mulgrid.write / mulgrid.read)*)
(* as a protocol over typed records (C03).                                 *)
(*                                                                         *)
(* Document: header flags (naming convention, atmosphere type, unit,       *)
(* block order), nodes, columns (node count, centre specified?),           *)
(* connections, layers, columns with a non-default surface, wells (number  *)
(* of track points).  Coordinates carry a SCALE TAG instead of a value:    *)
(* the file holds model coordinates divided by the unit scale ("ft" for a  *)
(* geometry in feet, "m" otherwise); the reader multiplies by the scale of *)
(* the unit it found in the header.                                        *)
(*                                                                         *)
(* The writer is a function from documents to record streams (its sections *)
(* are independent loops); the reader is a state machine, one step per     *)
(* record, with the keyword dispatch and the blank-line sentinels of the   *)
(* code.  Variant "pinned" keeps the pinned tree's header handling (the    *)
(* unit never reaches the header) as a named deviation.                    *)
(***************************************************************************)
EXTENDS Naturals, Sequences, FiniteSets, TLC

CONSTANTS Bodies,       \* set of document bodies to explore (defined in the MC module)
          Variant       \* "fixed" | "pinned"

VARIABLES doc, rest, mode, cnt, doc2, file1, phase

vars == <<doc, rest, mode, cnt, doc2, file1, phase>>

Headers == [conv : 0..3, atm : 0..2, unit : {"", "FEET "}, order : {"none", "layer_column", "dmplex"}]

Tag(d) == IF d.hdr.unit = "FEET " THEN "ft" ELSE "m"
KW(n) == [k |-> "kw", name |-> n]
Blank == [k |-> "blank"]

SeqOf(n, F(_)) == [i \in 1..n |-> F(i)]
RECURSIVE Flatten(_)
Flatten(ss) == IF ss = <<>> THEN <<>> ELSE Head(ss) \o Flatten(Tail(ss))
SetToSeq(S) == LET RECURSIVE G(_) G(T) == IF T = {} THEN <<>> ELSE LET x == CHOOSE y \in T : \A z \in T : y <= z IN <<x>> \o G(T \ {x}) IN G(S)

(* ---- writer *)
WriteHeader(d) ==
    [k |-> "header", conv |-> d.hdr.conv, atm |-> d.hdr.atm, order |-> d.hdr.order,
     unit |-> IF Variant = "pinned" THEN "" ELSE d.hdr.unit]
WriteDoc(d) ==
    LET t == Tag(d) IN
    <<WriteHeader(d)>>
    \o <<KW("VERTI")>> \o SeqOf(d.nodes, LAMBDA i : [k |-> "node", i |-> i, tag |-> t]) \o <<Blank>>
    \o <<KW("GRID")>>
    \o Flatten(SeqOf(Len(d.cols), LAMBDA c :
          <<[k |-> "column", i |-> c, nn |-> d.cols[c].nn, cs |-> d.cols[c].cs, tag |-> IF d.cols[c].cs THEN t ELSE "none"]>>
          \o SeqOf(d.cols[c].nn, LAMBDA j : [k |-> "column_node", col |-> c, j |-> j])))
    \o <<Blank>>
    \o <<KW("CONNE")>> \o SeqOf(d.conns, LAMBDA i : [k |-> "connection", i |-> i]) \o <<Blank>>
    \o <<KW("LAYER")>> \o SeqOf(d.layers, LAMBDA i : [k |-> "layer", i |-> i, tag |-> t]) \o <<Blank>>
    \o (IF d.surf = {} THEN <<>>
        ELSE <<KW("SURFA")>> \o [n \in 1..Cardinality(d.surf) |-> [k |-> "surface", col |-> SetToSeq(d.surf)[n], tag |-> t]] \o <<Blank>>)
    \o (IF d.wells = <<>> THEN <<>>
        ELSE <<KW("WELLS")>>
             \o Flatten(SeqOf(Len(d.wells), LAMBDA w : SeqOf(d.wells[w], LAMBDA p : [k |-> "well", w |-> w, p |-> p, tag |-> t])))
             \o <<Blank>>)
    \o <<Blank>>

(* ---- reader *)
Empty2 == [hdr |-> [conv |-> 0, atm |-> 0, unit |-> "", order |-> "none"], nodes |-> 0, cols |-> <<>>, conns |-> 0,
           layers |-> 0, surf |-> {}, wells |-> <<>>, badscale |-> FALSE, runit |-> ""]
(* a coordinate read with the wrong scale: the file holds feet but the header did not say so, or vice versa *)
Bad(tag) == tag # "none" /\ ((tag = "ft") # (doc2.runit = "FEET "))
SectionOf(name) == CASE name = "VERTI" -> "nodes" [] name = "GRID" -> "cols" [] name = "CONNE" -> "conns"
                     [] name = "LAYER" -> "layers" [] name \in {"SURFA", "SURF"} -> "surf" [] name = "WELLS" -> "wells"
                     [] OTHER -> "stuck"
RStep ==
    LET r == Head(rest) IN
    /\ rest # <<>>
    /\ rest' = Tail(rest)
    /\ CASE mode = "header" ->
              /\ doc2' = [doc2 EXCEPT !.hdr = [conv |-> r.conv, atm |-> r.atm, order |-> r.order, unit |-> r.unit],
                                      !.runit = IF Variant = "pinned" THEN "" ELSE r.unit]
              /\ mode' = "dispatch" /\ UNCHANGED cnt
         [] mode = "dispatch" ->
              IF r.k = "blank" THEN mode' = "done" /\ UNCHANGED <<doc2, cnt>>
              ELSE IF r.k = "kw" THEN mode' = SectionOf(r.name) /\ UNCHANGED <<doc2, cnt>>
              ELSE mode' = "stuck" /\ UNCHANGED <<doc2, cnt>>
         [] mode = "nodes" ->
              IF r.k = "blank" THEN mode' = "dispatch" /\ UNCHANGED <<doc2, cnt>>
              ELSE /\ doc2' = [doc2 EXCEPT !.nodes = @ + 1, !.badscale = @ \/ r.k # "node" \/ Bad(r.tag)]
                   /\ UNCHANGED <<mode, cnt>>
         [] mode = "cols" ->
              IF r.k = "blank" THEN mode' = "dispatch" /\ UNCHANGED <<doc2, cnt>>
              ELSE IF r.k = "column"
              THEN /\ doc2' = [doc2 EXCEPT !.cols = Append(@, [nn |-> 0, cs |-> r.cs]), !.badscale = @ \/ Bad(r.tag)]
                   /\ cnt' = r.nn /\ mode' = IF r.nn > 0 THEN "colnodes" ELSE "cols"
              ELSE mode' = "stuck" /\ UNCHANGED <<doc2, cnt>>
         [] mode = "colnodes" ->
              /\ doc2' = [doc2 EXCEPT !.cols[Len(doc2.cols)].nn = @ + 1, !.badscale = @ \/ r.k # "column_node"]
              /\ cnt' = cnt - 1 /\ mode' = IF cnt = 1 THEN "cols" ELSE "colnodes"
         [] mode = "conns" ->
              IF r.k = "blank" THEN mode' = "dispatch" /\ UNCHANGED <<doc2, cnt>>
              ELSE doc2' = [doc2 EXCEPT !.conns = @ + 1, !.badscale = @ \/ r.k # "connection"] /\ UNCHANGED <<mode, cnt>>
         [] mode = "layers" ->
              IF r.k = "blank" THEN mode' = "dispatch" /\ UNCHANGED <<doc2, cnt>>
              ELSE doc2' = [doc2 EXCEPT !.layers = @ + 1, !.badscale = @ \/ r.k # "layer" \/ Bad(r.tag)] /\ UNCHANGED <<mode, cnt>>
         [] mode = "surf" ->
              IF r.k = "blank" THEN mode' = "dispatch" /\ UNCHANGED <<doc2, cnt>>
              ELSE doc2' = [doc2 EXCEPT !.surf = @ \cup {IF r.k = "surface" THEN r.col ELSE 0},
                                        !.badscale = @ \/ r.k # "surface" \/ Bad(r.tag)] /\ UNCHANGED <<mode, cnt>>
         [] mode = "wells" ->
              IF r.k = "blank" THEN mode' = "dispatch" /\ UNCHANGED <<doc2, cnt>>
              ELSE IF r.k # "well" THEN mode' = "stuck" /\ UNCHANGED <<doc2, cnt>>
              ELSE /\ doc2' = [doc2 EXCEPT !.wells = IF r.w <= Len(@) THEN [@ EXCEPT ![r.w] = @ + 1] ELSE Append(@, 1),
                                           !.badscale = @ \/ Bad(r.tag)]
                   /\ UNCHANGED <<mode, cnt>>
         [] OTHER -> FALSE

AsDoc(d2) == [hdr |-> [d2.hdr EXCEPT !.unit = d2.runit], nodes |-> d2.nodes, cols |-> d2.cols, conns |-> d2.conns,
              layers |-> d2.layers, surf |-> d2.surf, wells |-> d2.wells]

Init == /\ doc \in {[hdr |-> h, nodes |-> b.nodes, cols |-> b.cols, conns |-> b.conns, layers |-> b.layers,
                     surf |-> b.surf, wells |-> b.wells] : h \in Headers, b \in Bodies}
        /\ rest = WriteDoc(doc) /\ file1 = WriteDoc(doc) /\ mode = "header" /\ cnt = 0 /\ doc2 = Empty2 /\ phase = "read"

Read == phase = "read" /\ mode \notin {"done", "stuck"} /\ RStep /\ UNCHANGED <<doc, file1, phase>>
Finish == phase = "read" /\ mode = "done" /\ phase' = "done" /\ UNCHANGED <<doc, rest, mode, cnt, doc2, file1>>
Next == Read \/ Finish

(* ---- properties *)
P_NoStuck == mode # "stuck" /\ (phase = "read" /\ mode # "done" => rest # <<>>)
P1_RoundTrip == phase = "done" => AsDoc(doc2) = doc /\ ~doc2.badscale
P_Unit == phase = "done" => (doc2.hdr.unit = doc.hdr.unit /\ doc2.runit = doc.hdr.unit)     \* feet in the file, metres in memory
P2_SecondWriteIdentical == phase = "done" => WriteDoc(AsDoc(doc2)) = file1
P_AllConsumed == phase = "done" => rest = <<>>

=============================================================================
