----------------------------- MODULE ListingNav -----------------------------
(***************************************************************************)
(* Navigation of a t2listing (t2listing.py: index/time/step properties,    *)
(* first/last/next/prev, history) as a state machine over the index of the *)
(* current full result set (C07; "state unchanged" clause of C06).         *)
(*                                                                         *)
(* Result set i (0-based) sits at abstract coordinate 4*i on the time axis *)
(* and on the step axis; probes between two result sets are 4i+1 (nearer   *)
(* the left one), 4i+2 (exactly between: a tie) and 4i+3 (nearer the right *)
(* one).  The harness maps probes to real times / steps of the file.       *)
(* What the reader SHOWS at index i is, by the property, a function of i   *)
(* alone (Shown(i)); the harness compares it with a freshly opened reader. *)
(***************************************************************************)
EXTENDS Naturals, Integers, Sequences, FiniteSets, TLC

CONSTANTS N,            \* number of full result sets (>= 1)
          MaxLen        \* bound on the behaviour length (history variable)

VARIABLES idx,          \* current index, 0-based
          hist          \* sequence of [act, arg, idx, ret] records: the behaviour so far

vars == <<idx, hist>>

Coord(i) == 4 * i
Probes == {-1} \cup {Coord(i) : i \in 0..(N - 1)} \cup
          {Coord(i) + d : i \in 0..(N - 2), d \in {1, 2, 3}} \cup {Coord(N - 1) + 1}

Abs(x) == IF x < 0 THEN 0 - x ELSE x
Dist(i, p) == Abs(Coord(i) - p)
(* set_time / set_step: before the first -> first, after the last -> last, else nearest;
   a tie may go either way (numpy's argmin takes the lower index; the property does not say) *)
Nearest(p) ==
    IF p < Coord(0) THEN {0}
    ELSE IF p > Coord(N - 1) THEN {N - 1}
    ELSE {i \in 0..(N - 1) : \A j \in 0..(N - 1) : Dist(i, p) <= Dist(j, p)}

Rec(a, arg, i, r) == [act |-> a, arg |-> arg, idx |-> i, ret |-> r]
Log(a, arg, i, r) == hist' = Append(hist, Rec(a, arg, i, r))

Init == idx = 0 /\ hist = <<>>

First == idx' = 0 /\ Log("first", 0, 0, TRUE)
Last == idx' = N - 1 /\ Log("last", 0, N - 1, TRUE)
NextStep ==        \* next(): moves unless at the end; reports whether it moved
    LET more == idx < N - 1 IN
    /\ idx' = IF more THEN idx + 1 ELSE idx
    /\ Log("next", 0, idx', more)
PrevStep ==
    LET more == idx > 0 IN
    /\ idx' = IF more THEN idx - 1 ELSE idx
    /\ Log("prev", 0, idx', more)
SetIndex(i) ==     \* i in -N..N-1; negative counts from the end
    /\ i \in (0 - N)..(N - 1)
    /\ idx' = IF i < 0 THEN i + N ELSE i
    /\ Log("index", i, idx', TRUE)
SetTime(p) == /\ p \in Probes /\ idx' \in Nearest(p) /\ Log("time", p, idx', TRUE)
SetStep(p) == /\ p \in Probes /\ idx' \in Nearest(p) /\ Log("step", p, idx', TRUE)
History(k) ==      \* history(selection k): the reader shows the same result set afterwards
                   \* (k = 3: a selection that matches nothing - the call returns nothing, and still changes nothing)
    /\ idx' = idx /\ Log("history", k, idx, TRUE)

Next ==
    /\ Len(hist) < MaxLen
    /\ \/ First \/ Last \/ NextStep \/ PrevStep
       \/ \E i \in (0 - N)..(N - 1) : SetIndex(i)
       \/ \E p \in Probes : SetTime(p) \/ SetStep(p)
       \/ \E k \in 1..3 : History(k)

Spec == Init /\ [][Next]_vars

(* properties of the design *)
P_InRange == idx \in 0..(N - 1)
P_NextPrevBounds ==
    \A k \in DOMAIN hist :
        LET before == IF k = 1 THEN 0 ELSE hist[k - 1].idx IN
        /\ hist[k].act = "next" => (hist[k].ret <=> before < N - 1) /\ hist[k].idx = (IF hist[k].ret THEN before + 1 ELSE before)
        /\ hist[k].act = "prev" => (hist[k].ret <=> before > 0) /\ hist[k].idx = (IF hist[k].ret THEN before - 1 ELSE before)
P_NearestIsNearest ==
    \A k \in DOMAIN hist :
        hist[k].act \in {"time", "step"} =>
            \A j \in 0..(N - 1) : (hist[k].arg >= Coord(0) /\ hist[k].arg <= Coord(N - 1)) =>
                                    Dist(hist[k].idx, hist[k].arg) <= Dist(j, hist[k].arg)
P_HistoryNoMove ==
    \A k \in DOMAIN hist : hist[k].act = "history" => hist[k].idx = (IF k = 1 THEN 0 ELSE hist[k - 1].idx)

=============================================================================
