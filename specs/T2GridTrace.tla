----------------------------- MODULE T2GridTrace -----------------------------
(***************************************************************************)
(* Trace validation for T2Grid: every recorded execution of the real       *)
(* t2grid is replayed; TLC evaluates the C08 invariants in every recorded  *)
(* state and the C08/C09 action clauses on every recorded step, and checks *)
(* that the step is the one the specification's action allows.             *)
(*                                                                         *)
(* Verdicts are total: a step no spec action explains is taken anyway      *)
(* (reported as drift), so the rest of the trace is still examined.        *)
(* Findings are EMITted as JSON; the harness turns them into verdicts.     *)
(***************************************************************************)
EXTENDS T2Grid, Json, IOUtils

Traces == JsonDeserialize(IOEnv.TRACE_FILE)    \* Seq(trace); trace = Seq([act, state])

VARIABLES tid, l, drift

PairsToFun(ps) == [k \in {ps[i][1] : i \in DOMAIN ps} |-> ps[CHOOSE i \in DOMAIN ps : ps[i][1] = k][2]]
TriplesToFun(ps) == [k \in {<<ps[i][1], ps[i][2]>> : i \in DOMAIN ps} |->
                        ps[CHOOSE i \in DOMAIN ps : <<ps[i][1], ps[i][2]>> = k][3]]
PairSet(s) == {<<s[i][1], s[i][2]>> : i \in DOMAIN s}
NamesToFun(ps) == [k \in {ps[i][1] : i \in DOMAIN ps} |-> PairSet(ps[CHOOSE i \in DOMAIN ps : ps[i][1] = k][2])]

ActOf(a) ==
    CASE a.op = "reorder" -> [op |-> "reorder", bp |-> a.bp, cp |-> a.cp, rev |-> Range(a.rev)]
      [] a.op = "embed" -> [op |-> "embed", h |-> a.h, n |-> a.n, r |-> a.r, k |-> a.k]      \* (how the harness built the link objects is not part of the action)
      [] OTHER -> a

Ev(t, i) == Traces[t][i]

Bind(st) ==
    /\ blocks' = st.blocks
    /\ blockDict' = PairsToFun(st.blockDict)
    /\ conns' = st.conns
    /\ connDict' = TriplesToFun(st.connDict)
    /\ connNames' = NamesToFun(st.connNames)
    /\ rocks' = st.rocks
    /\ rockDict' = PairsToFun(st.rockDict)

TraceInit ==
    /\ tid \in 1..Len(Traces) /\ l = 1 /\ drift = FALSE
    /\ LET st == Ev(tid, 1).state IN
       /\ blocks = st.blocks /\ blockDict = PairsToFun(st.blockDict)
       /\ conns = st.conns /\ connDict = TriplesToFun(st.connDict)
       /\ connNames = NamesToFun(st.connNames)
       /\ rocks = st.rocks /\ rockDict = PairsToFun(st.rockDict)
    /\ last = [op |-> "init"]

Consistent == P1_ViewsAgree /\ P2_ConnectionsJoinBlocks /\ P3_BackRefs /\ P4_RocksRegistered

Match(a) ==
    CASE a.op = "add_rocktype" -> AddRocktype(a.r)
      [] a.op = "delete_rocktype" -> DeleteRocktype(a.r)
      [] a.op = "rename_rocktype" -> RenameRocktype(a.r, a.q)
      [] a.op = "clean_rocktypes" -> CleanRocktypes
      [] a.op = "add_block" -> AddBlock(a.n, a.r, a.v)
      [] a.op = "delete_block" -> DeleteBlock(a.n)
      [] a.op = "add_connection" -> AddConnection(a.a, a.b, a.k)
      [] a.op = "replace_connection" -> ReplaceConnection(a.a, a.b, a.k)
      [] a.op = "delete_connection" -> DeleteConnection(a.a, a.b)
      [] a.op = "demote_block" -> DemoteBlocks(a.names)
      [] a.op = "rename_blocks" -> RenameBlocks(a.m)
      [] a.op = "reorder" -> Reorder(a.bp, a.cp, a.rev)
      [] a.op = "minc" -> Minc(a.fr, a.sel, a.sc)
      [] a.op = "embed" -> Embed(a.h, a.n, a.r, a.k)
      [] a.op = "refused" -> (a.clean => (blocks' = blocks /\ blockDict' = blockDict /\ conns' = conns /\ connDict' = connDict
                                           /\ connNames' = connNames /\ rocks' = rocks /\ rockDict' = rockDict))
      [] OTHER -> FALSE

TraceNext ==
    /\ l < Len(Traces[tid])
    /\ l' = l + 1 /\ tid' = tid
    /\ LET ev == Ev(tid, l + 1) IN
       /\ last' = ActOf(ev.act)
       /\ Bind(ev.state)
       /\ drift' = ~(Consistent /\ Match(ActOf(ev.act)))

TraceSpec == TraceInit /\ [][TraceNext]_<<allvars, tid, l, drift>>

(* --- "what would the specification do": successor of the first recorded state under the
   second event's action, EMITted (used to describe drift) *)
AbsJ == [blocks |-> blocks,
         blockDict |-> {<<n, blockDict[n]>> : n \in DOMAIN blockDict},
         conns |-> conns,
         connDict |-> {<<k[1], k[2], connDict[k]>> : k \in DOMAIN connDict},
         connNames |-> {<<b, connNames[b]>> : b \in DOMAIN connNames},
         rocks |-> rocks,
         rockDict |-> {<<n, rockDict[n]>> : n \in DOMAIN rockDict}]
ExpNext == /\ l = 1 /\ l' = 2 /\ tid' = tid /\ drift' = FALSE
           /\ Match(ActOf(Ev(tid, 2).act))
EmitExp == l = 1 \/ PrintT("EMIT" \o ToJson([tid |-> tid, post |-> AbsJ]))

(* --- reporting ---------------------------------------------------------- *)
StateFailing ==
    (IF P1_ViewsAgree THEN {} ELSE {"P1_ViewsAgree"}) \cup
    (IF P2_ConnectionsJoinBlocks THEN {} ELSE {"P2_ConnectionsJoinBlocks"}) \cup
    (IF P3_BackRefs THEN {} ELSE {"P3_BackRefs"}) \cup
    (IF P4_RocksRegistered THEN {} ELSE {"P4_RocksRegistered"})

ReportState ==
    LET f == StateFailing IN
    (f = {} /\ ~drift) \/ PrintT("EMIT" \o ToJson([tid |-> tid, l |-> l, failing |-> f, drift |-> drift, kind |-> "state"]))

StepFailing ==
    IF ~Consistent THEN {}
    ELSE (IF C08_RenameKeeps THEN {} ELSE {"C08_RenameKeeps"}) \cup
         (IF C09_PhysUnchanged THEN {} ELSE {"C09_PhysUnchanged"}) \cup
         (IF C09_Minc THEN {} ELSE {"C09_Minc"}) \cup
         (IF C09_Embed THEN {} ELSE {"C09_Embed"})

ReportStep ==
    LET f == StepFailing IN
    f = {} \/ PrintT("EMIT" \o ToJson([tid |-> tid, l |-> l', failing |-> f, drift |-> FALSE, kind |-> "step"]))

=============================================================================
