---- MODULE MC_MulgridADT ----
EXTENDS MulgridADT
(* two unit squares side by side (lattice scale 4), two layers below the atmosphere layer *)
N(i, nm, x, y) == [id |-> i, name |-> nm, x |-> x, y |-> y]
MCInit ==
    /\ nodes = <<N(1, "  a", 0, 0), N(2, "  b", 4, 0), N(3, "  c", 8, 0), N(4, "  d", 0, 4), N(5, "  e", 4, 4), N(6, "  f", 8, 4)>>
    /\ nodeDict = [n \in {"  a", "  b", "  c", "  d", "  e", "  f"} |->
                     CASE n = "  a" -> 1 [] n = "  b" -> 2 [] n = "  c" -> 3 [] n = "  d" -> 4 [] n = "  e" -> 5 [] OTHER -> 6]
    /\ cols = <<[id |-> 1, name |-> "  a", nodes |-> <<2, 5, 4, 1>>, surf |-> 0, nl |-> 2],
                [id |-> 2, name |-> "  b", nodes |-> <<3, 6, 5, 2>>, surf |-> 0, nl |-> 2]>>
    /\ colDict = [n \in {"  a", "  b"} |-> IF n = "  a" THEN 1 ELSE 2]
    /\ conns = <<[id |-> 1, c1 |-> 1, c2 |-> 2, n1 |-> 2, n2 |-> 5]>>
    /\ connDict = [k \in {<<"  a", "  b">>} |-> 1]
    /\ layers = <<[name |-> " 0", bottom |-> 0, top |-> 0], [name |-> " 1", bottom |-> -4, top |-> 0], [name |-> " 2", bottom |-> -8, top |-> -4]>>
    /\ nodeCols = [n \in 1..6 |-> CASE n \in {1, 4} -> {1} [] n \in {3, 6} -> {2} [] OTHER -> {1, 2}]
    /\ colConns = [c \in {1, 2} |-> {1}]
    /\ colNbrs = [c \in {1, 2} |-> {3 - c}]
    /\ bnames = ExpectedBlockNames
    /\ last = Act("init", <<>>)
MCDepth == TLCGet("level") <= 4
PropArea == [][C11_AreaConserved]_allvars
PropVol == [][C11_VolumeConserved]_allvars
PropTiling == [][C11_Tiling]_allvars
====
