------------------------------- MODULE Transfer -------------------------------
(***************************************************************************)
(* Mapping the blocks of a TARGET geometry onto a SOURCE geometry          *)
(* (mulgrid.block_mapping, column_mapping, layer_mapping) and the          *)
(* atmosphere table of t2incon.transfer_from (C19), on integer-lattice     *)
(* descriptors of the two geometries:                                      *)
(*   columns [name, x2, y2 (doubled centre), surf], layers [name, bottom,  *)
(*   top] (layer 1 is the atmosphere layer), atm in {0, 1, 2}.             *)
(* Nearest-centre ties are specified non-deterministically: the result is  *)
(* the SET of acceptable source columns / layers / blocks.                 *)
(***************************************************************************)
EXTENDS Naturals, Integers, Sequences, FiniteSets, TLC, Json, IOUtils

Cases == JsonDeserialize(IOEnv.TRACE_FILE)
VARIABLE ci
Src == Cases[ci].src
Tgt == Cases[ci].tgt

Sq(a) == a * a
D2(c, d) == Sq(c.x2 - d.x2) + Sq(c.y2 - d.y2)
(* nearest source columns of target column c *)
NearestCols(c) == {i \in DOMAIN Src.cols : \A j \in DOMAIN Src.cols : D2(Src.cols[i], c) <= D2(Src.cols[j], c)}
AbsI(a) == IF a < 0 THEN 0 - a ELSE a
C2(l) == l.bottom + l.top
(* nearest source layers (below the atmosphere layer) of target layer l *)
NearestLays(l) == {i \in 2..Len(Src.layers) : \A j \in 2..Len(Src.layers) : AbsI(C2(Src.layers[i]) - C2(l)) <= AbsI(C2(Src.layers[j]) - C2(l))}
(* first layer below ground in source column i: the surface layer of the column *)
SurfaceLayer(i) == CHOOSE j \in 2..Len(Src.layers) : Src.layers[j].bottom < Src.cols[i].surf /\ \A k \in 2..(j - 1) : Src.layers[k].bottom >= Src.cols[i].surf
HasBlock(i, j) == Src.cols[i].surf > Src.layers[j].bottom
(* acceptable source blocks <<column index, layer index>> for the target block (column c, layer lj) *)
Underground(c, lj) ==
    {<<i, IF HasBlock(i, j) THEN j ELSE SurfaceLayer(i)>> : i \in NearestCols(c), j \in NearestLays(Tgt.layers[lj])}
TgtBlocks == {<<ic, lj>> \in (DOMAIN Tgt.cols) \X (2..Len(Tgt.layers)) : Tgt.cols[ic].surf > Tgt.layers[lj].bottom}

(* atmosphere: what each target atmosphere block must be mapped to *)
AtmRule == CASE Tgt.atm = 2 -> "no-target-atmosphere"
             [] Src.atm = 2 -> "source-has-none"                \* nothing is demanded
             [] Src.atm = 0 -> "single-source-block"            \* every target atmosphere block -> the source's one
             [] Tgt.atm = 1 -> "per-mapped-column"              \* atmosphere over the mapped column
             [] OTHER -> "any-source-atmosphere-block"          \* one target block, one per column in the source
(* t2incon.transfer_from: source atmosphere x target atmosphere -> how the target atmosphere state is obtained *)
InconRule == CASE Tgt.atm = 2 -> "none"
               [] Tgt.atm = 0 /\ Src.atm = 0 -> "copy-single"
               [] Tgt.atm = 0 /\ Src.atm = 1 -> "average-over-source-columns"
               [] Tgt.atm = 0 /\ Src.atm = 2 -> "default"
               [] Tgt.atm = 1 /\ Src.atm = 0 -> "broadcast-single"
               [] Tgt.atm = 1 /\ Src.atm = 1 -> "per-mapped-column"
               [] OTHER -> "default"

TInit == ci \in 1..Len(Cases)
TNext == UNCHANGED ci

(* design-level properties *)
P_Total == \A b \in TgtBlocks : Underground(Tgt.cols[b[1]], b[2]) # {} /\
               \A s \in Underground(Tgt.cols[b[1]], b[2]) : HasBlock(s[1], s[2])             \* a block that exists in the source
P_IdentityOnEqual == (Src = Tgt) => \A b \in TgtBlocks : Underground(Tgt.cols[b[1]], b[2]) = {b}
P_RulesTotal == AtmRule \in {"no-target-atmosphere", "source-has-none", "single-source-block", "per-mapped-column", "any-source-atmosphere-block"}

Emit == PrintT("EMIT" \o ToJson([ci |-> ci, atm |-> AtmRule, incon |-> InconRule, total |-> P_Total, ident |-> P_IdentityOnEqual,
                                 und |-> {[b |-> b, s |-> Underground(Tgt.cols[b[1]], b[2])] : b \in TgtBlocks},
                                 cols |-> [i \in DOMAIN Tgt.cols |-> NearestCols(Tgt.cols[i])]]))
=============================================================================
