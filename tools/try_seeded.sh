#!/bin/sh
# tools/try_seeded.sh <dir with patch.diff + demo.py> <PID> [more PIDs...]
# Confirms a seeded change in a scratch copy (clean demo passes, patch applies, 37 pinned tests pass,
# demo fails) and runs the given checks against it.  Nothing is left behind.
D="$1"; shift
M=/tmp/mut_$$
rm -rf $M; mkdir -p $M
(cd /repo && git archive HEAD | tar -x -C $M)
cp "$D/demo.py" $M/demo.py
(cd $M && timeout 600 /venv/bin/python demo.py >/dev/null 2>&1); echo "demo_clean_exit=$?"
(cd $M && patch -p1 -s < "$D/patch.diff") || { echo "PATCH FAILED"; rm -rf $M; exit 3; }
(cd $M && timeout 1200 /venv/bin/python -m pytest -q -p no:cacheprovider --timeout=900 --continue-on-collection-errors -rA 2>/dev/null | grep -E "^PASSED" | sed 's/ .*::/ /' | sort > $M/.passed; wc -l < $M/.passed | sed 's/^/tests_passed=/')
(cd $M && timeout 600 /venv/bin/python demo.py >/dev/null 2>&1); echo "demo_mutant_exit=$?"
for P in "$@"; do
  OUT=$(cd /verif && VERIF_REPO=$M timeout 3000 ./check $P --tier ${TIER:-quick} 2>&1)
  RC=$?
  echo "check=$P rc=$RC $(printf "%s\n" "$OUT" | grep -c '^VIOLATION') violation lines"
  printf "%s\n" "$OUT" | grep -E "^(VIOLATION|MACHINERY|KNOWN)" | head -4
done
rm -rf $M
