#!/bin/sh
# tools/try_benign.sh <dir with patch.diff> <PID> [more PIDs...]
# Applies a behaviour-preserving change to a scratch copy of /repo and runs the given checks against it: every check must
# exit 0 (SPEC-DRIFT lines are allowed, VIOLATION lines are false alarms).  Nothing is left behind.
D="$1"; shift
M=/tmp/ben_$$
rm -rf $M; mkdir -p $M
(cd /repo && git archive HEAD | tar -x -C $M)
(cd $M && patch -p1 -s < "$D/patch.diff") || { echo "PATCH FAILED"; rm -rf $M; exit 3; }
for P in "$@"; do
  OUT=$(cd /verif && VERIF_REPO=$M timeout 3000 ./check $P --tier ${TIER:-quick} 2>&1)
  RC=$?
  echo "benign=$(basename $D) check=$P rc=$RC violations=$(printf "%s\n" "$OUT" | grep -c '^VIOLATION') drift=$(printf "%s\n" "$OUT" | grep -c '^SPEC-DRIFT')"
  printf "%s\n" "$OUT" | grep -E "^(VIOLATION|MACHINERY)" | head -3 | cut -c1-260
done
rm -rf $M
