#!/venv/bin/python
"""tools/keep_seeded.py <src dir> <seed id> <property> <caught-by (comma list or 'none')> <needs...>"""
import json, os, shutil, sys
src, sid, prop, caught = sys.argv[1:5]
needs = " ".join(sys.argv[5:])
dst = os.path.join("/verif/seeded", sid)
os.makedirs(dst, exist_ok=True)
shutil.copy(os.path.join(src, "patch.diff"), dst)
shutil.copy(os.path.join(src, "demo.py"), dst)
notes = open(os.path.join(src, "notes.txt")).read() if os.path.exists(os.path.join(src, "notes.txt")) else ""
json.dump({"id": sid, "breaks_property": prop, "needs_to_manifest": needs, "author_notes": notes,
           "confirmed": "tools/try_seeded.sh: demo passes on clean copy of /repo HEAD, patch applies, the 37 pinned tests still pass, demo fails with the patch",
           "detected_by_checks": [] if caught == "none" else caught.split(","),
           "ran": "tools/try_seeded.sh %s %s (quick tier, scratch copy via VERIF_REPO)" % (dst, prop)},
          open(os.path.join(dst, "meta.json"), "w"), indent=1)
print("kept", dst)
