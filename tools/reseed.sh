#!/bin/sh
# tools/reseed.sh <PID>: every kept seed of that property against the final check (patched scratch copy; expects a violation)
P=$1
for d in /verif/seeded/$P-m*; do
  M=/tmp/reseed_$$; rm -rf $M; mkdir -p $M; (cd /repo && git archive HEAD | tar -x -C $M)
  (cd $M && patch -p1 -s < $d/patch.diff) || { echo "$(basename $d) PATCH-FAILED"; rm -rf $M; continue; }
  by=$(python3 -c "import json;print(' '.join(json.load(open('$d/meta.json'))['detected_by_checks']))")
  res=""
  for c in $by; do
    OUT=$(cd /verif && VERIF_REPO=$M timeout 3000 ./check $c --tier quick 2>&1); rc=$?
    res="$res $c:rc=$rc:$(printf "%s\n" "$OUT" | grep -c '^VIOLATION')"
  done
  echo "$(basename $d)$res"
  rm -rf $M
done
