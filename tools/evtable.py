#!/usr/bin/env python3
"""Refreshes the numbers of the per-property table in DESIGN.md section 8.1 from evidence/*.json (run after the quick
checks): TLC states, the leading count of the description column, wall time.  Descriptions are kept."""
import glob, json, os, re
ROOT = os.path.dirname(os.path.dirname(os.path.abspath(__file__)))
ev = {}
for f in glob.glob(os.path.join(ROOT, "evidence", "C*.json")):
    d = json.load(open(f))
    ev[d["property_id"]] = d
p = os.path.join(ROOT, "DESIGN.md")
lines = open(p).read().split("\n")
n = 0
for k, line in enumerate(lines):
    m = re.match(r"^\| (C\d\d) \| ([^|]*) \| ([^|]*) \| ([^|]*) \| ([^|]*) \|$", line)
    if not m or m.group(1) not in ev:
        continue
    d = ev[m.group(1)]
    c = d["coverage"]
    desc = re.sub(r"^\s*[\d  ]+", "", m.group(4)).strip()
    sp = lambda x: format(x, ",").replace(",", " ")
    lines[k] = "| %s | %s | %s | %s %s | %.0f s%s |" % (m.group(1), m.group(2).strip(), sp(c["states"]), sp(c["traces_validated_against_impl"]), desc,
                                                   d["wall_s"], "" if d["tier"] == "quick" else " (%s)" % d["tier"])
    n += 1
open(p, "w").write("\n".join(lines))
print(n, "rows refreshed")
