#!/usr/bin/env python3
"""Regenerates the seeded-change table of DESIGN.md section 8.5 from seeded/*/meta.json."""
import glob, json, os, re
ROOT = os.path.dirname(os.path.dirname(os.path.abspath(__file__)))
rows, miss = [], 0
for d in sorted(glob.glob(os.path.join(ROOT, "seeded", "*", "meta.json"))):
    m = json.load(open(d))
    needs = m["needs_to_manifest"].replace("|", "/")
    first = m["author_notes"].split("\n")[0].replace("Change: ", "").replace("Changed: ", "").replace("|", "/")
    if len(first) > 150:
        first = first[:147] + "..."
    if "initially missed" in needs:
        miss += 1
    rows.append("| %s | %s | %s | %s |" % (m["id"], ", ".join(m["detected_by_checks"]) or "NOT DETECTED", first, needs))
table = "| seed | caught by | change | needs, and what was strengthened if first missed |\n|------|-----------|--------|------|\n" + "\n".join(rows)
p = os.path.join(ROOT, "DESIGN.md")
s = open(p).read()
i = s.index("| seed | caught by | change |")
j = s.index("\n\n", i)
s = s[:i] + table + s[j:]
s = re.sub(r"\*\*All \d+ are now detected\*\*; the \d+ that", "**All %d are now detected**; the %d that" % (len(rows), miss), s)
open(p, "w").write(s)
print(len(rows), "seeds,", miss, "initially missed")
