#!/venv/bin/python
"""Regenerates MANIFEST.json from the table below (one entry per claimed property)."""
import json, os, subprocess
ROOT = os.path.dirname(os.path.dirname(os.path.abspath(__file__)))

CLAIMS = {
 "C08": dict(cat="model_checking", ref="3 (C08)", technique="TLA+ state machine T2Grid.tla model-checked by TLC; all TLC transitions replayed on the real t2grid; recorded edit traces validated by TLC (T2GridTrace.tla)",
   text="TLC checks the four consistency invariants and the rename clause on every state/step of the edit state machine within bounds; every transition TLC generates is replayed on the real t2grid and random edit sequences recorded from the real code are validated state by state by TLC. Right level: the property quantifies over edit histories of a small mutable container.",
   note="Trusts the projection (lists, dicts, connection_name sets, ids attached to objects) and the in-domain action generator; bounds in evidence."),
 "C09": dict(cat="model_checking", ref="3 (C09)", technique="TLC action properties over T2Grid.tla (physical signature unchanged; MINC volume/chain clause) evaluated on TLC transitions replayed in the real code and on recorded traces",
   text="The physical signature (per-block volume/rock/centre, per-pair area, direction, each block's own distance, which block the gravity cosine designates as upper) is an operator of the spec; TLC checks it is unchanged by reorder/rename/demote and checks the MINC clause, on the model and on every recorded step of the real code.",
   note="Floats are interned as tokens (equal floats <-> equal tokens); MINC distances/areas are not specified; embed() not yet covered."),
 "C16": dict(cat="model_checking", ref="3 (C16)", technique="TLA+ automaton of the Fortran numeric-field grammar (FortranNum.tla); TLC enumerates every character-class string and classifies recorded calls (FortranNumTrace.tla); each replayed through fortran_float/fortran_int",
   text="TLC checks grammar-level laws (blanks ignored, D means E, every Fortran output form accepted) for all class strings within the length bound and emits each string's outcome class and parse tree; every string is concretised and run through the real readers, and rendered reals / arbitrary strings recorded from the real readers are classified by TLC. Right level: the property is a finite-alphabet language property of a fallback cascade.",
   note="Expected numeric value = Python float()/int() of the canonical text built from the spec's parse tree (trusted leaf); length bound in evidence."),
 "C02": dict(cat="model_checking", ref="3 (C02)", technique="TLA+ width-arithmetic model FixedRecord.tla over the four format tables extracted from the working tree; TLC enumerates the (record kind, field, value class) lattice with expected outcomes; every point replayed through write_values_to_string/parse_string",
   text="TLC checks on the model that under the guarded writer no field ever occupies more than its columns (and, in a negative configuration, that unguarded '%' formatting spills), and emits for every field of every record kind every width-determining value class with its outcome FITS/TRIM/IMPOSSIBLE; each is concretised and written/parsed by the real code, checking line length, the focus field and every neighbour. Right level: the property is finite width arithmetic per field.",
   note="Expected parse of a fitting value is Python's own '%' formatting of that value alone; other fields carry fitting values; tables are read from /repo at run time."),
 "C07": dict(cat="model_checking", ref="3 (C07)", technique="TLA+ navigation state machine ListingNav.tla; TLC enumerates all behaviours up to a length bound (and simulates long ones) with the specified index/return flag; each behaviour replayed on real and truncated listing files and compared with a freshly opened reader",
   text="TLC checks range, next/prev bounds and nearest-selection on the navigation model and exports every behaviour; the harness replays them on every shipped listing with two or more result sets and on copies truncated to N=1..4 result sets, comparing index, moved-flag, time/step and all table contents with a fresh reader after every action. Right level: history independence of a small cursor state machine.",
   note="Fresh reader positioned with index=i is the contents oracle (C05 checks that oracle against the file); time budget per file limits how many of the exported behaviours are replayed (count in evidence)."),
 "C06": dict(cat="model_checking", ref="3 (C06)", technique="TLA+ token-level model ListingScan.tla of the three skip_to_table/next_table procedures (one step per loop iteration) model-checked by TLC for every table configuration occurring in the shipped files; TLC-enumerated selections replayed through history() with recorded scanner landings and compared with stepping",
   text="TLC checks, for the exact table configuration of every shipped file and flavour, that the search for each selected table terminates (safety form and liveness under weak fairness) and lands on the wanted table of the current result set, and that the pinned TOUGH+ logic does not (negative configuration). Every ordered sub-selection TLC enumerates is run through the real history() under a watchdog; the recorded landing of every skip_to_table call, the series (vs. stepping with a second reader), the times, the sign of reversed connections and the reader state afterwards are checked.",
   note="Stepping with a second reader is the value oracle; short-output values at short result sets are not compared; time budget per file limits the selections replayed (count in evidence)."),
 "C05": dict(cat="model_checking", ref="3 (C05)", technique="TLA+ model ListingLayout.tla of the recorded-layout replay (setup_table/read_table/skip_table for TOUGH2-family listings) model-checked over all table pages up to a length bound; recorded pages of real tables validated by TLC (ListingLayoutTrace.tla); digit-watermarked copies of every shipped file bind each table cell to the printed token it was read from",
   text="TLC checks that replaying the inferred vertical layout visits exactly the printed rows once each and that skipping equals reading (and finds the uniform-internal-header precondition); for every recorded table page of the shipped files TLC re-derives the visited lines from the first result set's page and compares with the lines the real reader consumed and with the page's data rows. Watermarking (two random-digit copies, one value-form copy) identifies for every cell the (line, token) it came from: own row, printed order, no dropped token, trailing blanks zero, key text, zero/negative/3-digit/no-E forms, skip subsets, addressing. Right level: the layout replay is a small positional state machine; the cell relation is bound by observation.",
   note="Line tags of table regions are classified by the harness; cell == fortran_float(token) relies on C16; quick tier samples result sets and rows of very large tables (counts in evidence)."),
 "C13": dict(cat="model_checking", ref="3 (C13)", technique="TLA+ writer/reader protocol InconFile.tla over typed record streams, one step per record, model-checked by TLC (round trip, second write identical, reader termination; negative configurations for every well-formedness condition); every TLC document instantiated, written, traced at record level, read back and rewritten by the real t2incon",
   text="TLC explores every well-formed document within bounds (blocks, numbers of variables on both sides of the 4-per-line boundary, every optional-field combination, timing x reset, flavour, num_variables) through write / read / write and checks that the reader inverts the writer, terminates, and that the second stream equals the first; each well-formedness condition is shown necessary by a failing configuration. The same documents are instantiated with concrete values and names and run through the real code with a record-level trace compared with the specified stream, the re-read object compared field by field and the second file byte for byte; shipped files are cycled too.",
   note="Values compared with Python formatting at the decimals that fit the field (C02); documents limited to MaxBlocks blocks in TLC; shipped files are cycled by the harness without TLC."),
 "C03": dict(cat="model_checking", ref="3 (C03)", technique="TLA+ writer/reader protocol MulgridFile.tla (header flags, keyword dispatch, blank-line sentinels, scale tags on coordinates) model-checked by TLC over 72 header combinations x a family of bodies built through the public API; every TLC document instantiated, written with a record-level trace, read back and rewritten by the real mulgrid",
   text="TLC checks that the reader inverts the writer for every header combination and body (sections present or absent, 3/4/5-node columns, specified centres, surfaces, wells), that the unit written is the geometry's and coordinates are re-read at the right scale, that every record is consumed and that the second stream equals the first; the pinned header handling is shown to fail (negative configuration). The same documents, random rectangular geometries with all flags/feet/surfaces/wells and the shipped geometries (as-is, rotated, refined, reduced) are cycled through the real code: header options, nodes, columns, connections, layers, surfaces, wells, block and connection name lists compared, second file byte-identical.",
   note="Coordinates compared at the decimals the format carries, in the file's unit; DMPlex ordering only for 3/4-node columns (library restriction); names right-justified."),
 "C17": dict(cat="model_checking", ref="3 (C17)", technique="TLA+ module Naming.tla: bijective/positional numeration with capacities and an inverse (TLC walks every number up to and past each capacity), and the (A3,I2) quirk as functions on five-character class strings (TLC checks all 3125); every enumerated number / class string replayed through the real name generators and fix/unfix functions; geometries built at capacity +-1",
   text="TLC checks that each generated name has an inverse (hence all are distinct), that a name is too long exactly above the capacity, the two surface-layer numbers, and on all five-character class strings that repair is idempotent, un-repair equals the simulator's print form and one write/read cycle reaches a fixed point. Every number and class string is replayed through column/node/layer_name_from_number (both justifications, several alphabets, with and without spaces), fix_blockname, unfix_blockname, fix_block_mapping; rectangular geometries at and one past every capacity must give distinct five-character block names whose column/layer parts invert block_name, or raise NamingConventionError.",
   note="Quick tier compares generated letter names up to 2200 and checks only the error rule near 18278; thorough walks the full range and builds the 18278/18279-column geometries."),
 "C01": dict(cat="model_checking", ref="3 (C01)", technique="TLA+ writer/reader protocol T2DataFile.tla (23 section kinds by shape, keyword dispatch, counted and sentinel-terminated lists, PARAM's continuation/hand-back rule, end keyword) model-checked by TLC over every legal order of small documents and over harness-composed full documents; each document built through the public API, written with a record-level trace, read, written, read, written by the real t2data, with MESH / MESHA+MESHB / .pdat variants and the shipped files",
   text="TLC checks on the protocol model that the reader inverts the writer for every legal order of sections (within bounds) and both end keywords, that no record is misread or left over, and that the pinned PARAM continuation rule does not (negative configuration); well-formedness conditions (SIMUL before PARAM/MULTI, MULTI before DIFFU, rocks before blocks before connections before short/history sections) are part of the model. Documents (all legal orders of the always-present sections plus one optional section; random full-size documents with table generators 1..12 times, 0..12 default initial conditions, lengths on both sides of the 4/8-per-line boundaries, every section kind) are instantiated and cycled three times through the real code: content compared through a canonical form, second file equal to the first up to trailing blanks, third byte-identical; also with the mesh in a MESH file, in MESHA+MESHB and with extra precision on / echoed / partial; shipped files cycled as well.",
   note="Values are exactly representable in their fields (C02 covers widths); INCON/INDOM entries hold at most 4 values; the per-section readers are modelled one step per section, not per record; Fortran-style independent writer records are not covered."),
 "C20": dict(cat="model_checking", ref="3 (C20)", technique="TLA+ state transformer Convert.tla (flavour data, MOP digits, generator list and lookup as separate variables, short/history requests) and WaiweraExport.tla (rock-cell partition, source cells, EOS recognition) model-checked by TLC; every TLC transition / state replayed on real t2data objects (method calls and the type setter, then a file round trip; json() export)",
   text="TLC checks on Convert that after each conversion the model declares its flavour, holds nothing of the other flavour, has no unsupported generator in the list or the lookup (which describe the same generators) and that requests only move between SHORT and the history sections; on WaiweraExport that rock cell lists partition the non-boundary blocks, sources sit at their blocks' cell indices and the EOS is recognised from argument, MULTI or simulator string. Each exported transition is replayed on a real model (convert_to_TOUGH2/AUTOUGH2 or the type setter, MP on/off), the clauses evaluated on the real object, grid/rocks/remaining generators/requests compared, and the converted model written and re-read; export cases are built on rectangular geometries with all atmosphere types and block orders.",
   note="Exact MOP digit rewriting and conductivity scaling are compared with the spec as drift only; group (TMAK) generators are not instantiated; boundary blocks are adjacent to a cell."),
}
REASONS_PENDING = "check not built yet in this revision (see DESIGN.md section 6 build order); the specification family applies"
NA = {
 "C14": "pure real-valued thermodynamic identities (inverse functions, derivative sums, monotonicity): no state, ordering or case structure for a TLA+ specification to decide; TLC has no reals (DESIGN.md section 4)",
}

def main():
    props = [json.loads(l)["id"] for l in open(os.path.join(ROOT, "properties.jsonl"))]
    checks, na = [], []
    for pid in props:
        have = os.path.exists(os.path.join(ROOT, "checks", pid.lower() + ".py"))
        if pid in CLAIMS and have:
            c = CLAIMS[pid]
            checks.append({
                "property_id": pid,
                "quick_cmd": "./check %s --tier quick" % pid,
                "thorough_cmd": "./check %s --tier thorough" % pid,
                "evidence_file": "evidence/%s.json" % pid,
                "replay_cmd_template": "./check %s --replay {path}" % pid,
                "engine": "tlc-conformance",
                "level_claimed": {"category": c["cat"], "text": c["text"], "design_ref": "DESIGN.md section " + c["ref"]},
                "level_note": c["note"],
                "technique": c["technique"],
            })
        else:
            na.append({"property_id": pid, "reason": NA.get(pid, REASONS_PENDING)})
    try:
        base = subprocess.check_output(["git", "-C", "/repo", "rev-list", "--max-parents=0", "HEAD"]).decode().split()[0]
        log = subprocess.check_output(["git", "-C", "/repo", "log", "--format=%H %s", base + "..HEAD"]).decode().splitlines()
    except Exception:
        log = []
    hooks = [l.split()[0] for l in log if l.split(" ", 1)[1].startswith("verif-hook:")]
    man = {
        "version": 1,
        "setup_cmd": "./setup.sh",
        "hooks": {"guard": "PYTOUGH_VERIF", "enable": "checks import /repo's working tree directly and wrap library functions at run time when PYTOUGH_VERIF=1 (set by ./check); no source hooks",
                  "baseline_off_cmd": "./run_baseline.sh", "source_commits": hooks, "add_only": True},
        "engines": [{"name": "tlc-conformance", "path": "lib/", "serves_properties": [c["property_id"] for c in checks],
                     "kind_free_text": "explicit TLA+ specifications (specs/*.tla) model-checked with TLC 1.8; TLC-generated behaviours replayed into the real library and recorded executions validated by TLC trace specifications"}],
        "checks": checks,
        "not_applicable": na,
        "notes": "Repairs of genuine defects are 'fix:' commits in /repo, listed in known_findings.json as fixed entries.",
    }
    json.dump(man, open(os.path.join(ROOT, "MANIFEST.json"), "w"), indent=1)
    print("claimed:", [c["property_id"] for c in checks], "not_applicable:", len(na))

main()
