"""C19 - transfers between geometries are total, nearest-based and the identity on equal grids (specs/Transfer.tla)."""
import copy
import json
import os
import random
import shutil

import numpy as np

from lib import core, tlc

H = 2.5


def descriptor(geo):
    def lat(x):
        v = x / H
        r = int(round(v))
        if abs(v - r) > 1e-7:
            raise tlc.MachineryError("geometry off the lattice")
        return r
    return {"atm": geo.atmosphere_type if geo.atmosphere_type in (0, 1) else 2,
            "cols": [{"name": c.name, "x2": lat(2 * c.centre[0]), "y2": lat(2 * c.centre[1]), "surf": lat(c.surface)} for c in geo.columnlist],
            "layers": [{"name": l.name, "bottom": lat(l.bottom), "top": lat(l.top)} for l in geo.layerlist]}


def make(rng, nx, ny, dx, dz, atm, conv, shift=(0.0, 0.0, 0.0), surfaces=None):
    m = core.repo_modules("mulgrids")
    with core.quiet():
        geo = m.mulgrid().rectangular([dx] * nx, [dx] * ny, dz, atmos_type=atm, convention=conv, origin=[shift[0], shift[1], shift[2]])
        if surfaces:
            for c, s in zip(geo.columnlist, surfaces):
                if s:
                    c.surface = geo.layerlist[0].bottom - s
                    geo.set_column_num_layers(c)
            geo.setup_block_name_index()
            geo.setup_block_connection_name_index()
    return geo


def expected(cases):
    work = tlc.scratch_dir("c19-")
    try:
        p = os.path.join(work, "cases.json")
        json.dump(cases, open(p, "w"))
        cfg = ("INIT TInit\nNEXT TNext\nINVARIANT P_Total\nINVARIANT P_IdentityOnEqual\nINVARIANT P_RulesTotal\nCONSTRAINT Emit\nCHECK_DEADLOCK FALSE\n")
        r = tlc.run_tlc("Transfer", None, cfg_text=cfg, workers=1, timeout=3000, heap="8g", env={"TRACE_FILE": p})
    finally:
        shutil.rmtree(work, ignore_errors=True)
    if r.violated:
        raise tlc.MachineryError("Transfer.tla violates %s on a generated pair" % r.violated)
    out = [None] * len(cases)
    for e in r.emitted:
        out[e["ci"] - 1] = e
    return out, r


def float_expected(src, tgt):
    """Transfer.tla's definitions (NearestCols, NearestLays, SurfaceLayer, Underground, AtmRule, InconRule) instantiated in
    floating point for geometries off the lattice; ties within 1e-9 (relative) are all acceptable."""
    sc = np.array([c.centre for c in src.columnlist])
    slc = np.array([l.centre for l in src.layerlist[1:]])
    satm = src.atmosphere_type if src.atmosphere_type in (0, 1) else 2
    tatm = tgt.atmosphere_type if tgt.atmosphere_type in (0, 1) else 2

    def surface_layer(i):
        for j in range(1, len(src.layerlist)):
            if src.layerlist[j].bottom < src.columnlist[i].surface:
                return j
        return len(src.layerlist) - 1
    nearcols = []
    for c in tgt.columnlist:
        d = np.linalg.norm(sc - c.centre, axis=1)
        nearcols.append([int(i) for i in np.nonzero(d <= d.min() * (1 + 1e-9) + 1e-9)[0]])
    nearlays = {}
    for lj in range(1, len(tgt.layerlist)):
        d = np.abs(slc - tgt.layerlist[lj].centre)
        nearlays[lj] = [int(j) + 1 for j in np.nonzero(d <= d.min() * (1 + 1e-9) + 1e-9)[0]]
    und = []
    for ic, c in enumerate(tgt.columnlist):
        for lj in range(1, len(tgt.layerlist)):
            if c.surface > tgt.layerlist[lj].bottom:
                acc = set()
                for i in nearcols[ic]:
                    for j in nearlays[lj]:
                        acc.add((i + 1, (j if src.columnlist[i].surface > src.layerlist[j].bottom else surface_layer(i)) + 1))
                und.append({"b": [ic + 1, lj + 1], "s": sorted(acc)})
    atm = ("no-target-atmosphere" if tatm == 2 else "source-has-none" if satm == 2 else "single-source-block" if satm == 0
           else "per-mapped-column" if tatm == 1 else "any-source-atmosphere-block")
    incon = {(2, 0): "none", (2, 1): "none", (2, 2): "none", (0, 0): "copy-single", (0, 1): "average-over-source-columns", (0, 2): "default",
             (1, 0): "broadcast-single", (1, 1): "per-mapped-column", (1, 2): "default"}[(tatm, satm)]
    return {"und": und, "atm": atm, "incon": incon}


def shipped_pairs(tier, rng):
    """Shipped geometries against themselves, a column refinement, a layer refinement, a shifted copy with other surfaces,
    and each other (g7 / g1 overlap nothing: only same-family pairs)."""
    m = core.repo_modules("mulgrids")
    load = lambda n: m.mulgrid(os.path.join(core.REPO, "tests", "mulgrid", n + ".dat"))
    for n in (["g7", "g5"] if tier == "quick" else ["g1", "g2", "g3", "g4", "g5", "g6", "g7"]):
        with core.quiet():
            a = load(n)
            yield n + ":same", a, load(n)
            b = load(n)
            sel = [c for c in b.columnlist if c.num_nodes in (3, 4)]
            b.refine(rng.sample(sel, max(1, len(sel) // 5)))
            b.setup_block_name_index()
            yield n + ":refined-target", a, b
            yield n + ":refined-source", b, a
            c = load(n)
            c.refine_layers([c.layerlist[k] for k in range(1, c.num_layers, 3)], factor=2)
            c.setup_block_name_index()
            yield n + ":layers-target", a, c
            d = load(n)
            w = a.bounds[1] - a.bounds[0]
            d.translate(np.array([0.013 * w[0], -0.021 * w[1], 0.37 * (a.layerlist[1].top - a.layerlist[1].bottom)]))
            for col in d.columnlist[::4]:
                col.surface = min(col.surface, d.layerlist[min(3, d.num_layers - 1)].centre)
                d.set_column_num_layers(col)
            d.atmosphere_type = (a.atmosphere_type + 1) % 3
            d.setup_block_name_index()
            yield n + ":shifted-resurfaced-target", a, d
            yield n + ":shifted-resurfaced-source", d, a


def run(tier):
    rep = core.Report("C19", tier, "model_checking")
    quick = tier == "quick"
    rng = random.Random(core.seed() + 1919)
    t2incons, t2data, t2grids = core.repo_modules("t2incons", "t2data", "t2grids")
    pairs = []
    for _ in range(300 if quick else 3000):
        satm, tatm = rng.choice([0, 1, 2]), rng.choice([0, 1, 2])
        conv = rng.choice([0, 1, 2])
        tconv = conv if rng.random() < 0.6 else rng.choice([0, 1, 2])        # the two geometries may follow different naming conventions
        kind = rng.choice(["same", "fine", "coarse", "shift", "layers", "surface", "unequal"])
        nx, ny = rng.randint(1, 3), rng.randint(1, 3)
        sdz = [10.0, 10.0, 20.0][:rng.randint(2, 3)]
        src = make(rng, nx, ny, 20.0, sdz, satm, conv, surfaces=[rng.choice([0, 0, 5.0, 10.0, 15.0]) for _ in range(nx * ny)])
        if kind == "unequal":
            # source layers of very different thickness: a target layer's centre can lie inside a thick source layer and yet
            # be nearer to the centre of its thin neighbour
            sdz = rng.choice([[10.0, 100.0, 10.0], [5.0, 50.0, 5.0, 40.0], [30.0, 5.0, 5.0, 60.0]])
            src = make(rng, nx, ny, 20.0, sdz, satm, conv)
            tgt = make(rng, nx, ny, 20.0, [rng.choice([10.0, 20.0])] * int(sum(sdz) / 20.0), tatm, tconv)
        elif kind == "same":
            tgt = copy.deepcopy(src)
            tgt.atmosphere_type = tatm
        elif kind == "fine":
            tgt = make(rng, 2 * nx, 2 * ny, 10.0, [5.0] * int(sum(sdz) / 5.0), tatm, tconv)
        elif kind == "coarse":
            tgt = make(rng, max(1, nx // 2), max(1, ny), 40.0, [20.0, 20.0], tatm, tconv)
        elif kind == "shift":
            tgt = make(rng, nx, ny, 20.0, sdz, tatm, tconv, shift=(rng.choice([5.0, 10.0, -7.5]), rng.choice([0.0, 10.0]), rng.choice([0.0, -5.0, 2.5])))
        elif kind == "layers":
            tgt = make(rng, nx, ny, 20.0, [5.0] * int(sum(sdz) / 5.0), tatm, tconv)
        else:
            tgt = make(rng, nx, ny, 20.0, sdz, tatm, tconv, surfaces=[rng.choice([0, 5.0, 10.0, 12.5, 15.0]) for _ in range(nx * ny)])
        pairs.append((kind, src, tgt))
    cases = [{"src": descriptor(s), "tgt": descriptor(t)} for _, s, t in pairs]
    exps, r = expected(cases)
    for name, a, b in shipped_pairs(tier, rng):
        pairs.append((name, a, b))
        cases.append({"src": {"atm": a.atmosphere_type}, "tgt": {"atm": b.atmosphere_type}, "mesh": name, "n": len(pairs)})
        exps.append(float_expected(a, b))
    rep.add_tlc("Transfer.tla on %d geometry pairs: totality, identity on equal geometries, acceptable source blocks per target block" % len(cases), r)
    for (kind, src, tgt), e in zip(pairs, exps):
        key = "src%d->tgt%d" % (e and cases[pairs.index((kind, src, tgt))]["src"]["atm"], cases[pairs.index((kind, src, tgt))]["tgt"]["atm"])
        det = {"pair": kind, "source_atm": src.atmosphere_type, "target_atm": tgt.atmosphere_type, "convention": src.convention,
               "source_columns": src.num_columns, "target_columns": tgt.num_columns}
        rep.case(json.dumps([kind, cases[pairs.index((kind, src, tgt))]], sort_keys=True)[:4000])
        try:
            with core.quiet():
                mapping, colmap = src.block_mapping(tgt, True)
        except Exception as ex:
            det["error"] = repr(ex)
            rep.violation(key + ":block_mapping-raises", "P_total", det)
            continue
        natm = tgt.num_atmosphere_blocks
        und = dict(((x["b"][0], x["b"][1]), x["s"]) for x in e["und"])
        bad = None
        for name in tgt.block_name_list[natm:]:
            ic = [c.name for c in tgt.columnlist].index(tgt.column_name(name)) + 1
            lj = [l.name for l in tgt.layerlist].index(tgt.layer_name(name)) + 1
            acc = set(src.block_name(src.layerlist[s[1] - 1].name, src.columnlist[s[0] - 1].name) for s in und[(ic, lj)])
            got = mapping.get(name)
            if got is None or got not in src.block_name_index:
                bad = ("P_total", "target block %s mapped to %r, which is not a source block" % (name, got))
                break
            if got not in acc:
                bad = ("P_nearest", "target block %s mapped to %s, acceptable %s" % (name, got, sorted(acc)))
                break
        if not bad and kind == "same" and src.atmosphere_type == tgt.atmosphere_type:
            for name in tgt.block_name_list:
                if mapping.get(name) != name:
                    bad = ("P_identity", "mapping a geometry onto itself: %s -> %r" % (name, mapping.get(name)))
                    break
        if not bad and natm > 0:
            rule = e["atm"]
            satmnames = set(src.block_name_list[:src.num_atmosphere_blocks])
            for name in tgt.block_name_list[:natm]:
                got = mapping.get(name)
                if rule == "source-has-none":
                    continue
                if got not in satmnames:
                    bad = ("P_atmosphere", "atmosphere block %s mapped to %r (rule %s)" % (name, got, rule))
                    break
                if rule == "per-mapped-column":
                    want = src.block_name(src.layerlist[0].name, colmap[tgt.column_name(name)])
                    if got != want:
                        bad = ("P_atmosphere", "atmosphere block %s mapped to %s, expected %s" % (name, got, want))
                        break
        if bad:
            det["difference"] = bad[1]
            rep.violation(key + ":" + bad[0], bad[0], det)
            continue
        # t2incon.transfer_from: every target block gets exactly the state of its mapped source block; source untouched
        nv = rng.randint(1, 4)
        sinc = t2incons.t2incon()
        for k, b in enumerate(src.block_name_list):
            sinc[b] = t2incons.t2blockincon([1000.0 * (k + 1) + v for v in range(nv)], b)
        before = [(b.block, list(b.variable)) for b in sinc]
        tinc = t2incons.t2incon()
        try:
            with core.quiet():
                tinc.transfer_from(sinc, src, tgt)
        except Exception as ex:
            det["error"] = repr(ex)
            rep.violation(key + ":transfer_from-raises", "P_incon_transfer", det)
            continue
        if [(b.block, list(b.variable)) for b in sinc] != before:
            rep.violation(key + ":source-altered", "P_source_unchanged", det)
            continue
        bad = None
        for name in tgt.block_name_list[natm:]:
            if tinc[name] is None or list(tinc[name].variable) != list(sinc[mapping[name]].variable):
                bad = "underground block %s does not hold the state of %s" % (name, mapping[name])
                break
        if not bad:
            # ... as a table of its own: one entry per target block, in the target's block order, each carrying its own name
            listed = [b.block for b in tinc]
            if listed != list(tgt.block_name_list):
                bad = "the transferred table lists %r..., the target's blocks are %r..." % (listed[:6], list(tgt.block_name_list)[:6])
            elif len(set(id(b) for b in tinc)) != len(listed):
                bad = "two target blocks share one state object"
        rule = e["incon"]
        if not bad and natm > 0:
            sat = [list(sinc[b].variable) for b in src.block_name_list[:src.num_atmosphere_blocks]]
            for name in tgt.block_name_list[:natm]:
                got = list(tinc[name].variable)
                if rule in ("copy-single", "broadcast-single"):
                    ok = got == sat[0]
                elif rule == "average-over-source-columns":
                    ok = np.allclose(got, np.mean(np.array(sat), axis=0), rtol=1e-12)
                elif rule == "per-mapped-column":
                    ok = got == list(sinc[src.block_name(src.layerlist[0].name, colmap[tgt.column_name(name)])].variable)
                else:
                    ok = got == [1.013e5, 20.]
                if not ok:
                    bad = "atmosphere block %s: %s (rule %s)" % (name, got, rule)
                    break
        if bad:
            det["difference"] = bad
            rep.violation(key + ":incon:" + rule, "P_incon_transfer", det)
            continue
        # t2data.transfer_from onto an identical geometry preserves every generator and the total generation
        if kind == "same" and src.atmosphere_type == tgt.atmosphere_type:
            with core.quiet():
                sd = t2data.t2data()
                sd.grid = t2grids.t2grid().fromgeo(src)
                ub = src.block_name_list[src.num_atmosphere_blocks:]
                for k, b in enumerate([ub[0], ub[-1], ub[len(ub) // 2]]):
                    tab = k == 1
                    sd.add_generator(t2data.t2generator(name="ge%3d" % k, block=b, type="MASS", gx=1.5 + k, ex=1.0e5,
                                                        ltab=(3 if tab else None), time=[0.0, 1.0, 2.0] if tab else [],
                                                        rate=[1.0, 2.0, 3.0] if tab else []))
                if rng.random() < 0.5:
                    # a mass and a heat generator under one name on one block (one lookup key, two list entries)
                    sd.add_generator(t2data.t2generator(name="ge%3d" % 0, block=ub[0], type="HEAT", gx=250.0))
                if rng.random() < 0.5:
                    # a generator whose name carries the layer part '99', and an earlier transfer in the same process that
                    # named that category a top generator: the later transfer, relying on the defaults, must not remember it
                    gname = {0: "abc99", 1: " 99ab", 2: "99abc"}[src.convention]
                    sd.add_generator(t2data.t2generator(name=gname, block=ub[0], type="MASS", gx=7.5, ex=2.0e5))
                    try:
                        t2data.t2data().transfer_from(sd, src, tgt, top_generator=[src.layer_name(gname)])
                    except Exception:
                        pass
                td = t2data.t2data()
                try:
                    td.transfer_from(sd, src, tgt, preserve_generation_totals=rng.random() < 0.5)
                except Exception as ex:
                    det["error"] = repr(ex)
                    rep.violation(key + ":t2data.transfer_from-raises", "P_model_transfer", det)
                    continue
            # a generator of a top category, in a column whose surface lies exactly on a layer boundary, stays in that column's
            # top block (which exists in the target)
            for c_ in src.columnlist:
                on_boundary = any(abs(c_.surface - l_.bottom) < 1e-9 for l_ in src.layerlist[1:-1])
                if on_boundary and c_.num_layers > 0:
                    topblk = src.block_name(src.layerlist[src.num_layers - c_.num_layers].name, c_.name)
                    gname = {0: "abc98", 1: " 98ab", 2: "98abc"}[src.convention]
                    with core.quiet():
                        sd2 = t2data.t2data()
                        sd2.grid = t2grids.t2grid().fromgeo(src)
                        sd2.add_generator(t2data.t2generator(name=gname, block=topblk, type="MASS", gx=3.5, ex=1.0e5))
                        td2 = t2data.t2data()
                        try:
                            td2.transfer_from(sd2, src, tgt, top_generator=[src.layer_name(gname)])
                        except Exception as ex:
                            rep.violation(key + ":top-generator-raises", "P_model_transfer", dict(det, error=repr(ex)))
                            break
                    blocks = [g_.block for g_ in td2.generatorlist]
                    if blocks != [topblk] or any(b_ not in td2.grid.block for b_ in blocks):
                        rep.violation(key + ":top-generator", "P_model_transfer",
                                      dict(det, generator_block=blocks, expected=topblk, column_surface=float(c_.surface)))
                    break
            a = [(g.block, g.name, g.type, g.gx, list(g.rate)) for g in sd.generatorlist]
            b = [(g.block, g.name, g.type, g.gx, list(g.rate)) for g in td.generatorlist]
            if a != b or not np.allclose(sd.total_generation(), td.total_generation()) or \
                    not np.allclose(sd.total_generation("HEAT"), td.total_generation("HEAT")):
                det["generators"] = [a, b]
                rep.violation(key + ":generators", "P_model_transfer", det)
    # the same source geometry used again after it has been moved (nothing may be remembered from the first mapping)
    nseq = 0
    for kind, src, tgt in pairs[:(40 if quick else 400)]:
        if not isinstance(kind, str) or ":" in kind:
            continue
        with core.quiet():
            src.translate(np.array([7.5, 2.5, 0.0]))
            if src.num_columns > 1:
                src.rotate(90.0, src.columnlist[0].centre)
        e = float_expected(src, tgt)
        und = dict(((x["b"][0], x["b"][1]), x["s"]) for x in e["und"])
        try:
            with core.quiet():
                mapping = src.block_mapping(tgt)
        except Exception as ex:
            rep.violation("moved-source:block_mapping-raises", "P_total", {"pair": kind, "error": repr(ex)})
            continue
        nseq += 1
        rep.case(("moved", nseq))
        for name in tgt.block_name_list[tgt.num_atmosphere_blocks:]:
            ic = [c.name for c in tgt.columnlist].index(tgt.column_name(name)) + 1
            lj = [l.name for l in tgt.layerlist].index(tgt.layer_name(name)) + 1
            acc = set(src.block_name(src.layerlist[s_[1] - 1].name, src.columnlist[s_[0] - 1].name) for s_ in und[(ic, lj)])
            if mapping.get(name) not in acc:
                rep.violation("moved-source:P_nearest", "P_nearest", {"pair": kind, "sequence": "block_mapping, translate + rotate the source, block_mapping",
                                                                      "difference": "target block %s mapped to %r, acceptable %s" % (name, mapping.get(name), sorted(acc))})
                break
    rep.traces += len(pairs) + nseq
    rep.sample({"pair": pairs[0][0], "source": cases[0]["src"], "target_columns": len(cases[0]["tgt"]["cols"]), "atm_rule": exps[0]["atm"], "incon_rule": exps[0]["incon"]})
    rep.rule = ("random pairs of lattice geometries (identical, finer, coarser, shifted, re-layered, differently surfaced) x 3x3 atmosphere "
                "types x conventions; Transfer.tla gives the acceptable source blocks (ties allowed) and the atmosphere rules; "
                "block_mapping, t2incon.transfer_from (distinct state per source block) and t2data.transfer_from compared; shipped geometries "
                "paired with themselves, refinements, layer refinements and shifted / re-surfaced copies against the same definitions in floating point")
    rep.leaves = ["atmosphere average compared numerically (1e-12)",
                  "on pairs built from shipped geometries the acceptable sets are Transfer.tla's definitions instantiated in floating point (float_expected, ties within 1e-9), not evaluated by TLC"]
    rep.assumptions = ["when the source has no atmosphere blocks nothing is demanded of the target's atmosphere blocks' mapping"]
    rep.exhaustive = False
    return rep.finish()


def replay(path):
    print(json.dumps(json.load(open(path))["detail"], indent=1)[:3000])
    return 0
