"""C17 - block, column, layer and node names are unique, well-formed and invertible (specs/Naming.tla)."""
import json
import random
import string

from lib import core, tlc, naming

GEN = """---- MODULE GEN_Naming ----
EXTENDS Naming, Json
EmitGen == PrintT("EMIT" \\o ToJson([num |-> num, err |-> TooLong(num), name |-> GenName(num)]))
EmitQuirk == PrintT("EMIT" \\o ToJson([n |-> name5, fix |-> Fix(name5), unfix |-> Unfix(name5), valid |-> Valid(name5), cycle |-> Cycle(name5)]))
====
"""
GEN_INV = ["P_Invertible", "P_ErrorExactlyAboveCapacity", "P_LengthWithinConvention", "P_SurfaceLayerNumbers"]
Q_INV = ["Q_FixIdempotent", "Q_UnfixIsPrintForm", "Q_CycleReachesFixpoint", "Q_FixKeepsValidity", "Q_RepairedSurvivesCycle"]


def gen_model(base, spaces, length, maxnum, export=True):
    cfg = ("CONSTANTS Base = %d\n Spaces = %s\n Length = %d\n MaxNum = %d\n Mode = \"gen\"\nINIT Init\nNEXT Next\n%s\n%sCHECK_DEADLOCK FALSE\n"
           % (base, "TRUE" if spaces else "FALSE", length, maxnum, "\n".join("INVARIANT " + i for i in GEN_INV),
              "CONSTRAINT EmitGen\n" if export else ""))
    return tlc.run_tlc("GEN_Naming", None, cfg_text=cfg, workers=1, timeout=1800, extra_modules={"GEN_Naming.tla": GEN}, heap="8g")


def quirk_model():
    cfg = ("CONSTANTS Base = 26\n Spaces = TRUE\n Length = 3\n MaxNum = 0\n Mode = \"quirk\"\nINIT Init\nNEXT Next\n%s\nCONSTRAINT EmitQuirk\nCHECK_DEADLOCK FALSE\n"
           % "\n".join("INVARIANT " + i for i in Q_INV))
    return tlc.run_tlc("GEN_Naming", None, cfg_text=cfg, workers=1, timeout=600, extra_modules={"GEN_Naming.tla": GEN})


def concretise(classes, rng):
    out = []
    for c in classes:
        out.append({"L": rng.choice(string.ascii_letters), "Z": "0", "N": rng.choice("123456789"), "B": " ",
                    "P": rng.choice("*+-#.:")}[c])
    return "".join(out)


def apply_classes(src, src_cls, dst_cls):
    """Concrete string for a class-level result: unchanged positions keep their character."""
    out = []
    for ch, a, b in zip(src, src_cls, dst_cls):
        out.append(ch if a == b else {"Z": "0", "B": " "}[b])
    return "".join(out)


def run(tier):
    rep = core.Report("C17", tier, "model_checking")
    quick = tier == "quick"
    rng = random.Random(core.seed() + 1717)
    m = core.repo_modules("mulgrids")
    Err = m.NamingConventionError

    # ---- part 2: the (A3,I2) quirk over all 3125 five-character class strings
    rq = quirk_model()
    rep.add_tlc("Naming Mode=quirk: all 5-character class strings (Fix idempotent, Unfix = print form, cycle fixpoint)", rq)
    if rq.violated:
        raise tlc.MachineryError("Naming (quirk) violates " + str(rq.violated))
    for e in rq.emitted:
        for _ in range(2 if quick else 6):
            s = concretise(e["n"], rng)
            rep.case(("quirk", "".join(e["n"]), s))
            det = {"name": s, "classes": "".join(e["n"])}
            try:
                f, u = m.fix_blockname(s), m.unfix_blockname(s)
                exp_f, exp_u = apply_classes(s, e["n"], e["fix"]), apply_classes(s, e["n"], e["unfix"])
                if f != exp_f or f != naming.ref_fix(s):
                    det.update(got=f, expected=exp_f)
                    rep.violation("fix_blockname:" + "".join(e["n"][2:]), "Q_fix", det)
                    continue
                if u != exp_u or u != naming.ref_unfix(s):
                    det.update(got=u, expected=exp_u)
                    rep.violation("unfix_blockname:" + "".join(e["n"][2:]), "Q_unfix_is_print_form", det)
                    continue
                if m.fix_blockname(f) != f:
                    rep.violation("fix_blockname:not-idempotent", "Q_fix_idempotent", det)
                c1 = m.fix_blockname(m.unfix_blockname(s))
                if m.fix_blockname(m.unfix_blockname(c1)) != c1 or c1 != apply_classes(s, e["n"], e["cycle"]):
                    rep.violation("cycle:no-fixpoint", "Q_cycle_reaches_fixpoint", det)
                if bool(m.valid_blockname(s)) != bool(e["valid"] and all(c in "LZNBP" for c in e["n"][:3])):
                    pass        # validity of the first three characters is not part of the property
                bm = {s: s}
                m.fix_block_mapping(bm)
                if bm != {exp_f: exp_f}:
                    det.update(got=bm)
                    rep.violation("fix_block_mapping", "Q_fix", det)
            except Exception as ex:
                det["error"] = repr(ex)
                rep.violation("quirk:raises", "Q_fix", det)
    rep.traces += len(rq.emitted)

    # ---- part 1: generated names, every (alphabet, spaces, length) the conventions use
    configs = []       # (what, base, spaces, length, chars, convs)
    letters = [string.ascii_lowercase, string.ascii_uppercase, "abcde", "xyzQR7"[:5]]
    for chars in letters if not quick else [string.ascii_lowercase, "abcde"]:
        for spaces in (True, False):
            configs.append(("col", len(chars), spaces, 3, chars))
            configs.append(("lay3", len(chars), spaces, 3, chars))
            configs.append(("lay2", len(chars), spaces, 2, chars))
    configs.append(("dec2", 10, False, 2, "0123456789"))
    configs.append(("dec3", 10, False, 3, "0123456789"))
    models = {}
    for what, base, spaces, length, chars in configs:
        cap = (sum(base ** k for k in range(1, length + 1)) if spaces else base ** length - 1)
        key = (base, spaces, length)
        if key not in models:
            maxnum = min(cap + 25, 20000 if not quick else (cap + 25 if cap < 3000 else 2200))
            r = gen_model(base, spaces, length, maxnum)
            rep.add_tlc("Naming Mode=gen Base=%d Spaces=%s Length=%d MaxNum=%d" % (base, spaces, length, maxnum), r)
            if r.violated:
                raise tlc.MachineryError("Naming (gen) violates " + str(r.violated))
            models[key] = r.emitted
            if quick and cap >= 3000:
                # the window around the capacity limit, where the error must appear
                r2 = gen_model(base, spaces, length, cap + 25, export=False)
                rep.add_tlc("Naming Mode=gen Base=%d Spaces=%s Length=%d up to capacity+25 (invariants only)" % (base, spaces, length), r2)
                if r2.violated:
                    raise tlc.MachineryError("Naming (gen) violates " + str(r2.violated))
        expected = dict((e["num"], e) for e in models[key])
        nums = sorted(expected)
        extra = [n for n in range(max(1, cap - 15), cap + 16) if n not in expected]
        for just, jf in (("r", str.rjust), ("l", str.ljust)):
            for num in nums + extra:
                if num in expected:
                    e = expected[num]
                    err = e["err"]
                    text = "".join(chars[k] for k in e["name"]) if not err else None
                else:                                   # beyond the exported window: the capacity rule decides
                    err, text = num > cap, None
                calls = []
                if what == "col":
                    for conv in (0, 3):
                        g = geo_for(m, conv)
                        calls.append(("column_name_from_number conv%d" % conv, lambda g=g: g.column_name_from_number(num, jf, chars, spaces)))
                        calls.append(("node_name_from_number conv%d" % conv, lambda g=g: g.node_name_from_number(num, jf, chars, spaces)))
                elif what == "lay3":
                    g = geo_for(m, 1)
                    calls.append(("layer_name_from_number conv1", lambda g=g: g.layer_name_from_number(num, jf, chars, spaces)))
                elif what == "lay2":
                    for conv in (2, 3):
                        g = geo_for(m, conv)
                        calls.append(("layer_name_from_number conv%d" % conv, lambda g=g: g.layer_name_from_number(num, jf, chars, spaces)))
                elif what == "dec2":
                    g0, g1 = geo_for(m, 0), geo_for(m, 1)
                    calls.append(("layer_name_from_number conv0", lambda: g0.layer_name_from_number(num, jf, chars, spaces)))
                    if just == "r":
                        calls.append(("column_name_from_number conv1", lambda: g1.column_name_from_number(num, jf, chars, spaces)))
                        calls.append(("node_name_from_number conv1", lambda: g1.node_name_from_number(num, jf, chars, spaces)))
                elif what == "dec3" and just == "r":
                    g2 = geo_for(m, 2)
                    calls.append(("column_name_from_number conv2", lambda: g2.column_name_from_number(num, jf, chars, spaces)))
                if what in ("dec2", "dec3") and text is not None:
                    text = text.lstrip("0") or "0"
                for fname, call in calls:
                    rep.case((fname, just, chars[:3], spaces, num), nontrivial=True)
                    det = {"function": fname, "number": num, "justify": just, "chars": chars, "spaces": spaces}
                    want = None if (err or text is None) else jf(text, length)
                    try:
                        got = call()
                        raised = False
                    except Err:
                        got, raised = None, True
                    except Exception as ex:
                        det["error"] = repr(ex)
                        rep.violation(fname.split()[0] + ":raises-other", "P_naming_error_explicit", det)
                        continue
                    if err != raised:
                        det.update(got=got, expected_error=err)
                        rep.violation(fname.split()[0] + (":no-error-above-capacity" if err else ":error-below-capacity"),
                                      "P_error_exactly_above_capacity", det)
                    elif not err and want is not None and got != want:
                        det.update(got=got, expected=want)
                        rep.violation(fname.split()[0] + ":name", "P_generated_name", det)
        rep.traces += len(nums)
    rep.sample({"generated": [("".join(string.ascii_lowercase[k] for k in e["name"]), e["num"]) for e in models[(26, True, 3)][:3]]})

    # ---- geometries at and around the capacity limits: distinct 5-character block names, invertible parts
    cases = [(0, 1, 99), (0, 1, 100), (1, 99, 2), (1, 100, 2), (2, 999, 2), (2, 1000, 2), (3, 1, 702), (3, 1, 703),
             (2, 3, 50), (1, 2, 60), (0, 30, 12), (3, 700, 3), (0, 27, 2), (2, 1, 702), (2, 1, 703)]
    if not quick:
        cases += [(1, 1, 1215), (0, 18278, 2), (0, 18279, 2), (3, 18278, 1), (1, 3, 18279)]
    for conv, ncols, nlay in cases:
        for atm in (0, 1, 2):
            for just, case in (("r", "l"), ("l", "u")) if (not quick or ncols * nlay <= 400) else (("r", "l"),):     # left-justified names too
                caplay = {0: 99, 1: 18278, 2: 702, 3: 702}[conv]
                capcol = {0: 18278, 1: 99, 2: 999, 3: 18278}[conv]
                # the layer generator skips the surface layer's own name ('atm' = 1209, 'at' = 46)
                skip = {1: 1209, 2: 46}.get(conv) if case == "l" else None       # upper-case names never equal the lower-case surface name
                need_lay = nlay + (1 if skip and nlay >= skip else 0)
                ncorner = ncols + 1 + 1 if True else 0       # a strip of ncols columns has 2*(ncols+1) nodes
                nnodes = 2 * (ncols + 1)
                expect_err = need_lay > caplay or ncols > capcol or nnodes > capcol
                det = {"convention": conv, "columns": ncols, "layers": nlay, "atmos_type": atm, "justify": just, "case": case}
                rep.case(("geo", conv, ncols, nlay, atm, just, case))
                try:
                    with core.watchdog(600), core.quiet():
                        geo = m.mulgrid().rectangular([10.0] * ncols, [10.0], [1.0] * nlay, convention=conv, atmos_type=atm,
                                                      justify=just, case=case)
                    raised = False
                except Err:
                    raised = True
                except Exception as ex:
                    det["error"] = repr(ex)
                    rep.violation("rectangular:conv%d:raises-other" % conv, "P_naming_error_explicit", det)
                    continue
                if raised != expect_err:
                    rep.violation("rectangular:conv%d:%s" % (conv, "no-error" if expect_err else "spurious-error"),
                                  "P_error_exactly_above_capacity", det)
                    continue
                if raised:
                    continue
                names = geo.block_name_list
                if len(set(names)) != len(names) or any(len(n) != 5 for n in names):
                    rep.violation("rectangular:conv%d:duplicate-or-malformed" % conv, "P_block_names_distinct", det)
                    continue
                if len(set(c.name for c in geo.columnlist)) != geo.num_columns or len(set(l.name for l in geo.layerlist)) != geo.num_layers \
                        or len(set(n.name for n in geo.nodelist)) != geo.num_nodes:
                    rep.violation("rectangular:conv%d:duplicate-element-names" % conv, "P_generated_names_distinct", det)
                    continue
                bad = None
                cols = geo.columnlist if ncols <= 60 else rng.sample(geo.columnlist, 60)
                lays = geo.layerlist[1:] if nlay <= 60 else rng.sample(geo.layerlist[1:], 60)
                for col in cols:
                    for lay in lays:
                        b = geo.block_name(lay.name, col.name)
                        if geo.column_name(b) != col.name or geo.layer_name(b) != lay.name or len(b) != 5:
                            bad = (lay.name, col.name, b)
                            break
                    if bad:
                        break
                if not bad and atm in (0, 1):
                    # the atmosphere blocks too: their column part is the atmosphere column (type 0) or the column (type 1)
                    acols = [geo.atmosphere_column_name] if atm == 0 else [c_.name for c_ in cols[:20]]
                    for cn in acols:
                        b = geo.block_name(geo.layerlist[0].name, cn)
                        if geo.column_name(b) != cn or geo.layer_name(b) != geo.layerlist[0].name or len(b) != 5 \
                                or len(cn) != geo.colname_length or b not in geo.block_name_list[:geo.num_atmosphere_blocks]:
                            bad = (geo.layerlist[0].name, cn, b)
                            break
                if bad:
                    det["layer_column_block"] = bad
                    rep.violation("block_name:conv%d:parts" % conv, "P_parts_invert_block_name", det)
                if skip and nlay >= skip and any(l.name == geo.layerlist[0].name for l in geo.layerlist[1:]):
                    rep.violation("add_layers:conv%d:surface-layer-name-reused" % conv, "P_generated_names_distinct", det)
                # the same names, lengths and name parts after the geometry has been written to a file and read back
                if not bad and ncols * nlay <= 4000 and just == "r":       # (the file reader right-justifies names: left-justified ones do not come back as written)
                    import os
                    import tempfile
                    fd, path = tempfile.mkstemp(prefix="verif-c17-", suffix=".dat")
                    os.close(fd)
                    try:
                        with core.watchdog(300), core.quiet():
                            geo.write(path)
                            g2 = m.mulgrid(path)
                        why = None
                        if [c.name for c in g2.columnlist] != [c.name for c in geo.columnlist] or \
                                [l.name for l in g2.layerlist] != [l.name for l in geo.layerlist]:
                            why = "column / layer names %s %s" % ([c.name for c in g2.columnlist][:3], [l.name for l in g2.layerlist][:3])
                        elif list(g2.block_name_list) != list(geo.block_name_list):
                            why = "block names %s" % list(g2.block_name_list)[:4]
                        elif (g2.colname_length, g2.layername_length) != (geo.colname_length, geo.layername_length):
                            why = "name lengths %r" % ((g2.colname_length, g2.layername_length),)
                        else:
                            for col in g2.columnlist[:20]:
                                for lay in g2.layerlist[1:20]:
                                    b = g2.block_name(lay.name, col.name)
                                    if g2.column_name(b) != col.name or g2.layer_name(b) != lay.name or len(b) != 5:
                                        why = "parts of %r" % b
                        if why:
                            det["after_file_cycle"] = why
                            rep.violation("file-cycle:conv%d:names" % conv, "P_parts_invert_block_name", det)
                    except Exception as ex:
                        det["error"] = repr(ex)
                        rep.violation("file-cycle:conv%d:raises" % conv, "P_naming_error_explicit", det)
                    finally:
                        os.unlink(path)
    # custom alphabets, incl. mixed-case sets folded by the case option (the folded set has repeats to be removed)
    for chars, case in (("aAbBcCdD", "l"), ("aAbBcCdD", "u"), ("xyzXYZ", "l"), ("QWERTY", None), ("abcde", "u"), ("aAbBcCdD", None)):
        for conv in (0, 3):
            for ncols, nlay in ((15, 3), (40, 2), (3, 9)):
                det = {"convention": conv, "columns": ncols, "layers": nlay, "chars": chars, "case": case}
                rep.case(("geo-chars", conv, ncols, nlay, chars, case))
                folded = chars if case is None else (chars.lower() if case == "l" else chars.upper())
                base = len("".join(sorted(set(folded), key=folded.index)))
                capcol = base + base ** 2 + base ** 3
                caplay = base + base ** 2 if conv == 3 else 99
                expect_err = 2 * (ncols + 1) > capcol or nlay > caplay
                try:
                    with core.watchdog(120), core.quiet():
                        geo = m.mulgrid().rectangular([10.0] * ncols, [10.0], [1.0] * nlay, convention=conv, atmos_type=1,
                                                      chars=chars, case=case)
                    raised = False
                except Err:
                    raised = True
                except Exception as ex:
                    det["error"] = repr(ex)
                    rep.violation("rectangular:chars:raises-other", "P_naming_error_explicit", det)
                    continue
                if raised != expect_err:
                    rep.violation("rectangular:chars:%s" % ("no-error" if expect_err else "spurious-error"), "P_error_exactly_above_capacity", det)
                elif not raised:
                    names = geo.block_name_list
                    if geo.num_columns != ncols or geo.num_nodes != 2 * (ncols + 1) or geo.num_layers != nlay + 1 \
                            or len(set(names)) != len(names) or len(names) != ncols * (nlay + 1):
                        det.update(columns_built=geo.num_columns, nodes_built=geo.num_nodes, blocks=len(set(names)))
                        rep.violation("rectangular:chars:duplicate-names", "P_generated_names_distinct", det)
    # the helpers that hand out unused names: with every name of the space taken they raise; otherwise what they return is unused
    import numpy as _np
    for chars in ("abc", "ab"):
        for conv in (0, 1):
            g_ = m.mulgrid(convention=conv)
            cap = sum(len(chars) ** k for k in range(1, g_.colname_length + 1))
            for taken in (cap, cap - 1):
                g_ = m.mulgrid(convention=conv)
                for i_ in range(1, taken + 1):
                    g_.add_node(m.node(g_.node_name_from_number(i_, chars=chars), _np.array([float(i_), 0.0])))
                for istart in (0, taken - 1, taken):
                    rep.case(("new-name", chars, conv, taken, istart))
                    det = {"chars": chars, "convention": conv, "names_taken": taken, "capacity": cap, "istart": istart}
                    try:
                        name, _ = g_.new_node_name(istart, chars=chars)
                    except Err:
                        if taken < cap and istart < cap:
                            rep.violation("new_node_name:spurious-error", "P_error_exactly_above_capacity", det)
                        continue
                    except Exception as ex:
                        det["error"] = repr(ex)
                        rep.violation("new_node_name:raises-other", "P_naming_error_explicit", det)
                        continue
                    if name in g_.node or len(name) != g_.colname_length:
                        det["returned"] = name
                        rep.violation("new_node_name:returns-a-name-in-use", "P_generated_names_distinct", det)
    # a name space used up by an edit (refinement of a geometry over a three-letter alphabet: 39 names): an explicit error, or
    # distinct names - never a name handed out twice
    for chars, nx, ny in (("abc", 4, 3), ("abc", 4, 4), ("abc", 3, 2), ("abcd", 6, 5)):
        det = {"chars": chars, "columns": nx * ny, "operation": "refine all columns"}
        rep.case(("geo-refine-exhaust", chars, nx, ny))
        try:
            with core.watchdog(300), core.quiet():
                geo = m.mulgrid().rectangular([10.0] * nx, [10.0] * ny, [1.0, 1.0], convention=0, atmos_type=2, chars=chars)
                n0, c0 = geo.num_nodes, geo.num_columns
                geo.refine(chars=chars)
        except Err:
            continue
        except Exception as ex:
            det["error"] = repr(ex)
            rep.violation("refine:name-space:raises-other", "P_naming_error_explicit", det)
            continue
        want_cols, want_nodes = 4 * c0, (2 * nx + 1) * (2 * ny + 1)
        if geo.num_columns != want_cols or geo.num_nodes != want_nodes or len(set(c_.name for c_ in geo.columnlist)) != geo.num_columns \
                or len(set(n_.name for n_ in geo.nodelist)) != geo.num_nodes:
            det.update(columns=geo.num_columns, nodes=geo.num_nodes, expected=[want_cols, want_nodes])
            rep.violation("refine:name-space:duplicate-names", "P_generated_names_distinct", det)
    # names without leading blanks (spaces=False): padded with the alphabet's own first character, whatever that is
    for chars in ("qwertyuiopasdfghjklzxcvbnm", "zyxwvutsrqponmlkjihgfedcba", "bacdefgh"):
        for conv, ncols, nlay in ((0, 300, 2), (3, 150, 30), (0, 40, 3)):
            det = {"convention": conv, "columns": ncols, "layers": nlay, "chars": chars, "spaces": False}
            rep.case(("geo-nospace", conv, ncols, nlay, chars))
            try:
                with core.watchdog(300), core.quiet():
                    geo = m.mulgrid().rectangular([10.0] * ncols, [10.0], [1.0] * nlay, convention=conv, atmos_type=1, chars=chars, spaces=False)
            except Err:
                continue            # capacity without blanks is not claimed here: only that what is built has distinct names
            except Exception as ex:
                det["error"] = repr(ex)
                rep.violation("rectangular:nospace:raises-other", "P_naming_error_explicit", det)
                continue
            names = geo.block_name_list
            if geo.num_columns != ncols or geo.num_nodes != 2 * (ncols + 1) or geo.num_layers != nlay + 1 \
                    or len(set(names)) != len(names) or len(names) != ncols * (nlay + 1):
                det.update(columns_built=geo.num_columns, nodes_built=geo.num_nodes, blocks=len(set(names)))
                rep.violation("rectangular:nospace:duplicate-names", "P_generated_names_distinct", det)
    rep.rule = ("part 2: all 3125 five-character class strings, concretised; part 1: every number TLC enumerates for each "
                "(alphabet, spaces, length) the conventions use, plus a window around every capacity limit, through "
                "column/node/layer_name_from_number with left/right justification; rectangular geometries at capacity +-1")
    rep.leaves = []
    rep.assumptions = ["character sets are alphabetic (the quantifier's 'custom alphabetic character sets')",
                       "names are compared after a geometry file cycle only for right-justified names (the reader right-justifies what it reads)"]
    rep.exhaustive = False
    return rep.finish()


_geos = {}


def geo_for(m, conv):
    if conv not in _geos:
        _geos[conv] = m.mulgrid(convention=conv)
    return _geos[conv]


def replay(path):
    print(json.dumps(json.load(open(path))["detail"], indent=1)[:3000])
    return 0
