"""C01 - TOUGH2 data file write/read round trip preserves the whole model (specs/T2DataFile.tla)."""
import glob
import json
import os
import random
import shutil

from lib import core, tlc, recio, t2dbuild

POOL = r"""
Gen(l, d, e) == [ltab |-> l, delv |-> d, enth |-> e]
Pool == {
  [kind |-> "SIMUL"], [kind |-> "ROCKS", nads |-> <<0, 2, 1>>], [kind |-> "ROCKS", nads |-> <<2>>], [kind |-> "ROCKS", nads |-> <<3, 0>>],
  [kind |-> "PARAM", nts |-> 0, ninc |-> 0], [kind |-> "PARAM", nts |-> 2, ninc |-> 4], [kind |-> "PARAM", nts |-> 1, ninc |-> 5],
  [kind |-> "PARAM", nts |-> 0, ninc |-> 12],
  [kind |-> "MOMOP"], [kind |-> "START"], [kind |-> "NOVER"], [kind |-> "RPCAP"], [kind |-> "MULTI", ncomp |-> 2], [kind |-> "LINEQ"], [kind |-> "SOLVR"],
  [kind |-> "TIMES", n |-> 8], [kind |-> "TIMES", n |-> 9], [kind |-> "SELEC", n |-> 2], [kind |-> "DIFFU", n |-> 2],
  [kind |-> "ELEME", n |-> 3], [kind |-> "CONNE", n |-> 2], [kind |-> "MESHM", n |-> 3], [kind |-> "MESHM", n |-> 4], [kind |-> "MESHM", n |-> 5], [kind |-> "MESHM", n |-> 6],
  [kind |-> "GENER", gens |-> <<Gen(0, FALSE, FALSE), Gen(4, FALSE, TRUE), Gen(5, FALSE, FALSE), Gen(3, TRUE, FALSE), Gen(12, FALSE, TRUE), Gen(1, FALSE, FALSE)>>],
  [kind |-> "SHORT", b |-> 1, c |-> 0, g |-> 2], [kind |-> "SHORT", b |-> 2, c |-> 1, g |-> 0], [kind |-> "FOFT", n |-> 2], [kind |-> "COFT", n |-> 1],
  [kind |-> "GOFT", n |-> 2], [kind |-> "INCON", n |-> 2], [kind |-> "INDOM", n |-> 1]
}
"""
MOD_ENUM = "---- MODULE MC_T2DataFile ----\nEXTENDS T2DataFile, Json\n" + POOL + r"""
Seqs == UNION {[1..n -> Pool] : n \in 0..%d}
MCDocs == {d \in [secs : Seqs, endkw : {"ENDCY", "ENDFI"}] : WF(d)}
Emit == phase # "read" \/ got.secs # <<>> \/ held.k # "none" \/ Len(rest) + 1 # Len(WriteDoc(doc)) \/ PrintT("EMIT" \o ToJson([doc |-> doc, file |-> WriteDoc(doc)]))
====
"""
CFG = 'CONSTANTS Docs <- MCDocs\n Variant = "%s"\nINIT Init\nNEXT Next\nINVARIANT P_NoMisread\nINVARIANT P1_RoundTrip\nINVARIANT P_AllConsumed\nCHECK_DEADLOCK FALSE\n%s'

CANON_ORDER = ["SIMUL", "ROCKS", "PARAM", "MOMOP", "START", "NOVER", "RPCAP", "LINEQ", "SOLVR", "MULTI", "TIMES", "SELEC", "DIFFU",
               "ELEME", "CONNE", "MESHM", "GENER", "SHORT", "FOFT", "COFT", "GOFT", "INCON", "INDOM"]


def enum_model(maxsecs, variant="fixed", export=False, workers=16):
    return tlc.run_tlc("MC_T2DataFile", None, cfg_text=CFG % (variant, "CONSTRAINT Emit\n" if export else ""),
                       workers=1 if export else workers, timeout=3000, heap="16g",
                       extra_modules={"MC_T2DataFile.tla": MOD_ENUM % maxsecs},
                       extra_args=["-maxSetSize", "30000000"])       # (|Pool|^4 passes TLC's default bound of a million elements)


def docs_model(docs):
    """TLC run over explicitly given documents (full-size ones composed by the harness): checks the
    protocol on them and returns their specified record streams."""
    def sec(s):
        items = []
        for k, v in s.items():
            if k == "gens":
                items.append("gens |-> <<%s>>" % ", ".join("Gen(%d, %s, %s)" % (g["ltab"], "TRUE" if g["delv"] else "FALSE",
                                                                              "TRUE" if g["enth"] else "FALSE") for g in v))
            elif k == "nads":
                items.append("nads |-> <<%s>>" % ", ".join(str(x) for x in v))
            elif isinstance(v, str):
                items.append('%s |-> "%s"' % (k, v))
            else:
                items.append("%s |-> %d" % (k, v))
        return "[" + ", ".join(items) + "]"
    body = ",\n  ".join('[secs |-> <<%s>>, endkw |-> "%s"]' % (", ".join(sec(s) for s in d["secs"]), d["endkw"]) for d in docs)
    mod = "---- MODULE MC_T2DataFile ----\nEXTENDS T2DataFile, Json\nGen(l, d, e) == [ltab |-> l, delv |-> d, enth |-> e]\nMCDocs == {\n  " + body + \
          "\n}\nEmit == phase # \"read\" \\/ got.secs # <<>> \\/ held.k # \"none\" \\/ Len(rest) + 1 # Len(WriteDoc(doc)) \\/ " \
          "PrintT(\"EMIT\" \\o ToJson([doc |-> doc, file |-> WriteDoc(doc)]))\n====\n"
    return tlc.run_tlc("MC_T2DataFile", None, cfg_text=CFG % ("fixed", "CONSTRAINT Emit\n"), workers=1, timeout=1800, heap="8g",
                       extra_modules={"MC_T2DataFile.tla": mod})


def wf(kinds, secs=None):
    def before(a, b):
        return b not in kinds or (a in kinds and kinds.index(a) < kinds.index(b))
    n = dict((s["kind"], s.get("n", 0)) for s in (secs or []))
    if "SIMUL" in kinds and any(k in kinds and kinds.index(k) < kinds.index("SIMUL") for k in ("PARAM", "MULTI")):
        return False
    if n.get("ELEME", 1) > 0 and not before("ROCKS", "ELEME"):
        return False
    if n.get("CONNE", 1) > 0 and not before("ELEME", "CONNE"):
        return False
    return before("MULTI", "DIFFU") and \
        all(before("ELEME", k) and before("CONNE", k) for k in ("SHORT", "FOFT", "COFT", "GOFT")) and before("GENER", "SHORT")


OPTIONAL = [
    {"kind": "SIMUL"}, {"kind": "ROCKS", "nads": [0, 2, 1]}, {"kind": "ROCKS", "nads": [2]}, {"kind": "ROCKS", "nads": [3, 0]}, {"kind": "MOMOP"}, {"kind": "START"},
    {"kind": "NOVER"}, {"kind": "RPCAP"}, {"kind": "MULTI", "ncomp": 2}, {"kind": "LINEQ"}, {"kind": "SOLVR"}, {"kind": "TIMES", "n": 8},
    {"kind": "TIMES", "n": 9}, {"kind": "SELEC", "n": 2}, {"kind": "MESHM", "n": 3}, {"kind": "MESHM", "n": 4}, {"kind": "MESHM", "n": 5}, {"kind": "MESHM", "n": 6},
    {"kind": "GENER", "gens": [{"ltab": 0, "delv": False, "enth": False}, {"ltab": 4, "delv": False, "enth": True},
                               {"ltab": 5, "delv": False, "enth": False}, {"ltab": 3, "delv": True, "enth": False},
                               {"ltab": 12, "delv": False, "enth": True}, {"ltab": 1, "delv": False, "enth": False}]},
    {"kind": "INDOM", "n": 1}]
PARAMS = [{"kind": "PARAM", "nts": 0, "ninc": 0}, {"kind": "PARAM", "nts": 2, "ninc": 4}, {"kind": "PARAM", "nts": 1, "ninc": 5},
          {"kind": "PARAM", "nts": 0, "ninc": 12}]


def small_docs(rng, limit):
    """Every legal order of the three sections a data object always has (PARAM, ELEME, CONNE) plus one optional
    section (two for MULTI+DIFFU), x PARAM shapes x end keyword."""
    import itertools
    docs = []
    extras = [[o] for o in OPTIONAL] + [[{"kind": "MULTI", "ncomp": 2}, {"kind": "DIFFU", "n": 2}], []]
    for ex in extras:
        for p in PARAMS:
            base = [p, {"kind": "ELEME", "n": 0}, {"kind": "CONNE", "n": 0}] + ex
            if any(s["kind"] in ("ROCKS",) for s in ex):
                base[1], base[2] = {"kind": "ELEME", "n": 3}, {"kind": "CONNE", "n": 2}
            for perm in itertools.permutations(base):
                kinds = [s["kind"] for s in perm]
                if wf(kinds, perm):
                    docs.append({"secs": list(perm), "endkw": "ENDCY" if len(docs) % 2 else "ENDFI"})
    rng.shuffle(docs)
    return docs[:limit]


def random_full_doc(rng, autough2):
    shapes = {"ROCKS": {"nads": [rng.choice([0, 1, 2, 2, 3, 5]) for _ in range(rng.randint(1, 3))]},
              "PARAM": {"nts": rng.choice([0, 1, 2]), "ninc": rng.choice([0, 1, 3, 4, 5, 8, 9, 12])},
              "MULTI": {"ncomp": 2}, "TIMES": {"n": rng.choice([1, 7, 8, 9, 16, 17])}, "SELEC": {"n": rng.choice([1, 2, 3])},
              "DIFFU": {"n": 2}, "ELEME": {"n": rng.randint(2, 6)}, "CONNE": {"n": rng.randint(1, 5)}, "MESHM": {"n": rng.choice([3, 4, 5, 6])},
              "GENER": {"gens": [{"ltab": rng.choice([0, 1, 2, 4, 5, 8, 9, 12]), "delv": False, "enth": rng.random() < 0.5}
                                 for _ in range(rng.randint(1, 4))] + [{"ltab": 3, "delv": True, "enth": False}]},
              "SHORT": {"b": rng.randint(0, 2), "c": rng.randint(0, 1), "g": rng.randint(0, 2)},
              "FOFT": {"n": 2}, "COFT": {"n": 1}, "GOFT": {"n": 2}, "INCON": {"n": 2}, "INDOM": {"n": 1}}
    for g in shapes["GENER"]["gens"]:
        if g["ltab"] <= 1:
            g["enth"] = False
    if shapes["SHORT"]["b"] + shapes["SHORT"]["c"] + shapes["SHORT"]["g"] == 0:
        shapes["SHORT"]["b"] = 1
    shapes["CONNE"]["n"] = min(shapes["CONNE"]["n"], shapes["ELEME"]["n"] - 1)
    kinds = [k for k in CANON_ORDER if (k != "SIMUL" or autough2) and (rng.random() < 0.75 or k in ("PARAM", "ELEME", "CONNE"))]
    if "DIFFU" in kinds and "MULTI" not in kinds:
        kinds.remove("DIFFU")
    for k in ("SHORT", "FOFT", "COFT", "GOFT", "INCON"):
        if k in kinds and "ROCKS" not in kinds:
            kinds.remove(k)
    if "ROCKS" not in kinds:
        shapes["ELEME"]["n"], shapes["CONNE"]["n"] = 0, 0
    if "SHORT" in kinds and shapes["SHORT"]["g"] > 0 and "GENER" not in kinds:
        shapes["SHORT"]["g"] = 0
        shapes["SHORT"]["b"] = max(1, shapes["SHORT"]["b"])
    if "INDOM" in kinds and "ROCKS" not in kinds:
        kinds.remove("INDOM")
    if "ELEME" in kinds and "CONNE" not in kinds:
        kinds.insert(kinds.index("ELEME") + 1, "CONNE")        # the grid always has both sections
    if "SIMUL" in kinds:
        kinds.remove("SIMUL")
        kinds.insert(0, "SIMUL")
    for _ in range(20):                                        # a legal random order (SIMUL first: it selects the flavour)
        perm = kinds[:]
        if rng.random() < 0.6:
            head = perm[:1] if perm[:1] == ["SIMUL"] else []
            tail = perm[len(head):]
            rng.shuffle(tail)
            perm = head + tail
        if wf(perm, [dict(kind=k, **shapes.get(k, {})) for k in perm]):
            kinds = perm
            break
    return {"secs": [dict(kind=k, **shapes.get(k, {})) for k in kinds], "endkw": rng.choice(["ENDCY", "ENDFI"])}


def strip_trailing(b):
    return b"\n".join(l.rstrip() for l in b.split(b"\n"))


def cycle(rep, tracer, work, dat, doc, spec_stream, key, det, mesh=None, xp=None):
    """write / read / write / read / write with the real code; compares content and bytes."""
    t2data = core.repo_modules("t2data")
    d = os.path.join(work, "c")
    shutil.rmtree(d, ignore_errors=True)
    os.makedirs(d)
    f = [os.path.join(d, "m%d.dat" % i) for i in range(1, 4)]
    meshname = None
    if mesh == "ascii":
        meshname = os.path.join(d, "MESH")
    elif mesh == "binary":
        meshname = [os.path.join(d, "MESHA"), os.path.join(d, "MESHB")]
    kw = {}
    if xp is not None:
        kw = {"extra_precision": xp[0], "echo_extra_precision": xp[1]}
    try:
        if mesh is not None and len(dat.grid.rocktypelist) >= 2:
            # an edited model: the first rock type renamed and renamed back - the same model, with the rock type lookup's
            # order no longer that of the rock type list (the order ROCKS is written in)
            r0 = dat.grid.rocktypelist[0].name
            dat.grid.rename_rocktype(r0, "~tmp~")
            dat.grid.rename_rocktype("~tmp~", r0)
        before = t2dbuild.canon(dat, binary_mesh=False)
        intended = list(dat._sections)
        tracer.record()
        with core.quiet():
            dat.write(f[0], meshfilename=meshname or '', **kw)
        ev = tracer.stop()
        objs, files = [dat], [open(f[0], "rb").read()]
        for i in (1, 2):
            with core.watchdog(60), core.quiet():
                o = t2data.t2data(f[i - 1], meshfilename=(meshname or ''))
            objs.append(o)
            # every cycle uses its own mesh / pdat names so that files of different cycles can be compared
            with core.quiet():
                o.write(f[i], meshfilename=meshname or '')
            files.append(open(f[i], "rb").read())
        with core.watchdog(60), core.quiet():
            objs.append(t2data.t2data(f[2], meshfilename=(meshname or '')))
    except core.Hang:
        rep.violation(key + ":hang", "P_reader_terminates", det)
        return
    except Exception as e:
        det["error"] = repr(e)
        rep.violation(key + ":raises", "P1_round_trip", det)
        return
    binm = mesh == "binary"
    want = t2dbuild.canon(dat, binary_mesh=binm, sections=intended)
    if mesh:
        want["sections"] = [k for k in want["sections"]]
    for n, o in enumerate(objs[1:], 1):
        have = t2dbuild.canon(o, binary_mesh=binm)
        w = dict(want)
        if mesh or xp:
            # with side files the main file's section list is a matter of bookkeeping; content is what counts
            have.pop("sections")
            w.pop("sections")
        diff = t2dbuild.first_difference(w, have)
        if diff:
            det["difference"] = diff
            det["after_cycle"] = n
            rep.violation(key + ":content", "P1_same_content_after_read", det)
            return
    if strip_trailing(files[0]) != strip_trailing(files[1]):
        det["difference"] = first_line_diff(files[0], files[1], True)
        rep.violation(key + ":second-write", "P2_second_write_reproduces_first", det)
        return
    if files[1] != files[2]:
        det["difference"] = first_line_diff(files[1], files[2])
        rep.violation(key + ":third-write", "P3_further_cycles_byte_identical", det)
        return
    if spec_stream is not None and not mesh and not xp:
        got = t2dbuild.abstract_stream(ev, os.path.basename(f[0]))
        exp = t2dbuild.collapse([dict(r) for r in spec_stream])
        if got != exp:
            k = next((i for i, (x, y) in enumerate(zip(got, exp)) if x != y), min(len(got), len(exp)))
            rep.drifted("record stream differs from T2DataFile's at record %d (%s vs %s) for %s (round trip holds)"
                        % (k, got[k] if k < len(got) else None, exp[k] if k < len(exp) else None, key))


def first_line_diff(a, b, stripped=False):
    la, lb = a.split(b"\n"), b.split(b"\n")
    if stripped:
        la, lb = [x.rstrip() for x in la], [x.rstrip() for x in lb]
    for i, (x, y) in enumerate(zip(la, lb)):
        if x != y:
            return "line %d: %r vs %r" % (i + 1, x[:90], y[:90])
    return "length %d vs %d lines" % (len(la), len(lb))


def run(tier):
    rep = core.Report("C01", tier, "model_checking")
    quick = tier == "quick"
    rng = random.Random(core.seed() + 101)
    tracer = recio.RecordTracer()
    work = tlc.scratch_dir("c01-")
    t2data = core.repo_modules("t2data")
    try:
        # ---- MC
        rn = enum_model(2, "pinned")
        rep.add_tlc("T2DataFile Variant=pinned, <=2 sections (negative configuration: PARAM continuation swallows the end keyword)",
                    rn, note="violates: %s" % rn.violated)
        if not rn.violated:
            raise tlc.MachineryError("negative configuration did not fail")
        r = enum_model(3 if quick else 4, "fixed")
        rep.add_tlc("T2DataFile Variant=fixed: every legal order of <=%d sections from the pool x end keyword: round trip, no misread, all consumed"
                    % (3 if quick else 4), r)
        if r.violated:
            raise tlc.MachineryError("T2DataFile violates %s: %s" % (r.violated, "".join(r.trace[:1])[:600]))
        tracer.install()
        # ---- S2C (a): every legal order of the always-present sections plus one optional section
        small = small_docs(rng, 300 if quick else 100000)
        rs = docs_model(small)
        rep.add_tlc("T2DataFile on %d small documents (PARAM+ELEME+CONNE + one optional section, every legal order)" % len(small), rs)
        if rs.violated:
            raise tlc.MachineryError("T2DataFile violates %s on a small document: %s" % (rs.violated, "".join(rs.trace[:1])[:800]))
        docs = [(e["doc"], e["file"]) for e in rs.emitted]
        # ---- S2C (b): full-size documents composed by the harness, streams specified by TLC
        full = [random_full_doc(rng, autough2=(i % 2 == 0)) for i in range(60 if quick else 600)]
        rf = docs_model(full)
        rep.add_tlc("T2DataFile on %d full-size documents (random legal section subsets and orders)" % len(full), rf)
        if rf.violated:
            raise tlc.MachineryError("T2DataFile violates %s on a composed document: %s" % (rf.violated, "".join(rf.trace[:1])[:800]))
        docs += [(e["doc"], e["file"]) for e in rf.emitted]
        n = 0
        for doc, stream in docs:
            kinds = [s["kind"] for s in doc["secs"]]
            flavour = "AUTOUGH2" if "SIMUL" in kinds else "TOUGH2"
            key = "%s:%s" % (flavour, "+".join(kinds) if len(kinds) <= 3 else "full")
            det = {"doc": doc, "flavour": flavour}
            rep.case(json.dumps(doc, sort_keys=True))
            n += 1
            dat = t2dbuild.build(doc, flavour, rng)
            cycle(rep, tracer, work, dat, doc, stream, key, det)
            # SHORT resolves its entries against the grid while reading (no fall-back to names): it needs the mesh in the main
            # file; FOFT / COFT / GOFT keep names when the mesh comes from a separate file
            has_mesh = "ELEME" in kinds and "CONNE" in kinds and "SHORT" not in kinds
            if has_mesh and len(kinds) > 3:
                dat = t2dbuild.build(doc, flavour, rng)
                cycle(rep, tracer, work, dat, doc, None, key + ":MESH", dict(det, mesh="MESH file"), mesh="ascii")
                dat = t2dbuild.build(doc, flavour, rng)
                if all(b.centre is not None for b in dat.grid.blocklist) or True:
                    for b in dat.grid.blocklist:
                        if b.centre is None:
                            import numpy as np
                            b.centre = np.array([1.0, 2.5, -12.5])
                    cycle(rep, tracer, work, dat, doc, None, key + ":MESHA+MESHB", dict(det, mesh="MESHA+MESHB"), mesh="binary")
            if flavour == "AUTOUGH2" and len(kinds) > 3 and any(k in kinds for k in ("ROCKS", "ELEME", "GENER", "RPCAP")):
                for xp in ((True, True), (True, False), (["ROCKS", "GENER"], False)):
                    dat = t2dbuild.build(doc, flavour, rng)
                    cycle(rep, tracer, work, dat, doc, None, key + ":pdat:%s" % ("echo" if xp[1] else "noecho"),
                          dict(det, extra_precision=str(xp)), xp=xp)
            if n <= 2:
                rep.sample({"doc": doc, "stream": [x.get("name", x["k"]) for x in stream][:20]})
        rep.traces += n
        rep.extra["documents_cycled"] = n
        # ---- shipped data files
        shipped = sorted(glob.glob(os.path.join(core.REPO, "tests", "data", "**", "*"), recursive=True))
        nship = 0
        for f in shipped:
            if not os.path.isfile(f) or f.lower().endswith((".pdat", ".npy", ".json")) or os.path.basename(f).startswith(("MESH", "mesh")):
                continue
            rel = os.path.relpath(f, os.path.join(core.REPO, "tests", "data"))
            d = os.path.join(work, "s")
            shutil.rmtree(d, ignore_errors=True)
            os.makedirs(d)
            base = os.path.basename(f)
            for side in glob.glob(os.path.join(os.path.dirname(f), "*")):
                if os.path.isfile(side):
                    shutil.copy(side, d)
            det = {"file": rel}
            try:
                mesh = ''
                if os.path.exists(os.path.join(d, "MESHA")) and os.path.exists(os.path.join(d, "MESHB")) and "MP" in rel:
                    mesh = [os.path.join(d, "MESHA"), os.path.join(d, "MESHB")]
                with core.watchdog(120), core.quiet():
                    a = t2data.t2data(os.path.join(d, base), meshfilename=mesh)
                    p1, p2, p3 = (os.path.join(d, "w%d_%s" % (i, base)) for i in (1, 2, 3))
                    a.write(p1, meshfilename=mesh)
                    b = t2data.t2data(p1, meshfilename=mesh)
                    b.write(p2, meshfilename=mesh)
                    c = t2data.t2data(p2, meshfilename=mesh)
                    c.write(p3, meshfilename=mesh)
            except core.Hang:
                rep.violation("shipped:%s:hang" % rel, "P_reader_terminates", det)
                continue
            except Exception as e:
                rep.drifted("shipped file %s not cycled: %r" % (rel, e))
                continue
            nship += 1
            rep.case(("shipped", rel))
            binm = bool(mesh)
            # the shipped file may hold more digits than the writer's formats carry: original vs re-read to the
            # coarsest field (10.3e: four significant digits), re-read vs re-re-read exactly
            diff = t2dbuild.first_difference(t2dbuild.canon(a, binm), t2dbuild.canon(b, binm), rtol=1.0e-3) or \
                t2dbuild.first_difference(t2dbuild.canon(b, binm), t2dbuild.canon(c, binm))
            if diff:
                det["difference"] = diff
                rep.violation("shipped:%s:content" % rel, "P1_same_content_after_read", det)
            elif strip_trailing(open(p1, "rb").read()) != strip_trailing(open(p2, "rb").read()):
                det["difference"] = first_line_diff(open(p1, "rb").read(), open(p2, "rb").read(), True)
                rep.violation("shipped:%s:second-write" % rel, "P2_second_write_reproduces_first", det)
            elif open(p2, "rb").read() != open(p3, "rb").read():
                rep.violation("shipped:%s:third-write" % rel, "P3_further_cycles_byte_identical", det)
        rep.extra["shipped_files_cycled"] = nship
        rep.traces += nship
    finally:
        tracer.uninstall()
        shutil.rmtree(work, ignore_errors=True)
    rep.rule = ("(a) every legal order of <= 2 sections from a pool of 31 section shapes x end keyword, (b) random full-size documents "
                "(legal subsets and orders of all 23 kinds; table generators with 1..12 times with/without enthalpy; 0..12 default "
                "initial conditions; list lengths on both sides of the 4- and 8-per-line boundaries); each built through the public "
                "API with exactly representable values, written, read, written, read, written; mesh in file / MESH / MESHA+MESHB; "
                "extra precision on / echoed / partial; plus the shipped data files; distinct = document")
    rep.leaves = ["objects compared through a canonical form: None == absent key, strings stripped, trailing None trimmed, objects in "
                  "SHORT/FOFT/COFT/GOFT by the names they resolve to; binary mesh files: None == 0.0 for ahtx/pmx/sigma, no sequence numbers"]
    rep.assumptions = ["values are exactly representable in their fields (C02 covers the width lattice)",
                       "INCON/INDOM entries hold at most 4 values (one record, as both writer and reader assume)",
                       "records emitted by an independent Fortran-style writer are not covered"]
    rep.exhaustive = False
    return rep.finish()


def replay(path):
    print(json.dumps(json.load(open(path))["detail"], indent=1)[:4000])
    return 0
