"""C09 - reordering, renaming and MINC keep the physics (specs/T2Grid.tla, PhysSig)."""
from lib import gridcheck


def run(tier):
    return gridcheck.run("C09", tier)


def replay(path):
    return gridcheck.replay("C09", path)
