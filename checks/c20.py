"""C20 - flavour conversion and Waiwera export keep the model, drop only what they say
(specs/Convert.tla, specs/WaiweraExport.tla)."""
import copy
import json
import os
import random
import shutil

import numpy as np

from lib import core, tlc, t2dbuild

MOPS = [10, 12, 14, 17, 20, 21, 22, 23, 24, 1]
REQ = ("b", "c", "g")
TYPE_OF = {"sup": "MASS", "conv": "CO2 ", "unsup": "DELG", "converted": "COM2"}
# every generator type of each class (TOUGH2 has HEAT, WATE, AIR, MASS, DELV and the COMn; CO2 becomes COM2; the rest go)
TYPES_OF = {"sup": ["MASS", "HEAT", "WATE", "AIR ", "DELV", "COM1", "COM3"], "conv": ["CO2 "],
            "unsup": ["DELG", "RECH", "FEED", "DELS", "DMAK"], "converted": ["COM2"]}
CLS_OF = {"CO2 ": "conv", "COM2": "converted"}
for _c in ("sup", "unsup"):
    for _t in TYPES_OF[_c]:
        CLS_OF[_t] = _c


def tla_model(m):
    def req(r):
        return '[k \\in {"b", "c", "g"} |-> IF k = "b" THEN %d ELSE IF k = "c" THEN %d ELSE %d]' % (r["b"], r["c"], r["g"])
    gens = "<<" + ", ".join('[key |-> %d, cls |-> "%s"]' % (g["key"], g["cls"]) for g in m["gens"]) + ">>"
    mop = "[p \\in Mops |-> CASE " + " [] ".join("p = %d -> %d" % (p, m["mop"][str(p)]) for p in MOPS) + "]"
    b = lambda x: "TRUE" if x else "FALSE"
    return ('[flav |-> "%s", simul |-> %s, oldsim |-> %s, multi |-> %s, eos |-> %s, lineq |-> %s, lineqtype |-> %d, solvr |-> %s, '
            'mop |-> %s, condscaled |-> FALSE, gens |-> %s, lookup |-> LookupOf(%s), short |-> %s, hist |-> %s]'
            % (m["flav"], b(m["simul"]), b(m["oldsim"]), b(m["multi"]), b(m["eos"]), b(m["lineq"]), m["lineqtype"], b(m["solvr"]),
               mop, gens, gens, req(m["short"]), req(m["hist"])))


def random_model(rng):
    aut = rng.random() < 0.6
    mop = dict((str(p), 0) for p in MOPS)
    mop["1"] = 7
    for p in rng.sample(MOPS[:-1], rng.randint(0, 3)):
        mop[str(p)] = rng.choice([1, 2, 3, 5, 9])
    ngen = rng.randint(0, 4)
    classes = ["sup", "conv", "unsup"] if aut else ["sup"]
    gens = [{"key": rng.randint(1, 2), "cls": rng.choice(classes)} for _ in range(ngen)]
    nsup = len(gens)
    r0 = {"b": 0, "c": 0, "g": 0}
    req = {"b": rng.randint(0, 2), "c": rng.randint(0, 1), "g": min(rng.randint(0, 2), nsup)}
    multi = rng.random() < 0.6
    return {"flav": "AUTOUGH2" if aut else "TOUGH2", "simul": aut, "oldsim": aut and rng.random() < 0.3, "multi": multi,
            "eos": aut and multi, "lineq": aut and rng.random() < 0.6, "lineqtype": rng.choice([1, 2]),
            "solvr": (not aut) and rng.random() < 0.5, "mop": mop, "gens": gens,
            # an AUTOUGH2 model may also carry history requests, typically of the kinds its SHORT section lacks
            "short": req if aut else dict(r0),
            "hist": ({"b": rng.choice([0, 0, 1, 2]), "c": rng.choice([0, 0, 1]), "g": min(rng.choice([0, 0, 1]), nsup)} if aut else req)}


def conv_model(models, maxsteps):
    mod = ("---- MODULE MC_Convert ----\nEXTENDS Convert, Json\nMCModels == {\n  " + ",\n  ".join(tla_model(m) for m in models) + "\n}\n"
           "Abs(x) == [flav |-> x.flav, simul |-> x.simul, oldsim |-> x.oldsim, multi |-> x.multi, eos |-> x.eos, lineq |-> x.lineq, "
           "lineqtype |-> x.lineqtype, solvr |-> x.solvr, mop |-> [p \\in Mops |-> x.mop[p]], condscaled |-> x.condscaled, gens |-> x.gens, "
           "lookup |-> {<<k, x.lookup[k]>> : k \\in DOMAIN x.lookup}, short |-> x.short, hist |-> x.hist]\n"
           "EmitStep == PrintT(\"EMIT\" \\o ToJson([pre |-> Abs(m), act |-> last', post |-> Abs(m'), first |-> (steps = 0)]))\n====\n")
    cfg = ("CONSTANTS Models <- MCModels\n MaxSteps = %d\nINIT Init\nNEXT Next\nINVARIANT P1_DeclaresFlavour\nINVARIANT P2_NothingForeign\n"
           "INVARIANT P3_NoUnsupportedGenerators\nINVARIANT P_UntouchedDigit\nPROPERTY P4_RequestsMove\nACTION_CONSTRAINT EmitStep\nCHECK_DEADLOCK FALSE\n" % maxsteps)
    return tlc.run_tlc("MC_Convert", None, cfg_text=cfg, workers=1, timeout=1800, heap="8g", extra_modules={"MC_Convert.tla": mod})


def build_real(m, rng):
    """A real t2data in the abstract state m."""
    t2data, t2grids, mulgrids = core.repo_modules("t2data", "t2grids", "mulgrids")
    with core.quiet():
        geo = mulgrids.mulgrid().rectangular([10.0, 20.0], [10.0], [5.0, 5.0], atmos_type=2)
        dat = t2data.t2data()
        dat.grid = t2grids.t2grid().fromgeo(geo)
    dat.title = "conversion model"
    r2 = t2grids.rocktype("rock2", 0, 2500.0, 0.125, [1.0e-15] * 3, 2.5, 1000.0)
    dat.grid.add_rocktype(r2)
    dat.grid.blocklist[1].rocktype = r2
    blks = dat.grid.blocklist
    if m["simul"]:
        dat.simulator = ("AUTOUGH2" if m["oldsim"] else "AUTOUGH2.2") + "EW"
    if m["multi"]:
        dat.multi = {"num_components": 1, "num_equations": 2, "num_phases": 2, "num_secondary_parameters": 6}
        if m["eos"]:
            dat.multi["eos"] = "EW"
    if m["lineq"]:
        dat.lineq = {"type": m["lineqtype"], "epsilon": 1.0e-11, "max_iterations": 999, "gauss": 1, "num_orthog": 100}
    if m["solvr"]:
        dat.solver = {"type": 5, "z_precond": "Z1", "o_precond": "O0", "relative_max_iterations": 0.125, "closure": 1.0e-6}
    for p in MOPS:
        dat.parameter["option"][p] = m["mop"][str(p)]
    dat.parameter.update({"max_timesteps": 99, "tstop": 1.0e6, "const_timestep": 1.0e3, "timestep": [1.0e3], "gravity": 9.875,
                          "default_incons": [1.013e5, 12.5]})
    keys = {1: (blks[0].name, "gen 1"), 2: (blks[2].name, "gen 2")}
    for i, g in enumerate(m["gens"]):
        blk, name = keys[g["key"]]
        dat.add_generator(t2data.t2generator(name=name, block=blk, type=TYPES_OF[g["cls"]][(i + len(m["gens"]) + m["mop"]["10"]) % len(TYPES_OF[g["cls"]])],
                                             gx=1.0 + i, ex=1.0e5,
                                             hg=(2.5 if g["cls"] == "unsup" else None)))
    rq = m["short"] if m["flav"] == "AUTOUGH2" else m["hist"]
    bl = [blks[i] for i in range(rq["b"])]
    cl = [dat.grid.connectionlist[i] for i in range(rq["c"])]
    gl = dat.generatorlist[:rq["g"]]
    if m["flav"] == "AUTOUGH2":
        so = {}
        if bl:
            so["block"] = bl
        if cl:
            so["connection"] = cl
        if gl:
            so["generator"] = gl
        if so or rng.random() < 0.3:
            so["frequency"] = 5
        dat.short_output = so
        h = m["hist"]
        dat.history_block = [blks[-1 - i] for i in range(h["b"])]
        dat.history_connection = [dat.grid.connectionlist[-1 - i] for i in range(h["c"])]
        dat.history_generator = [dat.grid.block[g.block] for g in dat.generatorlist[::-1][:h["g"]]]
    else:
        dat.history_block, dat.history_connection = bl, cl
        # generator history requests as block objects, or as bare names (what reading a file whose mesh is elsewhere gives)
        dat.history_generator = [dat.grid.block[g.block] for g in gl] if rng.random() < 0.5 else [g.block for g in gl]
        if rng.random() < 0.4:
            # requests that convert to nothing (the documentation: "items referring to blocks or connections not present in
            # the grid are discarded"): a name that is not in the grid, and a generator request for a block without generators
            dat.history_block = dat.history_block + ["zz 99"]
            dat.history_connection = dat.history_connection + [("zz 98", "zz 99")]
            dat.history_generator = dat.history_generator + [blks[1].name]
            dat.unconvertible_requests = True
    return dat


def project(dat, cond0):
    ps = dat.present_sections
    gens = []
    keyof = {}
    for g in dat.generatorlist:
        k = 1 if g.name.strip().endswith("1") else 2
        gens.append({"key": k, "cls": CLS_OF.get(g.type, "other:" + g.type)})
    lookup = sorted([1 if k[1].strip().endswith("1") else 2, CLS_OF.get(v.type, "other:" + v.type)] for k, v in dat.generator.items())
    so = dat.short_output
    short = {"b": len(so.get("block", [])), "c": len(so.get("connection", [])), "g": len(so.get("generator", []))}
    hist = {"b": len(dat.history_block), "c": len(dat.history_connection), "g": len(dat.history_generator)}
    cond = [r.conductivity for r in dat.grid.rocktypelist]
    scaled = any(abs(c - c0) > 1e-12 for c, c0 in zip(cond, cond0))
    return {"flav": dat.type, "simul": bool(dat.simulator), "eos": bool(dat.multi.get("eos")) if dat.multi else False,
            "lineq": "LINEQ" in ps, "solvr": "SOLVR" in ps, "mop": dict((str(p), int(dat.parameter["option"][p])) for p in MOPS),
            "gens": gens, "lookup": lookup, "short": short, "hist": hist, "condscaled": scaled,
            "short_present": "SHORT" in ps, "foft": "FOFT" in ps, "goft": "GOFT" in ps}


def check_conversion(rep, pre, act, post, rng, work):
    """Replays one transition of Convert.tla on the real object and evaluates the clauses of C20."""
    t2data = core.repo_modules("t2data")
    dat = build_real(pre, rng)
    cond0 = [r.conductivity for r in dat.grid.rocktypelist]
    grid0 = ([b.name for b in dat.grid.blocklist], [float(b.volume) for b in dat.grid.blocklist],
             [tuple(b.name for b in c.block) for c in dat.grid.connectionlist])
    rocks0 = [(r.name, r.density, r.porosity, list(r.permeability), r.specific_heat) for r in dat.grid.rocktypelist]
    gens0 = [(g.block, g.name, g.type, g.gx, g.ex) for g in dat.generatorlist]
    genblocks = set(g.block for g in dat.generatorlist)
    req0 = {"b": [b.name for b in (dat.short_output.get("block", []) or dat.history_block) if not isinstance(b, str)],
            "c": [tuple(x.name for x in c.block) for c in (dat.short_output.get("connection", []) or dat.history_connection) if not isinstance(c, tuple)],
            # (a kind present in SHORT replaces the history requests of that kind, as Convert.tla says: IF short > 0 THEN short ELSE hist)
            "g": sorted(set(g.block for g in dat.short_output["generator"]) if dat.short_output.get("generator") else set((b if isinstance(b, str) else b.name) for b in dat.history_generator) & genblocks)}
    to_t = act["op"] == "to_TOUGH2"
    key = "%s:%s" % (act["op"], "MP" if act["mp"] else "std")
    det = {"pre": pre, "act": act}
    try:
        with core.quiet():
            if rng.random() < 0.3 and not act["mp"]:
                dat.type = "TOUGH2" if to_t else "AUTOUGH2"          # the property setter runs the same conversion
            elif to_t:
                dat.convert_to_TOUGH2(warn=False, MP=act["mp"])
            else:
                # the EOS asked for is the one the converted model names, whatever its MULTI section said before
                want_eos = rng.choice(["EW", "EWC", "EWAV"])
                if dat.multi and rng.random() < 0.5:
                    dat.multi["eos"] = "EW"
                dat.convert_to_AUTOUGH2(warn=False, MP=act["mp"], eos=want_eos)
                if not dat.simulator.strip().endswith(want_eos) or (dat.multi and dat.multi.get("eos") != want_eos):
                    det["requested_eos"], det["simulator"], det["multi_eos"] = want_eos, dat.simulator, (dat.multi or {}).get("eos")
                    rep.violation(key + ":requested-eos", "P1_declares_flavour", det)
                    return
    except Exception as e:
        det["error"] = repr(e)
        rep.violation(key + ":raises", "P_conversion_completes", det)
        return
    got = project(dat, cond0)
    det["got"] = got
    bad = None
    if got["flav"] != ("TOUGH2" if to_t else "AUTOUGH2"):
        bad = ("flavour", "P1_declares_flavour")
    elif to_t and (got["simul"] or got["lineq"] or got["eos"] or got["short_present"]):
        bad = ("autough2-specific-left", "P2_nothing_foreign")
    elif (not to_t) and (got["solvr"] or not got["lineq"] or not got["simul"] or (pre["multi"] and not got["eos"])):
        bad = ("tough2-specific-left", "P2_nothing_foreign")
    elif to_t and any(g["cls"] not in ("sup", "converted") for g in got["gens"]):
        bad = ("unsupported-generator-in-list", "P3_no_unsupported_generators")
    elif to_t and any(c not in ("sup", "converted") for _, c in got["lookup"]):
        bad = ("unsupported-generator-in-lookup", "P3_no_unsupported_generators")
    elif sorted(set(k for k, _ in got["lookup"])) != sorted(set(g["key"] for g in got["gens"])):
        bad = ("list-and-lookup-differ", "P3_no_unsupported_generators")
    if not bad:
        # P4: grid, rock types (apart from conductivity), remaining generators, requests
        grid1 = ([b.name for b in dat.grid.blocklist], [float(b.volume) for b in dat.grid.blocklist],
                 [tuple(b.name for b in c.block) for c in dat.grid.connectionlist])
        rocks1 = [(r.name, r.density, r.porosity, list(r.permeability), r.specific_heat) for r in dat.grid.rocktypelist]
        gens1 = [(g.block, g.name, g.type, g.gx, g.ex) for g in dat.generatorlist]
        keep = [g for g in gens0 if not (to_t and CLS_OF.get(g[2]) == "unsup")]
        keep = [(g[0], g[1], "COM2" if (to_t and g[2] == "CO2 ") else g[2], g[3], g[4]) for g in keep]
        if grid1 != grid0 or rocks1 != rocks0:
            bad = ("grid-or-rocks-changed", "P4_rest_unchanged")
        elif got["condscaled"] != bool(post["condscaled"]):
            # the one documented change to rock types: conductivities rescaled exactly when the options ask for it
            det["conductivity_rescaled"] = got["condscaled"]
            bad = ("conductivity-rescaling", "P4_rest_unchanged")
        elif gens1 != keep:
            bad = ("remaining-generators-changed", "P4_rest_unchanged")
        else:
            so = dat.short_output
            req1 = {"b": [(b if isinstance(b, str) else b.name) for b in (so.get("block", []) or dat.history_block)],
                    "c": [(c if isinstance(c, tuple) else tuple(x.name for x in c.block)) for c in (so.get("connection", []) or dat.history_connection)],
                    "g": sorted(set(g.block for g in so.get("generator", [])) |
                                set((b if isinstance(b, str) else b.name) for b in dat.history_generator))}
            alive = set(g[0] for g in keep)
            want_g = [b for b in req0["g"] if b in alive or not to_t]
            if req1["b"] != req0["b"] or req1["c"] != req0["c"] or not (set(want_g) <= set(req1["g"]) <= set(req0["g"])):
                det["requests"] = [req0, req1]
                bad = ("requests-lost", "P4_requests_move")
    if not bad:
        # P5: the converted model survives a file round trip
        d = os.path.join(work, "cv")
        shutil.rmtree(d, ignore_errors=True)
        os.makedirs(d)
        try:
            with core.watchdog(60), core.quiet():
                f = os.path.join(d, "m.dat")
                dat.write(f)
                d2 = t2data.t2data(f)
            a, b = t2dbuild.canon(dat), t2dbuild.canon(d2)
            diff = t2dbuild.first_difference(a, b, rtol=1.0e-3)
            if diff:
                det["difference"] = diff
                bad = ("file-round-trip", "P5_survives_file_round_trip")
        except Exception as e:
            det["error"] = repr(e)
            bad = ("file-round-trip-raises", "P5_survives_file_round_trip")
    if bad:
        rep.violation(key + ":" + bad[0], bad[1], det)
        return
    # spec comparison (drift only): MOP digits, conductivity scaling, counts
    exp = {"flav": post["flav"], "simul": post["simul"], "eos": post["eos"], "lineq": post["lineq"], "solvr": post["solvr"],
           "mop": dict((str(p), post["mop"][str(p)]) for p in MOPS), "gens": post["gens"],
           "lookup": sorted([k, c] for k, c in post["lookup"]), "short": post["short"], "hist": post["hist"]}
    have = dict((k, got[k]) for k in exp)
    for d_ in (exp, have):          # generator requests are kept per block: their number is not specified
        d_["short"] = dict(d_["short"], g=0)
        d_["hist"] = dict(d_["hist"], g=0)
    if have != exp:
        k = next(k for k in exp if have[k] != exp[k])
        rep.drifted("%s: %s is %s, Convert.tla says %s (all clauses hold)" % (key, k, have[k], exp[k]))


def export_checks(rep, rng, quick):
    t2data, t2grids, mulgrids = core.repo_modules("t2data", "t2grids", "mulgrids")
    eosnames = ["W", "EW", "EWC", "EWAV", "EWT"]
    cfg = ('CONSTANTS NBlocks = 4\n Rocks = {"r1", "r2"}\n EosNames = {%s}\n Unsupported = {}\nINIT Init\nNEXT Next\n'
           'INVARIANT P6_RockCellsPartition\nINVARIANT P7_SourceCells\nINVARIANT P8_OneSourcePerGenerator\nINVARIANT P9_EosRecognised\n'
           'CONSTRAINT Emit\nCHECK_DEADLOCK FALSE\n' % ", ".join('"%s"' % e for e in eosnames))
    mod = ("---- MODULE GEN_WaiweraExport ----\nEXTENDS WaiweraExport, Json\n"
           "Emit == PrintT(\"EMIT\" \\o ToJson([blocks |-> blocks, natm |-> natm, gens |-> gens, eosarg |-> eosarg, eosmulti |-> eosmulti, "
           "eossim |-> eossim, cells |-> [r \\in Rocks |-> CellsOf(r)], src |-> [k \\in DOMAIN SourceCells |-> SourceCells[k]], eos |-> EosDetected]))\n====\n")
    r = tlc.run_tlc("GEN_WaiweraExport", None, cfg_text=cfg, workers=1, timeout=1800, heap="8g",
                    extra_modules={"GEN_WaiweraExport.tla": mod})
    rep.add_tlc("WaiweraExport NBlocks=4: rock-cell partition, source cells, EOS recognition (+ export)", r)
    if r.violated:
        raise tlc.MachineryError("WaiweraExport violates " + str(r.violated))
    cases = r.emitted
    rng.shuffle(cases)
    cases = cases[:(400 if quick else 6000)]
    supported = {'W': 'w', 'EW': 'we', 'EWC': 'wce', 'EWAV': 'wae', 'EWT': 'we'}
    for c in cases:
        natm = c["natm"]
        ncols = 4 - natm
        atm = {0: 2, 1: 0, 2: 1}[natm]
        if natm == 2 and ncols != 2:
            continue
        order = rng.choice([None, "layer_column", "dmplex"])
        with core.quiet():
            geo = mulgrids.mulgrid().rectangular([10.0] * ncols, [10.0], [5.0], atmos_type=atm, block_order=order)
            dat = t2data.t2data()
            dat.grid = t2grids.t2grid().fromgeo(geo)
        dat.title = "export model"
        r1 = dat.grid.rocktypelist[0]
        r1.name = "r1   "
        dat.grid.rocktype = {"r1   ": r1}
        r2 = t2grids.rocktype("r2   ", 0, 2500.0, 0.125, [1.0e-15] * 3, 2.5, 1000.0)
        dat.grid.add_rocktype(r2)
        names = geo.block_name_list
        for i, b in enumerate(c["blocks"]):
            blk = dat.grid.block[names[i]]
            blk.rocktype = r1 if b["rock"] == "r1" else r2
            if i >= natm:
                blk.volume = {"cell": 500.0, "zero": 0.0, "huge": 1.0e30}[b["vol"]]
        dat.parameter.update({"max_timesteps": 99, "tstop": 1.0e6, "const_timestep": 1.0e3, "timestep": [1.0e3], "gravity": 9.875,
                              "default_incons": [1.013e5, 12.5, 0.5], "max_timestep": 1.0e6, "tstart": 0.0})
        if c["eosmulti"] != "none":
            dat.multi = {"num_components": 1, "num_equations": 2, "num_phases": 2, "num_secondary_parameters": 6, "eos": c["eosmulti"]}
        elif rng.random() < 0.5 and c["eossim"] != "none":
            dat.multi = {"num_components": 1, "num_equations": 2, "num_phases": 2, "num_secondary_parameters": 6}   # MULTI without an EOS name
        if c["eossim"] != "none":
            dat.simulator = "AUTOUGH2.2" + c["eossim"] + rng.choice(["", "   "])
        elif c["eosmulti"] != "none":
            dat.simulator = "AUTOUGH2.2"
        gens_nongroup = []
        naming_mode = rng.choice(["distinct", "unnamed", "collide"])
        for k, g in enumerate(c["gens"]):
            if g["group"]:
                continue
            blkname = names[g["blk"] - 1]
            if dat.grid.block[blkname].volume <= 0 or dat.grid.block[blkname].volume >= 1.0e25:
                continue
            # names: distinct, unnamed (Waiwera sources need no name), or colliding with a suffix the export may generate
            gname = {"distinct": "ge%3d" % k, "unnamed": "", "collide": ["abc", "abc", "abc_1", "abc"][k % 4]}[naming_mode]
            dat.add_generator(t2data.t2generator(name=gname, block=blkname, type="MASS", gx=1.0 + k, ex=1.0e5))
            gens_nongroup.append(g["blk"] - 1 - natm)
        key = "export:natm%d:%s" % (natm, "arg" if c["eosarg"] != "none" else ("multi" if c["eosmulti"] != "none" else ("sim" if c["eossim"] != "none" else "none")))
        det = {"case": dict((k, c[k]) for k in ("blocks", "natm", "gens", "eosarg", "eosmulti", "eossim")), "block_order": order}
        rep.case(json.dumps(det, sort_keys=True))
        want_eos = c["eos"]
        try:
            with core.quiet():
                geo_x = geo
                if natm == 1 and rng.random() < 0.4:
                    # the same mesh without atmosphere blocks: the grid's atmosphere block is then a boundary block listed first,
                    # and the grid's block order is no longer the exported geometry's
                    with core.quiet():
                        geo_x = mulgrids.mulgrid().rectangular([10.0] * ncols, [10.0], [5.0], atmos_type=2, block_order=order)
                    det["exported_with_geometry_of_atmosphere_type"] = 2
                j = dat.json(geo_x, "mesh.exo", eos=(None if c["eosarg"] == "none" else c["eosarg"]))
        except Exception as e:
            if want_eos == "none" and "EOS not detected" in str(e):
                continue
            det["error"] = repr(e)
            rep.violation(key + ":raises", "P9_eos_recognised" if "EOS" in str(e) else "P_export_completes", det)
            continue
        if want_eos == "none":
            rep.violation(key + ":eos-invented", "P9_eos_recognised", det)
            continue
        if j["eos"]["name"] != supported[want_eos]:
            det["eos"] = j["eos"]
            rep.violation(key + ":eos", "P9_eos_recognised", det)
            continue
        cells = dict((rt["name"].strip(), sorted(rt["cells"])) for rt in j["rock"]["types"])
        order_index = dict((n, i) for i, n in enumerate(names))
        want = dict((rk, sorted(c["cells"][rk])) for rk in ("r1", "r2"))
        if order == "dmplex" or True:
            pass
        if cells != want:
            det["cells"], det["expected"] = cells, want
            rep.violation(key + ":rock-cells", "P6_rock_cells_partition", det)
            continue
        src = [s["cell"] for s in j.get("source", [])]
        if src != gens_nongroup:
            det["sources"], det["expected"] = src, gens_nongroup
            rep.violation(key + ":source-cells", "P7_source_cells", det)
    rep.traces += len(cases)
    rep.extra["export_cases"] = len(cases)


def run(tier):
    rep = core.Report("C20", tier, "model_checking")
    quick = tier == "quick"
    rng = random.Random(core.seed() + 2020)
    work = tlc.scratch_dir("c20-")
    try:
        models, seen = [], set()
        while len(models) < (120 if quick else 1200):
            m = random_model(rng)
            k = json.dumps(m, sort_keys=True)
            if k not in seen:
                seen.add(k)
                models.append(m)
        r = conv_model(models, 2)
        rep.add_tlc("Convert on %d models, up to 2 conversions each: P1-P3 invariants, P4 action property (+ transition export)" % len(models), r)
        if r.violated:
            raise tlc.MachineryError("Convert violates %s" % r.violated)
        n = 0
        for t in r.emitted:
            pre = dict(t["pre"])
            pre["lookup"] = None
            rep.case(json.dumps([t["pre"], t["act"]], sort_keys=True))
            check_conversion(rep, pre, t["act"], t["post"], rng, work)
            n += 1
            if n <= 2:
                rep.sample({"pre": t["pre"], "act": t["act"], "post_gens": t["post"]["gens"]})
        rep.traces += n
        rep.extra["conversion_transitions_replayed"] = n
        export_checks(rep, rng, quick)
    finally:
        shutil.rmtree(work, ignore_errors=True)
    rep.rule = ("conversion: random models (flavour, MULTI/eos, LINEQ/SOLVR, up to 3 of the MOP digits the code tests, up to 4 generators "
                "drawn from supported / convertible / unsupported with shared lookup keys, short or history requests) x MP on/off x up "
                "to two conversions, every TLC transition replayed (method call or `type` setter); export: every WaiweraExport state "
                "sampled (volume classes x rock assignment x atmosphere blocks x generators x EOS source)")
    rep.leaves = ["converted model written and re-read: canonical forms compared (four significant digits)"]
    rep.assumptions = ["a second-step pre-state is rebuilt from its abstract state, not obtained by a real first conversion",
                       "group (TMAK) generators are not instantiated in the export cases"]
    rep.exhaustive = False
    return rep.finish()


def replay(path):
    print(json.dumps(json.load(open(path))["detail"], indent=1)[:4000])
    return 0
