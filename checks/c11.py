"""C11 - see lib/mgcheck.py (specs/MulgridADT.tla)."""
from lib import mgcheck


def run(tier):
    return mgcheck.run("C11", tier)


def replay(path):
    return mgcheck.replay("C11", path)
