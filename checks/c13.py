"""C13 - initial-conditions file write/read round trip (specs/InconFile.tla)."""
import glob
import json
import string
import os
import random
import shutil

import numpy as np

from lib import core, tlc, recio, naming, inconadt

GEN = """---- MODULE GEN_InconFile ----
EXTENDS InconFile, Json
Emit == phase # "done" \\/ PrintT("EMIT" \\o ToJson([doc |-> doc, reset |-> reset, nvar |-> nvar, file |-> file1,
                                                   exp |-> Expected(doc)]))
====
"""
CFG = """CONSTANTS MaxBlocks = %d
NVs = %s
Relax = "%s"
INIT Init
NEXT Next
INVARIANT P_ReaderTerminates
INVARIANT P1_RoundTrip
INVARIANT P2_SecondWriteIdentical
INVARIANT P3_ValuesFourPerRecord
CHECK_DEADLOCK FALSE
%s
"""

# names as the four conventions generate them (3 chars + 2-digit number, 2 chars + 3-digit number), in repaired form:
# a name is in the domain when repairing the simulator's print form gives it back
NAMES = [" a105", "A 209", "  101", " b 12", "AA  1", "aa 12", " a  1", "abc12", "a 123", "AB105", "zz 99", "  a 1", "ab105", "Ab* 7",
         " 1  1", "A1  2", "xyz 3", "atm 0", "q9912", "  1 1", " a101", "ATM 0", "b 1 2".replace(" 1 2", "1 02")]


PUNCT_NAMES = [("ab"[:k] + c + "ab"[k:] + " " + "%d" % (1 + (i + k) % 9)) for i, c in enumerate(string.punctuation) for k in range(3)]


def model(maxblocks, nvs, relax="none", export=True, workers=1):
    cfg = CFG % (maxblocks, "{" + ", ".join(str(n) for n in nvs) + "}", relax, "CONSTRAINT Emit" if export else "")
    return tlc.run_tlc("GEN_InconFile", None, cfg_text=cfg, workers=workers, timeout=1800,
                       extra_modules={"GEN_InconFile.tla": GEN}, heap="8g")


def rnd_value(rng):
    kind = rng.random()
    mant = rng.choice([-1, 1]) * float("%d.%s" % (rng.randint(1, 9), "".join(rng.choice("0123456789") for _ in range(15))))
    if kind < 0.25:
        e = rng.choice([-120, -101, -100, 100, 105, 120])
    elif kind < 0.35:
        return 0.0
    else:
        e = rng.randint(-30, 30)
    return float("%re%d" % (mant, e))


def carried(v, width, dec):
    """The value a field carries: Python formatting with the most decimals (<= dec) that fit."""
    for q in range(dec, -1, -1):
        t = "%*.*e" % (width, q, v)
        if len(t) <= width:
            return float(t)
    raise ValueError(v)


def build(t2incons, d, rng, names):
    inc = t2incons.t2incon()
    inc.simulator = d["flav"]
    truth, pending = [], []
    for i, b in enumerate(d["blocks"]):
        name = names[i]
        vals = [rnd_value(rng) for _ in range(b["nv"])]
        por = rng.choice([0.1, 0.35, 1.0, 1.2345678901e-3]) if b["por"] else None
        perm = np.array([rnd_value(rng) ** 2 + 1e-20 for _ in range(3)]) if b["perm"] else None
        if perm is not None and rng.random() < 0.3:
            perm[rng.randrange(3)] = 0.0            # an impermeable direction: present, and exactly zero
        nseq, nadd = (rng.randint(0, 99999), rng.randint(0, 9999)) if b["seq"] else (None, None)
        if b["seq"] and rng.random() < 0.4:
            # the two numbers are independent fields: either may be absent, or zero, on its own
            nseq, nadd = rng.choice([(None, nadd), (nseq, None), (0, nadd), (nseq, 0), (0, 0)])
        pending.append(t2incons.t2blockincon(vals, name, por, perm, nseq, nadd))
        truth.append({"name": name, "vals": vals, "por": por, "perm": None if perm is None else list(perm), "nseq": nseq, "nadd": nadd})
    if len(pending) >= 2 and rng.random() < 0.3:
        # the same set of blocks reached through edits: one block inserted at its place afterwards (so the lookup's order
        # differs from the list's), then a block behind it replaced by an equal one
        k = rng.randrange(len(pending) - 1)
        for i, b_ in enumerate(pending):
            if i != k:
                inc[b_.block] = b_
        inc.insert_incon(k, pending[k])
        # a block that comes and goes: added under a name of its own, then deleted; deleting an absent name does nothing
        extra_name = "zz%3d" % rng.randint(100, 999)
        if extra_name not in names:
            inc.add_incon(t2incons.t2blockincon([1.0, 2.0], extra_name))
            inc.delete_incon(extra_name)
            inc.delete_incon(extra_name)
        j = rng.randrange(k + 1, len(pending))
        old_ = pending[j]
        inc[old_.block] = t2incons.t2blockincon(list(old_.variable), old_.block, old_.porosity, old_.permeability, old_.nseq, old_.nadd)
    else:
        for b_ in pending:
            inc[b_.block] = b_
    timing = None
    if d["timing"]:
        timing = {"kcyc": rng.randint(1, 9999), "iter": rng.randint(1, 99), "nm": rng.randint(1, 99),
                  "tstart": abs(rnd_value(rng)) % 1e30, "sumtim": float("%.6e" % (abs(rnd_value(rng)) % 1e30 + 1.0))}
        inc.timing = dict(timing)
    return inc, truth, timing


def abstract_stream(events, truth):
    """The recorded write events in the shape of the spec's record stream."""
    out, blk, pos = [], 0, 0
    for e in events:
        if e["op"] == "raw":
            if e["text"] == "\n\n":
                out += [{"k": "blank"}, {"k": "blank"}]
            elif e["text"] == "+++\n":
                out.append({"k": "plus"})
            continue
        if e["op"] != "w":
            continue
        k, v = e["kind"], e["vals"]
        if k in ("header_short", "header_long", "timing", "timing_toughreact"):
            out.append({"k": k})
        elif k in ("incon1", "incon1_toughreact"):
            blk += 1
            pos = 0
            out.append({"k": k, "blk": blk, "por": v[3] is not None, "seq": v[1] is not None or v[2] is not None,
                        "perm": k == "incon1_toughreact"})
        elif k == "incon2":
            tv = truth[blk - 1]["vals"]
            toks = []
            for x in v:
                toks.append(pos + 1 if pos < len(tv) and tv[pos] == x else -1)
                pos += 1
            out.append({"k": k, "vals": toks})
        else:
            out.append({"k": k})
    return out


def compare_read(inc2, truth, timing, exp, t2incons, mulgrids):
    if inc2.simulator != exp["flav"]:
        return "P3_flavour", "simulator %r, expected %r" % (inc2.simulator, exp["flav"])
    if inc2.num_blocks != len(truth):
        return "P1_blocks", "%d blocks read, %d written" % (inc2.num_blocks, len(truth))
    for i, t in enumerate(truth):
        b = inc2[i]
        if b.block != naming.ref_fix(t["name"]):
            return "P4_names", "block %d name %r, written %r" % (i, b.block, t["name"])
        if len(b.variable) != len(t["vals"]):
            return "P1_values", "block %d has %d values, written %d" % (i, len(b.variable), len(t["vals"]))
        for j, (x, y) in enumerate(zip(b.variable, t["vals"])):
            if x != carried(y, 20, 13):
                return "P1_values", "block %d value %d: %r, written %r" % (i, j, x, y)
        if (b.porosity is None) != (t["por"] is None) or (t["por"] is not None and b.porosity != carried(t["por"], 15, 9)):
            return "P1_porosity", "block %d porosity %r, written %r" % (i, b.porosity, t["por"])
        if (b.permeability is None) != (t["perm"] is None) or \
                (t["perm"] is not None and [float(x) for x in b.permeability] != [carried(y, 15, 9) for y in t["perm"]]):
            return "P1_permeability", "block %d permeability %r, written %r" % (i, b.permeability, t["perm"])
        if (b.nseq, b.nadd) != (t["nseq"], t["nadd"]):
            return "P1_sequence_numbers", "block %d nseq/nadd %r, written %r" % (i, (b.nseq, b.nadd), (t["nseq"], t["nadd"]))
    if exp["timing"]:
        if inc2.timing is None:
            return "P3_timing", "timing lost"
        for k in ("kcyc", "iter", "nm"):
            if inc2.timing[k] != timing[k]:
                return "P3_timing", "timing %s %r, written %r" % (k, inc2.timing[k], timing[k])
        for k in ("tstart", "sumtim"):
            if inc2.timing[k] != carried(timing[k], 15, 9):
                return "P3_timing", "timing %s %r, written %r" % (k, inc2.timing[k], timing[k])
    elif inc2.timing is not None:
        return "P3_timing", "timing present after reset / without timing"
    return None


def shipped_num_variables(f):
    """How many primary variables per block a shipped file holds: from the array stored beside it, else
    from the line count (header + blocks x (1 + ceil(nv/4)) + terminator lines)."""
    npy = os.path.join(os.path.dirname(f), "variable.npy")
    if os.path.exists(npy):
        return int(np.load(npy).shape[1])
    lines = open(f).read().split("\n")
    body = []
    for ln in lines[1:]:
        if not ln.strip() or ln.startswith("+++"):
            break
        body.append(ln)
    heads = [i for i, ln in enumerate(body) if ln[:5].strip() and not ln[:20].strip().replace(".", "").replace("E", "").replace("+", "").replace("-", "").isdigit()]
    if not heads or len(body) % len(heads):
        return None
    per = len(body) // len(heads) - 1
    last = body[per].split()
    return (per - 1) * 4 + len(last)


def run(tier):
    rep = core.Report("C13", tier, "model_checking")
    quick = tier == "quick"
    rng = random.Random(core.seed() + 1313)
    t2incons, mulgrids = core.repo_modules("t2incons", "mulgrids")
    tracer = recio.RecordTracer()
    work = tlc.scratch_dir("c13-")
    try:
        # negative configurations: each well-formedness condition is needed (vacuity guard + domain)
        for relax, want in (("mixednv", None), ("none4", None), ("trnoperm", None), ("nvlarger", "P_ReaderTerminates")):
            rn = model(2, [1, 4, 5], relax=relax, export=False, workers=8)
            rep.add_tlc("InconFile Relax=%s (negative configuration)" % relax, rn, note="violates: %s" % rn.violated)
            if not rn.violated:
                raise tlc.MachineryError("negative configuration Relax=%s did not fail" % relax)
        nvs = [1, 3, 4, 5, 8, 9, 12]
        r = model(2 if quick else 3, nvs if not quick else [1, 4, 5, 9, 12])
        rep.add_tlc("InconFile MaxBlocks=%d: P1 round trip, P2 second write identical, reader terminates (+ export)" % (2 if quick else 3), r)
        if r.violated:
            raise tlc.MachineryError("InconFile violates " + str(r.violated))
        tracer.install()
        docs = r.emitted
        if quick and len(docs) > 700:
            rng.shuffle(docs)
            docs = docs[:700]
        prev_obj = [None, 0]
        for n, e in enumerate(docs):
            d = e["doc"]
            pool = [n for n in NAMES if naming.canonical(n)]
            names = rng.sample(pool, len(d["blocks"]))
            if names:
                # every punctuation character, in each of the first three places, is a legal name character
                pn = PUNCT_NAMES[n % len(PUNCT_NAMES)]
                if naming.canonical(pn) and pn not in names:
                    names[rng.randrange(len(names))] = pn
            inc, truth, timing = build(t2incons, d, rng, names)
            p1, p2 = os.path.join(work, "a.incon"), os.path.join(work, "b.incon")
            key = "%s:nv=%s:reset=%s:nvar=%s" % (d["flav"], sorted(set(b["nv"] for b in d["blocks"])), e["reset"], e["nvar"])
            det = {"doc": d, "reset": e["reset"], "num_variables": e["nvar"], "names": names}
            rep.case(json.dumps([d, e["reset"], e["nvar"]], sort_keys=True), nontrivial=len(d["blocks"]) > 0)
            try:
                # writing is an observer: a write with the other reset value first must not change the object
                with core.quiet():
                    inc.write(p2, reset=not e["reset"])
                if (inc.timing is None) != (timing is None) or (timing is not None and inc.timing != timing) \
                        or inc.num_blocks != len(truth) or inc.simulator != d["flav"]:
                    rep.violation(key + ":write-changes-object", "P_write_leaves_object_unchanged", det)
                    continue
                tracer.record()
                with core.quiet():
                    inc.write(p1, reset=e["reset"])
                ev = tracer.stop()
                got = abstract_stream(ev, truth)
                if got != e["file"]:
                    # the spec's stream is the format; a different stream is a violation only if the round trip fails
                    det["stream"], det["expected_stream"] = got, e["file"]
                    drift = True
                else:
                    drift = False
                with core.watchdog(30), core.quiet():
                    inc2 = t2incons.t2incon(p1, num_variables=e["nvar"] or None)
                bad = compare_read(inc2, truth, timing, e["exp"], t2incons, mulgrids)
                if bad:
                    det["difference"] = bad[1]
                    rep.violation(key + ":" + bad[0], bad[0], det)
                    continue
                # read() into an object that already holds another file's blocks gives what a fresh object gets
                if prev_obj[0] is not None:
                    with core.watchdog(30), core.quiet():
                        prev_obj[0].read(p1, num_variables=e["nvar"] or None)
                    if [(b_.block, list(b_.variable)) for b_ in prev_obj[0]] != [(b_.block, list(b_.variable)) for b_ in inc2]:
                        det["difference"] = "read into an object that held %d other blocks: %s, fresh object: %s" % (
                            prev_obj[1], [b_.block for b_ in prev_obj[0]][:6], [b_.block for b_ in inc2][:6])
                        rep.violation(key + ":reread-into-loaded-object", "P1_blocks", det)
                        prev_obj[0] = None
                        continue
                prev_obj[0], prev_obj[1] = inc2, inc2.num_blocks
                # the name quirk is undone whether or not names are checked while reading
                with core.watchdog(30), core.quiet():
                    inc3 = t2incons.t2incon(p1, num_variables=e["nvar"] or None, check_blocknames=False)
                if [b_.block for b_ in inc3] != [b_.block for b_ in inc2]:
                    det["difference"] = "block names read with check_blocknames=False: %s, with checking: %s" % (
                        [b_.block for b_ in inc3][:6], [b_.block for b_ in inc2][:6])
                    rep.violation(key + ":names-unchecked-read", "P1_names", det)
                    continue
                with core.quiet():
                    inc2.write(p2, reset=e["reset"])
                if open(p1, "rb").read() != open(p2, "rb").read():
                    rep.violation(key + ":second-write", "P2_second_write_identical", det)
                    continue
                if drift:
                    rep.drifted("record stream differs from InconFile's for %s (round trip holds)" % key)
            except core.Hang:
                rep.violation(key + ":hang", "P_reader_terminates", det)
            except Exception as ex:
                det["error"] = repr(ex)
                rep.violation(key + ":raises", "P1_round_trip", det)
            if n < 3:
                rep.sample({"doc": d, "reset": e["reset"], "num_variables": e["nvar"], "stream": [x["k"] for x in e["file"]]})
        rep.traces += len(docs)
        rep.extra["documents_replayed"] = len(docs)
        # shipped files: read, write, re-read, write
        shipped = sorted(glob.glob(os.path.join(core.REPO, "tests", "incon", "**", "*"), recursive=True))
        shipped = [f for f in shipped if os.path.isfile(f) and not f.endswith(".npy") and not f.endswith("~")]
        nship = 0
        for f in shipped:
            rel = os.path.relpath(f, os.path.join(core.REPO, "tests", "incon"))
            det = {"file": rel}
            try:
                with core.watchdog(120), core.quiet():
                    nv = shipped_num_variables(f)
                    if nv is None:
                        rep.drifted("cannot tell how many variables %s holds: skipped" % rel)
                        continue
                    a = t2incons.t2incon(f, num_variables=nv)
                    p1, p2 = os.path.join(work, "s1"), os.path.join(work, "s2")
                    a.write(p1, reset=False)
                    b = t2incons.t2incon(p1, num_variables=a.num_variables)
                    b.write(p2, reset=False)
                nship += 1
                rep.case(("shipped", rel))
                if a.blocklist != b.blocklist or a.simulator != b.simulator or (a.timing is None) != (b.timing is None):
                    rep.violation("shipped:%s:structure" % rel, "P1_round_trip", det)
                elif any(list(x.variable) != list(y.variable) or x.porosity != y.porosity or (x.nseq, x.nadd) != (y.nseq, y.nadd)
                         for x, y in zip(a, b)):
                    rep.violation("shipped:%s:values" % rel, "P1_round_trip", det)
                elif open(p1, "rb").read() != open(p2, "rb").read():
                    rep.violation("shipped:%s:second-write" % rel, "P2_second_write_identical", det)
            except core.Hang:
                rep.violation("shipped:%s:hang" % rel, "P_reader_terminates", det)
            except Exception as ex:
                det["error"] = repr(ex)
                rep.violation("shipped:%s:raises" % rel, "P1_round_trip", det)
        rep.extra["shipped_files"] = nship
        rep.traces += nship
    finally:
        tracer.uninstall()
        shutil.rmtree(work, ignore_errors=True)
    rep.rule = ("every well-formed document of InconFile (<= MaxBlocks blocks, nv in NVs, every optional-field combination, "
                "timing x reset, flavour, num_variables None or = nv) instantiated with random values (negative, zero, "
                "3-digit exponents) and names from every convention, written, read and written again; plus the shipped files; "
                "distinct = (document, reset, num_variables)")
    rep.leaves = ["values compared with Python's own formatting of the written value at the decimals that fit the field"]
    rep.assumptions = ["names are given in repaired (fix_blockname) form", "all blocks of a file carry the same number of variables"]
    rep.exhaustive = False
    try:
        inconadt.observe(rep, quick)
    except Exception as e:          # (beyond the properties: never a verdict, never a failure of this check)
        print("OBSERVATION beyond-properties (t2incon container): harness stopped: %r" % (e,))
    return rep.finish()


def replay(path):
    print(json.dumps(json.load(open(path))["detail"], indent=1)[:3000])
    return 0
