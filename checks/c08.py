"""C08 - t2grid stays internally consistent under any sequence of edits (specs/T2Grid.tla)."""
from lib import gridcheck


def run(tier):
    return gridcheck.run("C08", tier)


def replay(path):
    return gridcheck.replay("C08", path)
