"""C02 - fixed-column records never spill (specs/FixedRecord.tla over the four real format tables)."""
import json
import random

from lib import core, tlc, fixedrec


FILEQ = {}


def file_level(rep, fff, tabs, index, rng):
    """The same records through the file-level calls: write_values to a real file, read_values back.  The string-level result
    (already checked against the model) is the oracle.  Variants: the last name of a record ending in blanks; a name with a
    non-ASCII character (written alone to its own file: the write may fail loudly, it must not shift the record)."""
    import os
    import tempfile
    fields_of = dict(((t, k), f) for t, k, f in index)
    for tab, spec, readfn in tabs:
        recs = FILEQ.get(tab, [])
        extra = []
        for kind, vals in recs[::5]:
            fs = fields_of[(tab, kind)]
            last = max([j for j, f in enumerate(fs) if f["t"] != "x"] or [-1])
            if last >= 0 and fs[last]["t"] == "s" and fs[last]["w"] >= 2:
                v2 = list(vals)
                v2[last] = ("a" + " " * (fs[last]["w"] - 1))
                extra.append((kind, v2))
        recs = recs + extra
        if not recs:
            continue
        fd, path = tempfile.mkstemp(prefix="verif-ffile-")
        os.close(fd)
        try:
            w = fff.fixed_format_file(path, "w", spec, readfn)
            want = []
            for kind, vals in recs:
                want.append(w.parse_string(w.write_values_to_string(vals, kind), kind))
                w.write_values(vals, kind)
            w.close()
            r = fff.fixed_format_file(path, "r", spec, readfn)
            for (kind, vals), exp in zip(recs, want):
                got = r.read_values(kind)
                rep.case(("file", tab, kind, len(rep.distinct)))
                if len(got) != len(exp) or any(not fixedrec.same(a, b) for a, b in zip(got, exp)):
                    rep.violation("file-level:%s" % tab, "P5_file_level_equals_string_level",
                                  {"table": tab, "kind": kind, "values": vals, "string_level": exp, "file_level": got})
                    break
            r.close()
            # the dictionary-level calls: write_value_line with some keys missing (an absent value), read_value_line back
            names_of = dict((k_, v_[0]) for k_, v_ in spec.items())
            w = fff.fixed_format_file(path, "w", spec, readfn)
            drecs = []
            for kind, vals in recs[:400]:
                names = names_of[kind]
                if len(set(names)) != len(names) or len(names) != len(vals):
                    continue
                d = dict((n_, v_) for n_, v_ in zip(names, vals) if v_ is not None and rng.random() < 0.7)
                for n_ in list(d):
                    # an explicit zero is a value like any other (not an absent field)
                    if isinstance(d[n_], (int, float)) and not isinstance(d[n_], bool) and rng.random() < 0.25:
                        d[n_] = type(d[n_])(0)
                try:
                    w.write_value_line(d, kind)
                except Exception as ex:
                    rep.violation("dict-level:%s:raises" % tab, "P2_fitting_value_written", {"table": tab, "kind": kind, "dictionary": d, "error": repr(ex)})
                    break
                drecs.append((kind, names, d, w.parse_string(w.write_values_to_string([d.get(n_) for n_ in names], kind), kind)))
            else:
                w.close()
                r = fff.fixed_format_file(path, "r", spec, readfn)
                for kind, names, d, exp in drecs:
                    d2 = {}
                    r.read_value_line(d2, kind)
                    rep.case(("dict", tab, kind, len(rep.distinct)))
                    bad = [n_ for n_, e_ in zip(names, exp) if not fixedrec.same(d2.get(n_), e_)]
                    if bad:
                        rep.violation("dict-level:%s" % tab, "P3_no_displacement",
                                      {"table": tab, "kind": kind, "dictionary_written": d, "dictionary_read": d2, "fields": bad})
                        break
                r.close()
            # a non-ASCII character in a name
            for kind, vals in recs[:40]:
                fs = fields_of[(tab, kind)]
                cand = [j for j, f in enumerate(fs) if f["t"] == "s" and f["w"] >= 3 and isinstance(vals[j], str)]
                if not cand:
                    continue
                v2 = list(vals)
                j = cand[0]
                v2[j] = ("\u00c8" + v2[j][1:]) if v2[j] else v2[j]
                try:
                    w = fff.fixed_format_file(path, "w", spec, readfn)
                    exp = w.parse_string(w.write_values_to_string(v2, kind), kind)
                    w.write_values(v2, kind)
                    w.close()
                except (UnicodeError, ValueError):
                    continue            # failing loudly is allowed
                r = fff.fixed_format_file(path, "r", spec, readfn)
                try:
                    got = r.read_values(kind)
                except UnicodeError:
                    r.close()
                    continue
                r.close()
                rep.case(("file-nonascii", tab, kind))
                if len(got) != len(exp) or any(not fixedrec.same(a, b) for a, b in zip(got, exp)):
                    rep.violation("file-level:non-ascii:%s" % tab, "P3_no_displacement",
                                  {"table": tab, "kind": kind, "values": v2, "string_level": exp, "file_level": got})
                    break
        finally:
            os.unlink(path)


def check_point(rep, parser, tab, kind, fields, focus, cls, out, rng, nvariants, readfn, file_share=0.0):
    """Replays one lattice point (record kind, field, value class) through the real writer and parser."""
    f = fields[focus]
    width = sum(x["w"] for x in fields)
    for variant in range(nvariants):
        v = fixedrec.concretise(f, cls, rng, variant)
        if cls.get("up") and variant % 2 == 1 and v is not None:
            # the model's outcome for an all-nines class assumes nines beyond every printed digit; with exactly as many nines
            # as are printed the same width rule is applied to the value itself
            t = ("%.*e" if f["t"] == "e" else "%.*f") % (f["p"], v)
            short = ("%.0e" if f["t"] == "e" else "%.0f") % v
            out = dict(out, o="FITS" if len(t) <= f["w"] else ("TRIM" if len(short) <= f["w"] else "IMPOSSIBLE"))
        vals = [fixedrec.typical(x, rng, full=(variant % 2 == 0)) for x in fields]
        for j in range(len(vals)):            # an absent value in any (other) position
            if j != focus and rng.random() < 0.15:
                vals[j] = None
        vals[focus] = v
        rep.case((tab, kind, focus, json.dumps(cls, sort_keys=True), variant))
        key = "%s:%s" % (f["t"], out["o"])
        detail = {"table": tab, "kind": kind, "field": focus, "format": f, "class": cls, "values": vals,
                  "spec_outcome": out}
        try:
            line = parser.p.write_values_to_string(vals, kind)
        except Exception as e:
            if out["o"] == "FITS":
                detail["error"] = repr(e)
                rep.violation(key + ":raises", "P2_fitting_value_written", detail)
            continue                                   # TRIM / IMPOSSIBLE: failing loudly is allowed
        detail["line"] = line
        if len(line) != width:
            rep.violation(key + ":line-length", "P1_line_length", detail)
            continue
        try:
            got = parser.p.parse_string(line, kind)
        except Exception as e:
            detail["error"] = repr(e)
            rep.violation(key + ":parse-raises", "P3_no_displacement", detail)
            continue
        detail["parsed"] = got
        bad_other = [j for j in range(len(fields)) if j != focus
                     and not fixedrec.same(got[j], fixedrec.expected_parse(fields[j], vals[j], readfn))]
        if bad_other:
            detail["displaced_fields"] = bad_other
            rep.violation(key + ":neighbour-corrupted", "P3_no_displacement", detail)
            continue
        if out["o"] == "FITS":
            if not fixedrec.same(got[focus], fixedrec.expected_parse(f, v, readfn)):
                rep.violation(key + ":value", "P2_field_parses_to_written_value", detail)
            elif variant == 0 and rng.random() < file_share:
                FILEQ.setdefault(tab, []).append((kind, list(vals)))
        elif out["o"] == "TRIM":
            if not fixedrec.reduced_ok(f, v, got[focus]):
                rep.violation(key + ":value", "P4_loses_precision_only", detail)
        if rep.evaluations % 9973 == 1:
            rep.sample({"table": tab, "kind": kind, "field": focus, "class": cls, "outcome": out["o"],
                        "written": repr(v), "line": line})


def run(tier):
    rep = core.Report("C02", tier, "model_checking")
    rng = random.Random(core.seed() + 202)
    quick = tier == "quick"
    tabs, fff = fixedrec.load_tables()
    text, index = fixedrec.tables_module(tabs)
    nfields = sum(len(x[2]) for x in index)
    rep.extra["record_kinds"] = len(index)
    rep.extra["fields"] = nfields

    # MC: with the Fit rule no record ever spills; (negative config) the Raw rule spills
    r = fixedrec.model_check(text, "Fit", export=True)
    rep.add_tlc("FixedRecord Rule=Fit over FormatTables (%d kinds, %d fields): P0,P1,P3 + lattice export" % (len(index), nfields), r)
    if r.violated:
        # the tables themselves make the design fail (e.g. a non-positive width): that is a property violation
        rep.violation("format-table:" + str(r.violated), str(r.violated), {"tlc_trace": r.trace[-2:]})
    rn = fixedrec.model_check(text, "Raw", export=False)
    rep.add_tlc("FixedRecord Rule=Raw (negative configuration: unguarded '%' formatting)", rn,
                note="expected to violate P1/P3: %s" % rn.violated)
    if not rn.violated:
        raise tlc.MachineryError("negative configuration Rule=Raw did not exhibit the spill: model is vacuous")

    parsers = {}
    for tab, spec, readfn in tabs:
        parsers[tab] = (fixedrec.Parser(fff, spec, readfn), readfn)
    try:
        nvar = 3 if quick else 12
        for e in r.emitted:
            tab, kind, fields = index[e["rk"] - 1]
            parser, readfn = parsers[tab]
            check_point(rep, parser, tab, kind, fields, e["focus"] - 1, e["cls"], e["out"], rng, nvar, readfn, file_share=0.3 if quick else 1.0)
        rep.traces += len(r.emitted)
        rep.extra["lattice_points"] = len(r.emitted)
        # exponent sweep -120..120 for every real field (thorough: all; quick: every 7th)
        step = 7 if quick else 1
        for tab, kind, fields in index:
            parser, readfn = parsers[tab]
            for focus, f in enumerate(fields):
                if f["t"] != "e":
                    continue
                for ex in range(-120, 121, step):
                    for neg in (False, True):
                        cls = {"c": "exp", "neg": neg, "ed": 3 if abs(ex) >= 100 else 2, "eneg": ex < 0, "up": False}
                        nat = (1 if neg else 0) + 1 + (f["p"] + 1 if f["p"] else 0) + 2 + cls["ed"]
                        out = {"o": "FITS" if nat <= f["w"] else "TRIM?", "k": 0}
                        # outcome for the sweep is recomputed by the same width rule; TRIM vs IMPOSSIBLE both allow raising
                        if out["o"] != "FITS":
                            out["o"] = "TRIM" if (1 if neg else 0) + 1 + 2 + cls["ed"] <= f["w"] else "IMPOSSIBLE"
                        v = float("%s%d.%se%d" % ("-" if neg else "", rng.randint(1, 8),
                                                  "".join(rng.choice("0123456789") for _ in range(12)), ex))
                        sweep_point(rep, parser, tab, kind, fields, focus, cls, out, v, rng, readfn)
                        if ex % 3 == 0 or abs(ex) in (99, 100):
                            v9 = float("%s9.%se%d" % ("-" if neg else "", "9" * max(f["p"], 1), ex))
                            sweep_point(rep, parser, tab, kind, fields, focus, cls, dict(out, o="TRIM" if out["o"] == "FITS" and abs(ex) == 99 else out["o"]), v9, rng, readfn)
        file_level(rep, fff, tabs, index, rng)
    finally:
        FILEQ.clear()
        for p, _ in parsers.values():
            p.close()
    rep.rule = ("every (record kind, field, value class) of FixedRecord's lattice concretised %d times with random "
                "fitting values (or None) in the other fields; plus exponent sweep -120..120 step %d x sign on every "
                "e-field; distinct = (table, kind, field, class, variant)" % (nvar, step))
    rep.leaves = ["file level (write_values / read_values through a real file) compared with the string level for a share of the records, incl. names ending in blanks and a non-ASCII name",
                  "expected parse of a fitting value = Python '%' formatting of that value alone, converted by float()/int()"]
    rep.assumptions = ["other fields hold values that fit; g-format does not occur in the tables"]
    rep.exhaustive = False
    return rep.finish()


def sweep_point(rep, parser, tab, kind, fields, focus, cls, out, v, rng, readfn):
    f = fields[focus]
    width = sum(x["w"] for x in fields)
    vals = [fixedrec.typical(x, rng) for x in fields]
    vals[focus] = v
    rep.case((tab, kind, focus, "sweep", repr(v)))
    key = "%s:%s" % (f["t"], out["o"])
    detail = {"table": tab, "kind": kind, "field": focus, "format": f, "class": cls, "values": vals, "spec_outcome": out}
    try:
        line = parser.p.write_values_to_string(vals, kind)
    except Exception as e:
        if out["o"] == "FITS":
            detail["error"] = repr(e)
            rep.violation(key + ":raises", "P2_fitting_value_written", detail)
        return
    detail["line"] = line
    if len(line) != width:
        rep.violation(key + ":line-length", "P1_line_length", detail)
        return
    got = parser.p.parse_string(line, kind)
    bad = [j for j in range(len(fields)) if j != focus
           and not fixedrec.same(got[j], fixedrec.expected_parse(fields[j], vals[j], readfn))]
    if bad:
        detail["displaced_fields"] = bad
        rep.violation(key + ":neighbour-corrupted", "P3_no_displacement", detail)
    elif out["o"] == "FITS" and not fixedrec.same(got[focus], fixedrec.expected_parse(f, v, readfn)):
        rep.violation(key + ":value", "P2_field_parses_to_written_value", detail)
    elif out["o"] == "TRIM" and not fixedrec.reduced_ok(f, v, got[focus]):
        rep.violation(key + ":value", "P4_loses_precision_only", detail)


def replay(path):
    d = json.load(open(path))["detail"]
    tabs, fff = fixedrec.load_tables()
    for tab, spec, readfn in tabs:
        if tab == d["table"]:
            p = fixedrec.Parser(fff, spec, readfn)
            try:
                line = p.p.write_values_to_string(d["values"], d["kind"])
                print("line  :", repr(line), len(line))
                print("parsed:", p.p.parse_string(line, d["kind"]))
            except Exception as e:
                print("raised:", repr(e))
            finally:
                p.close()
    return 0
