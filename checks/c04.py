"""C04 - geometry-to-TOUGH2-grid conversion is geometrically exact and index-consistent (specs/GeoToGrid.tla)."""
import itertools
import json
import math
import os
import random
import shutil

import numpy as np

from lib import core, tlc, mgmodel, radial

H = mgmodel.H
CFG = ("CONSTANTS AtmType = %d\n AtmCol = \"%s\"\n FreshNames = {}\nINIT GInit\nNEXT GNext\nCONSTRAINT Emit\nCHECK_DEADLOCK FALSE\n")


def expected(cases, atm, atmcol):
    work = tlc.scratch_dir("c04-")
    try:
        p = os.path.join(work, "cases.json")
        with open(p, "w") as fh:
            json.dump(cases, fh)
        r = tlc.run_tlc("GeoToGrid", None, cfg_text=CFG % (atm, atmcol), workers=1, timeout=3000, heap="8g",
                        env={"TRACE_FILE": p}, allow_violation=False)
    finally:
        shutil.rmtree(work, ignore_errors=True)
    out = [None] * len(cases)
    for e in r.emitted:
        out[e["ci"] - 1] = e
    if any(o is None for o in out):
        raise tlc.MachineryError("GeoToGrid evaluated %d of %d cases" % (sum(o is not None for o in out), len(cases)))
    return out, r


def make_geo(kind, nlay, surf, atm, conv, angle, order, offmid=False, via=None, moved=False):
    m = core.repo_modules("mulgrids")
    atm0, atm = atm, (atm if via is None else via)
    # moved: the geometry is built somewhere else (higher up and aside) and translated into place before conversion
    org = [30.0, -20.0, 40.0] if moved else [0.0, 0.0, 0.0]
    with core.quiet():
        if kind == "1x2":
            geo = m.mulgrid().rectangular([10.0, 20.0], [10.0], [10.0] * nlay, convention=conv, origin=org, atmos_type=atm, block_order=order)
        elif kind == "2x2":
            geo = m.mulgrid().rectangular([10.0, 20.0], [20.0, 10.0], [10.0, 20.0, 10.0][:nlay], convention=conv, origin=org, atmos_type=atm, block_order=order)
        elif kind == "L":
            geo = m.mulgrid().rectangular([10.0, 10.0], [10.0, 10.0], [10.0] * nlay, convention=conv, origin=org, atmos_type=atm, block_order=order)
            geo.delete_column(geo.columnlist[-1].name)
            geo.delete_orphans()
        elif kind == "tri":
            geo = m.mulgrid().rectangular([10.0, 10.0], [10.0], [10.0] * nlay, convention=conv, origin=org, atmos_type=atm, block_order=order)
            geo.split_column(geo.columnlist[0].name, geo.columnlist[0].node[0].name)
        geo.permeability_angle = angle
        if offmid:
            # a layer record may carry a centre that is not at mid-height
            lay = geo.layerlist[1 + (len(surf) + nlay) % nlay]
            lay.centre = lay.bottom + 0.25 * (lay.top - lay.bottom)
        for c, s in zip(geo.columnlist, surf):
            c.surface = geo.layerlist[0].bottom + s * H
            geo.set_column_num_layers(c)
        if moved:
            geo.translate(np.array([-org[0], -org[1], -org[2]]))
        geo.setup_block_name_index()
        geo.setup_block_connection_name_index()
        if via is not None:
            # the atmosphere type reached through the property, from a geometry made with another one: the property setter
            # itself has to leave the name lists current (nothing is refreshed by hand afterwards)
            geo.atmosphere_type = atm0
    return geo


def compose(geo, pair):
    """Block name from (column name, layer name) under the geometry's convention, independently of mulgrid.block_name."""
    col, lay = pair
    if geo.convention in (0, 3):
        n = col[:3] + lay[:2]
    elif geo.convention == 1:
        n = lay[:3] + col[:2]
    else:
        n = lay[:2] + col[:3]
    from lib import naming
    return naming.ref_fix(n)


def check_case(rep, geo, exp, kind, desc, rng):
    t2grids = core.repo_modules("t2grids")
    key = "%s:atm%d" % (kind, geo.atmosphere_type)
    det = dict(desc)
    use_map = rng.random() < 0.3
    names = [compose(geo, p) for p in exp["blocks"]]
    bmap = {}
    if use_map:
        for n in rng.sample(names, max(1, len(names) // 2)):
            bmap[n] = "zz%3d" % (100 + len(bmap))
    mp = lambda n: bmap.get(n, n)
    try:
        with core.quiet():
            grid = t2grids.t2grid().fromgeo(geo, bmap) if use_map else t2grids.t2grid().fromgeo(geo)
    except Exception as e:
        det["error"] = repr(e)
        rep.violation(key + ":raises", "P_conversion_completes", det)
        return
    got_blocks = [b.name for b in grid.blocklist]
    order_free = geo.block_order == "dmplex"
    want_blocks = [mp(n) for n in names]
    if list(geo.block_name_list) != names and not order_free:
        det.update(got=list(geo.block_name_list)[:12], expected=names[:12])
        rep.violation(key + ":block_name_list", "P_block_list", det)
        return
    if (sorted(got_blocks) != sorted(want_blocks)) if order_free else (got_blocks != want_blocks):
        det.update(got=got_blocks[:12], expected=want_blocks[:12])
        rep.violation(key + ":blocks", "P_block_list", det)
        return
    if got_blocks != [mp(n) for n in geo.block_name_list]:
        rep.violation(key + ":blocks-vs-name-list", "P_block_list", det)
        return
    for d in exp["data"]:
        b = grid.block[mp(compose(geo, d["name"]))]
        vol = d["vol2"] * H ** 3 / 2.0
        if abs(b.volume - vol) > 1e-9 * max(1.0, vol):
            det.update(block=b.name, volume=b.volume, expected=vol)
            rep.violation(key + ":volume", "P_block_volume", det)
            return
        if abs(b.centre[2] - (geo.layerlist[0].bottom - 0 + (d["z2"] * H / 2.0 - 0) - geo.layerlist[0].bottom + geo.layerlist[0].bottom - 0)) > 1e-9 and False:
            pass
    if not exp["totalvol"]:
        rep.violation(key + ":total-volume-model", "P_total_volume", det)
        return
    tot = sum(b.volume for b in grid.blocklist if not b.atmosphere)
    want_tot = sum(c.area * (c.surface - geo.layerlist[-1].bottom) for c in geo.columnlist)
    if abs(tot - want_tot) > 1e-9 * max(1.0, want_tot):
        det.update(total=tot, expected=want_tot)
        rep.violation(key + ":total-volume", "P_total_volume", det)
        return
    got_conns = [(c.block[0].name, c.block[1].name) for c in grid.connectionlist]
    want_conns = [(mp(compose(geo, e["b1"])), mp(compose(geo, e["b2"]))) for e in exp["conns"]]
    if got_conns != want_conns:
        k = next((i for i, (x, y) in enumerate(zip(got_conns, want_conns)) if x != y), min(len(got_conns), len(want_conns)))
        det.update(index=k, got=got_conns[k:k + 3], expected=want_conns[k:k + 3], n=[len(got_conns), len(want_conns)])
        rep.violation(key + ":connections", "P_connection_list_order_orientation", det)
        return
    if [tuple(mp(n) for n in x) for x in geo.block_connection_name_list] != got_conns:
        rep.violation(key + ":connections-vs-name-list", "P_connection_list_order_orientation", det)
        return
    z0 = geo.layerlist[0].bottom
    for c, e in zip(grid.connectionlist, exp["conns"]):
        det2 = dict(det, connection=list(got_conns[grid.connectionlist.index(c)]), kind=e["kind"])
        area = e["area2"] * H ** 2 / 2.0 if e["area2"] >= 0 else None
        if e["kind"] in ("vert", "atm"):
            ok = c.direction == 3 and c.dircos == -1.0 and abs(c.area - area) <= 1e-9 * area \
                and abs(c.distance[0] - e["d1x2"] * H / 2.0) <= 1e-9 * max(1.0, abs(c.distance[0]))
            if e["kind"] == "atm":
                ok = ok and c.distance[1] == geo.atmosphere_connection
            else:
                ok = ok and abs(c.distance[1] - e["d2x2"] * H / 2.0) <= 1e-9 * max(1.0, abs(c.distance[1]))
                b1, b2 = c.block
                ok = ok and abs((c.distance[0] + c.distance[1]) - (b2.centre[2] - b1.centre[2])) <= 1e-9 * max(1.0, abs(b2.centre[2] - b1.centre[2]))
            if not ok:
                det2.update(area=c.area, distance=list(c.distance), dircos=c.dircos, direction=c.direction, expected=e)
                rep.violation(key + ":vertical-connection", "P_vertical_connection", det2)
                return
        else:
            b1, b2 = c.block
            d = b2.centre - b1.centre
            cosv = -d[2] / np.linalg.norm(d)
            sign = 0 if abs(c.dircos) < 1e-14 else (1 if c.dircos > 0 else -1)
            ok = sign == e["cossign"] and abs(c.dircos - cosv) <= 1e-12
            if area is not None:
                ok = ok and abs(c.area - area) <= 1e-9 * max(1.0, area)
            # perpendicular distances from the column centres to the shared edge (leaf: exact formula on the node coordinates)
            gc = geo.connection[(geo.column_name(_unmap(bmap, b1.name)), geo.column_name(_unmap(bmap, b2.name)))]
            p, q = gc.node[0].pos, gc.node[1].pos
            for k, col in enumerate(gc.column):
                cc = col.centre
                dist = abs((q[0] - p[0]) * (p[1] - cc[1]) - (p[0] - cc[0]) * (q[1] - p[1])) / math.hypot(q[0] - p[0], q[1] - p[1])
                ok = ok and abs(c.distance[k] - dist) <= 1e-9 * max(1.0, dist)
            if geo.permeability_angle == 0.0:
                dxy = gc.column[1].centre - gc.column[0].centre
                if abs(abs(dxy[0]) - abs(dxy[1])) > 1e-9 * max(abs(dxy[0]), abs(dxy[1])):     # a 45-degree line belongs to either direction
                    ok = ok and c.direction == (1 if abs(dxy[0]) > abs(dxy[1]) else 2)
            if not ok:
                det2.update(area=c.area, distance=list(c.distance), dircos=c.dircos, direction=c.direction, expected=e)
                rep.violation(key + ":horizontal-connection", "P_horizontal_connection", det2)
                return


def float_expected(geo):
    """GeoToGrid.tla's definitions (BNList, BlockTop, BlockVol2, BlockZ2, Vertical, Horizontal, AllConns) instantiated in
    floating point for a geometry off the lattice, in the units check_case expects (doubled, in multiples of H)."""
    lays, cols = geo.layerlist, geo.columnlist
    atm = geo.atmosphere_type

    def area(c):
        pts = [n.pos - c.node[0].pos for n in c.node]          # relative to a vertex: coordinates are of the order 1e6
        return 0.5 * abs(sum(pts[i][0] * pts[(i + 1) % len(pts)][1] - pts[(i + 1) % len(pts)][0] * pts[i][1] for i in range(len(pts))))

    def top(c, j):
        if c.surface < lays[j].top:
            return c.surface
        if c.surface > lays[0].top and j == 1:
            return c.surface
        return lays[j].top

    def z(c, j):
        if lays[j].bottom < c.surface <= lays[j].top:
            return 0.5 * (lays[j].bottom + c.surface)
        return 0.5 * (lays[j].bottom + lays[j].top)

    def inlay(c, j):
        return c.surface > lays[j].bottom
    bn = lambda j, c: (c.name, lays[j].name)
    atmname = lambda c: (geo.atmosphere_column_name, lays[0].name) if atm == 0 else (c.name, lays[0].name)
    blocks = [(geo.atmosphere_column_name, lays[0].name)] if atm == 0 else ([(c.name, lays[0].name) for c in cols] if atm == 1 else [])
    data, conns = [], []
    ar = {c.name: area(c) for c in cols}
    for j in range(1, len(lays)):
        for c in cols:
            if inlay(c, j):
                blocks.append(bn(j, c))
                data.append({"name": bn(j, c), "vol2": 2 * ar[c.name] * (top(c, j) - lays[j].bottom) / H ** 3, "z2": 2 * z(c, j) / H})
    for j in range(1, len(lays)):
        for c in cols:
            if not inlay(c, j):
                continue
            if j == 1 or c.surface <= lays[j].top:
                if atm != 2:
                    conns.append({"kind": "atm", "b1": bn(j, c), "b2": atmname(c), "area2": 2 * ar[c.name] / H ** 2,
                                  "d1x2": 2 * (c.surface - z(c, j)) / H, "d2x2": -1, "cossign": -1})
            else:
                conns.append({"kind": "vert", "b1": bn(j, c), "b2": bn(j - 1, c), "area2": 2 * ar[c.name] / H ** 2,
                              "d1x2": 2 * (lays[j].top - 0.5 * (lays[j].bottom + lays[j].top)) / H,
                              "d2x2": 2 * (z(c, j - 1) - lays[j - 1].bottom) / H, "cossign": -1})
        for k in geo.connectionlist:
            c1, c2 = k.column
            if inlay(c1, j) and inlay(c2, j):
                p, q = k.node[0].pos, k.node[1].pos
                h = min(top(c1, j), top(c2, j)) - lays[j].bottom
                dz = z(c2, j) - z(c1, j)
                conns.append({"kind": "horiz", "b1": bn(j, c1), "b2": bn(j, c2), "area2": 2 * math.hypot(q[0] - p[0], q[1] - p[1]) * h / H ** 2,
                              "d1x2": -1, "d2x2": -1, "cossign": -1 if dz > 1e-12 else (1 if dz < -1e-12 else 0)})
    return {"blocks": blocks, "data": data, "conns": conns, "totalvol": True}


def shipped_cases(tier, rng):
    """Irregular shipped geometries, a refinement, a rotation and a translation of them (the statement's quantifier)."""
    m = core.repo_modules("mulgrids")
    names = ["g7", "g1"] if tier == "quick" else ["g1", "g2", "g3", "g4", "g5", "g6", "g7"]
    for n in names:
        with core.quiet():
            geo = m.mulgrid(os.path.join(core.REPO, "tests", "mulgrid", n + ".dat"))
        yield n, geo
        if n in ("g7", "g3", "g5"):
            with core.quiet():
                g2 = m.mulgrid(os.path.join(core.REPO, "tests", "mulgrid", n + ".dat"))
                sel = [c for c in g2.columnlist if c.num_nodes in (3, 4)]
                g2.refine(rng.sample(sel, max(1, len(sel) // 6)))
                g2.setup_block_name_index()
                g2.setup_block_connection_name_index()
            yield n + "+refined", g2
            with core.quiet():
                g3 = m.mulgrid(os.path.join(core.REPO, "tests", "mulgrid", n + ".dat"))
                g3.rotate(27.0)
                g3.translate(np.array([1234.5, -987.25, 40.0]))
                g3.setup_block_name_index()
                g3.setup_block_connection_name_index()
            yield n + "+rotated+translated", g3


def _unmap(bmap, name):
    for k, v in bmap.items():
        if v == name:
            return k
    return name


def run(tier):
    rep = core.Report("C04", tier, "model_checking")
    quick = tier == "quick"
    rng = random.Random(core.seed() + 404)
    cases = {0: [], 1: [], 2: []}
    kinds = {"1x2": 2, "2x2": 4, "L": 3, "tri": 3}
    for kind, ncol in kinds.items():
        for nlay in (2, 3):
            # surface placements in lattice units below / above ground: above ground, at ground, inside the top layer,
            # on the first layer boundary, inside the second layer
            placements = [4, 0, -2, -4, -6] + ([-8, -10] if nlay == 3 else [])
            combos = list(itertools.product(placements, repeat=ncol))
            rng.shuffle(combos)
            for surf in combos[:(10 if quick else 150)]:
                for atm in (0, 1, 2):
                    conv = rng.choice([0, 0, 1, 2, 3])
                    order = rng.choice([None, "layer_column"] + ([] if kind in ("tri",) and False else ["dmplex"]))
                    angle = rng.choice([0.0, 0.0, 30.0, 90.0])
                    offmid = rng.random() < 0.25
                    via = rng.choice([None, None, (atm + 1) % 3, (atm + 2) % 3])
                    moved = rng.random() < 0.3
                    cases[atm].append((kind, nlay, surf, atm, conv, angle, order, offmid, via, moved))
    n = 0
    for atm in (0, 1, 2):
        geos, states = [], []
        for (kind, nlay, surf, a, conv, angle, order, offmid, via, moved) in cases[atm]:
            geo = make_geo(kind, nlay, surf, a, conv, angle, order, offmid, via, moved)
            ad = mgmodel.Adapter(geo)
            st = ad.project()
            st["lctr2"] = [int(round(2 * l.centre / H)) for l in geo.layerlist]
            if not st["lattice"]:
                raise tlc.MachineryError("case geometry is off the lattice")
            geos.append(geo)
            states.append(st)
        atmcol = "ATM"
        exps, r = expected(states, atm, atmcol)
        rep.add_tlc("GeoToGrid AtmType=%d: expected blocks, connections, volumes, areas, distances for %d geometries" % (atm, len(states)), r)
        for geo, exp, c in zip(geos, exps, cases[atm]):
            desc = {"mesh": c[0], "layers": c[1], "surface_offsets": list(c[2]), "atmos_type": c[3], "convention": c[4],
                    "permeability_angle": c[5], "block_order": c[6], "off_mid_layer_centre": c[7], "atmosphere_type_assigned_from": c[8],
                    "built_elsewhere_and_translated": c[9]}
            # the atmosphere column name depends on the convention: the spec's "ATM" stands for it
            exp = json.loads(json.dumps(exp).replace('"ATM"', json.dumps(geo.atmosphere_column_name))) if atm == 0 else exp
            rep.case(json.dumps(desc, sort_keys=True))
            check_case(rep, geo, exp, c[0], desc, rng)
            n += 1
            if n <= 2:
                rep.sample({"case": desc, "expected_blocks": exp["blocks"][:6], "expected_connections": [[e["b1"], e["b2"], e["kind"]] for e in exp["conns"][:5]]})
    for name, geo in shipped_cases(tier, rng):
        desc = {"mesh": name, "columns": geo.num_columns, "layers": geo.num_layers, "atmos_type": geo.atmosphere_type, "convention": geo.convention}
        rep.case(json.dumps(desc, sort_keys=True))
        check_case(rep, geo, float_expected(geo), name, desc, rng)
        n += 1
    rep.traces += n
    rep.rule = ("lattice geometries 1x2, 2x2 (unequal spacings), L-shaped, triangle+quadrilateral x 2..3 layers x surface placements per "
                "column (above ground, at ground, inside a layer, on a layer boundary, in a lower layer) x atmosphere types x "
                "conventions x block orders x permeability angles, with and without a block map; expected values from GeoToGrid.tla; "
                "shipped irregular geometries, refined, rotated and translated, against the same definitions in floating point")
    rep.leaves = ["horizontal connection distances (perpendicular distance centre -> shared edge) and the cosine's value from node and "
                  "centre coordinates in floating point (1e-9 / 1e-12)", "permeability direction checked for angle 0 only"]
    rep.assumptions = ["untilted geometries", "on shipped geometries (and their refinements / rotations) the expected values are GeoToGrid.tla's definitions instantiated in floating point by the harness (float_expected), not evaluated by TLC"]
    rep.exhaustive = False
    try:
        radial.observe(rep, quick)
    except Exception as e:          # (beyond the properties: never a verdict, never a failure of this check)
        print("OBSERVATION beyond-properties (t2grid.radial): harness stopped: %r" % (e,))
    return rep.finish()


def replay(path):
    print(json.dumps(json.load(open(path))["detail"], indent=1)[:3000])
    return 0
