"""C07 - what a listing shows does not depend on how you navigated there (specs/ListingNav.tla)."""
import json
import os
import random
import shutil
import time

import numpy as np

from lib import core, tlc, listing, tecnav

GEN = """---- MODULE GEN_ListingNav ----
EXTENDS ListingNav, Json
Emit == hist = <<>> \\/ PrintT("EMIT" \\o ToJson(hist))
====
"""


def behaviours(n, maxlen, simulate=None, seed=0):
    cfg = ("CONSTANTS N = %d\nMaxLen = %d\nINIT Init\nNEXT Next\nCONSTRAINT Emit\nINVARIANT P_InRange\n"
           "INVARIANT P_NextPrevBounds\nINVARIANT P_NearestIsNearest\nINVARIANT P_HistoryNoMove\nCHECK_DEADLOCK FALSE\n"
           % (n, maxlen))
    return tlc.run_tlc("GEN_ListingNav", None, cfg_text=cfg, workers=1, timeout=1800,
                       extra_modules={"GEN_ListingNav.tla": GEN}, allow_violation=False, heap="8g",
                       simulate=simulate, depth=(maxlen + 1) if simulate else None, seed=seed if simulate else None)


def probe_value(axis, p, n):
    """Maps an abstract probe coordinate to a real time / step of the file (axis = array of n values)."""
    if p < 0:
        return axis[0] - max(1.0, abs(axis[0]) * 0.5)
    if p > 4 * (n - 1):
        return axis[-1] + max(1.0, abs(axis[-1]) * 0.5)
    i, d = divmod(p, 4)
    if d == 0:
        return axis[i]
    return axis[i] + (axis[i + 1] - axis[i]) * d / 4.0


def selection_for(lst, k):
    """Two fixed history selections per file (first row/first column of the first table; last/last of the last)."""
    names = lst._tablenames
    code = {"element": "e", "connection": "c", "generation": "g", "primary": "p", "element1": "e1", "element2": "e2"}
    if k == 3:      # matches nothing: unknown row name, and a table type the listing may not have
        return [(code[names[0]], "~no~such~", lst._table[names[0]].column_name[0]), ("g9", "zz", "zz")]
    if k == 1:
        t = lst._table[names[0]]
        return [(code[names[0]], t.row_name[0], t.column_name[0])]
    t = lst._table[names[0]]
    return [(code[names[0]], t.row_name[-1], t.column_name[-1]), (code[names[0]], t.row_name[0], t.column_name[-1])]


def usable_axis(a):
    a = np.asarray(a, dtype=float)
    return len(a) == 1 or bool(np.all(np.diff(a) > 0))


def replay_behaviour(rep, lst, oracle, beh, fname, n, state):
    """Replays a behaviour (list of spec records) on an already opened reader, whose current index is
    state['idx'] (the behaviours all start from index 0: the reader is reset with first())."""
    try:
        with core.watchdog(20), core.quiet():
            lst.first()
    except core.Hang as e:
        rep.violation("%s:hang:first" % lst.simulator, "P_terminates", {"file": fname, "n": n, "actions": ["first"], "error": str(e)})
        state["abort"] = True
        return False
    times, steps = lst.fulltimes, lst.fullsteps
    done = []
    for r in beh:
        act, arg = r["act"], r["arg"]
        done.append((act, arg))
        ret = None
        ambiguous = False
        try:
            with core.watchdog(20), core.quiet():
                if act == "first":
                    lst.first()
                elif act == "last":
                    lst.last()
                elif act == "next":
                    ret = lst.next()
                elif act == "prev":
                    ret = lst.prev()
                elif act == "index":
                    lst.index = arg
                elif act == "time":
                    if not state["time_ok"]:
                        return True
                    lst.time = probe_value(times, arg, n)
                    ambiguous = (0 <= arg <= 4 * (n - 1) and arg % 4 == 2)
                elif act == "step":
                    if not state["step_ok"]:
                        return True
                    sv = probe_value(steps, arg, n)
                    if 0 <= arg <= 4 * (n - 1) and arg % 4 in (1, 3):
                        # steps are whole numbers: ask for one (between the two printed steps, on the same side of the middle)
                        i_ = arg // 4
                        lo_, hi_ = float(steps[i_]), float(steps[i_ + 1])
                        cand = int(sv)
                        if lo_ < cand < hi_ and cand != 0.5 * (lo_ + hi_) and (cand < 0.5 * (lo_ + hi_)) == (arg % 4 == 1):
                            sv = cand
                    lst.step = sv
                    ambiguous = (0 <= arg <= 4 * (n - 1) and arg % 4 == 2)
                elif act == "history":
                    # history's options vary with the position in the behaviour (plain, full results only, dated)
                    kw = [{}, {"short": False}, {"start_datetime": __import__("datetime").datetime(2000, 1, 1)}][len(done) % 3]
                    if "start_datetime" in kw and not (max(abs(float(x)) for x in times) < 1.0e9):
                        kw = {}         # (times beyond what a timedelta holds: outside what a dated history can express)
                    h = lst.history(selection_for(lst, arg), **kw)
                    if h is None and arg != 3:
                        raise RuntimeError("history returned None for a valid selection")
        except core.Hang as e:
            rep.violation("%s:hang:%s" % (lst.simulator, act), "P_terminates",
                          {"file": fname, "n": n, "actions": done, "error": str(e)})
            state["abort"] = True          # the reader is in an undefined state after an interrupted call
            return False
        except Exception as e:
            rep.violation("%s:raises:%s" % (lst.simulator, act), "P_no_exception",
                          {"file": fname, "n": n, "actions": done, "error": repr(e)})
            return False
        want = r["idx"]
        if ambiguous and lst.index != want:
            # exactly between two result sets: either neighbour is "nearest"
            i = arg // 4
            if lst.index in (i, i + 1):
                return True            # the rest of this behaviour assumed the other choice
        if lst.index != want:
            rep.violation("%s:index:%s" % (lst.simulator, act), "P1_index",
                          {"file": fname, "n": n, "actions": done, "expected_index": want, "got": lst.index})
            return False
        if act in ("next", "prev") and bool(ret) != r["ret"]:
            rep.violation("%s:returned:%s" % (lst.simulator, act), "P1_moved_flag",
                          {"file": fname, "n": n, "actions": done, "expected": r["ret"], "got": ret})
            return False
        d = listing.diff_snapshots(listing.snapshot(lst), oracle.at(want))
        if d:
            rep.violation("%s:contents:%s" % (lst.simulator, act), "P2_same_as_fresh_reader",
                          {"file": fname, "n": n, "actions": done, "difference": d})
            return False
        if float(lst.time) != float(times[want]) or lst.step != steps[want]:
            rep.violation("%s:time-step:%s" % (lst.simulator, act), "P3_time_step_of_index",
                          {"file": fname, "n": n, "actions": done})
            return False
    return True


def run(tier):
    rep = core.Report("C07", tier, "model_checking")
    quick = tier == "quick"
    rng = random.Random(core.seed() + 707)
    work = tlc.scratch_dir("c07-")
    budget = 55 if quick else 1500
    t0 = time.time()
    try:
        # behaviours from TLC: exhaustive up to depth L for each N, plus simulated long ones
        maxlen = 2 if quick else 3
        behs = {}
        for n in (1, 2, 3, 4):
            r = behaviours(n, maxlen)
            rep.add_tlc("GEN_ListingNav N=%d MaxLen=%d (all behaviours, invariants checked)" % (n, maxlen), r)
            behs[n] = r.emitted
            rs = behaviours(n, 10, simulate="num=%d" % (40 if quick else 400), seed=core.seed() + n)
            rep.add_tlc("GEN_ListingNav N=%d simulate depth 10" % n, rs)
            longest = [b for b in rs.emitted if len(b) == 10]
            behs[(n, "long")] = longest
        files = []
        for f in listing.listing_files():
            l = listing.open_listing(f)
            files.append((f, l.num_fulltimes, os.path.getsize(f)))
            l.close()
        multi = [x for x in files if x[1] >= 2]
        multi.sort(key=lambda x: x[2])
        rep.extra["files_with_two_or_more_result_sets"] = len(multi)
        nbeh = 0
        per_file_budget = budget / max(1, len(multi))
        for f, nfull, size in multi:
            tf = time.time()
            lfull = listing.open_listing(f)
            for n in sorted(set([min(nfull, 4), min(nfull, 3), 2, 1]), reverse=True):
                if n > nfull:
                    continue
                path = f if n == nfull else listing.truncated_copy(f, lfull, n, work)
                try:
                    lst = listing.open_listing(path)
                except Exception as e:
                    if n == nfull:
                        raise
                    rep.drifted("truncated copy of %s to %d result sets does not open: %r" % (listing.short_name(f), n, e))
                    continue
                if lst.num_fulltimes != n:
                    rep.drifted("truncated copy of %s has %d result sets, expected %d" % (listing.short_name(f), lst.num_fulltimes, n))
                    lst.close()
                    continue
                oracle = listing.FreshOracle(path)
                state = {"time_ok": usable_axis(lst.fulltimes), "step_ok": usable_axis(lst.fullsteps)}
                todo = list(behs[n]) + list(behs[(n, "long")])
                # every behaviour of length <= 2 first (pairs of positions), then longer ones in random order
                short = [b for b in todo if len(b) <= 2]
                longer = [b for b in todo if len(b) > 2]
                rng.shuffle(longer)
                for b in short + longer:
                    if (time.time() - tf > per_file_budget and len(b) > 1) or state.get("abort") or state.get("bad", 0) >= 5:
                        break
                    ok = replay_behaviour(rep, lst, oracle, b, listing.short_name(f), n, state)
                    if not ok:
                        state["bad"] = state.get("bad", 0) + 1
                    rep.case((listing.short_name(f), n, json.dumps([(x["act"], x["arg"]) for x in b])), nontrivial=len(b) > 0)
                    nbeh += 1
                    if nbeh % 2000 == 1:
                        rep.sample({"file": listing.short_name(f), "result_sets": n,
                                    "behaviour": [(x["act"], x["arg"], x["idx"]) for x in b]})
                lst.close()
            # the untruncated file with more than 4 result sets: random long navigation against the oracle
            if nfull > 4:
                oracle = listing.FreshOracle(f)
                state = {"time_ok": usable_axis(lfull.fulltimes), "step_ok": usable_axis(lfull.fullsteps)}
                for _ in range(3 if quick else 40):
                    beh, idx = [], 0
                    for _ in range(8):
                        act = rng.choice(["first", "last", "next", "prev", "index", "time", "step", "history"])
                        arg, ret = 0, True
                        if act == "first":
                            idx = 0
                        elif act == "last":
                            idx = nfull - 1
                        elif act == "next":
                            ret = idx < nfull - 1
                            idx += 1 if ret else 0
                        elif act == "prev":
                            ret = idx > 0
                            idx -= 1 if ret else 0
                        elif act == "index":
                            arg = rng.randint(-nfull, nfull - 1)
                            idx = arg + nfull if arg < 0 else arg
                        elif act in ("time", "step"):
                            i = rng.randint(0, nfull - 2)
                            d = rng.choice([0, 1, 3])
                            arg = 4 * i + d
                            idx = i if d <= 1 else i + 1
                        else:
                            arg = rng.choice([1, 2, 3])
                        beh.append({"act": act, "arg": arg, "idx": idx, "ret": ret})
                    if state.get("abort"):
                        break
                    replay_behaviour(rep, lfull, oracle, beh, listing.short_name(f), nfull, state)
                    rep.case((listing.short_name(f), nfull, json.dumps([(x["act"], x["arg"]) for x in beh])))
                    nbeh += 1
            lfull.close()
        rep.traces += nbeh
        try:
            tecnav.run(rep, behs, work, 150 if quick else 2000)
        except Exception as e:          # (beyond the properties: never a verdict, never a failure of this check)
            print("OBSERVATION beyond-properties (toughreact_tecplot navigation): harness stopped: %r" % (e,))
        rep.extra["behaviours_replayed"] = nbeh
        rep.rule = ("every ListingNav behaviour of length <= %d for N=1..4 (TLC, exhaustive) and TLC-simulated behaviours of "
                    "length 10, replayed on each shipped listing with >= 2 result sets and on truncated copies giving "
                    "N=1..4, within a per-file time budget (shortest first); distinct = (file, N, action sequence)" % maxlen)
        rep.leaves = ["table contents compared bitwise with a freshly opened reader positioned with index=i"]
        rep.assumptions = ["a probe exactly between two result sets may select either neighbour",
                           "set_time/set_step probes are replayed only on files whose times/steps are strictly increasing"]
        rep.exhaustive = False
        return rep.finish()
    finally:
        shutil.rmtree(work, ignore_errors=True)


def replay(path):
    d = json.load(open(path))["detail"]
    print(json.dumps(d, indent=1)[:3000])
    return 0
