"""C18 - reverse-engineering a rectangular geometry inverts grid generation (specs/RectGeo.tla)."""
import json
import os
import random
import shutil

import numpy as np

from lib import core, tlc

MOD = r"""---- MODULE MC_RectGeo ----
EXTENDS RectGeo, Json
A == {<<2>>, <<2, 3>>, <<2, 3, 5>>}
B == {<<3>>, <<3, 2>>%s}
C == {<<2, 3>>, <<3, 2, 5>>}
MCBoxesOK == UNION {{[dx |-> a, dy |-> b, dz |-> c, miss |-> m] : m \in [1..(Len(a) * Len(b)) -> 0..2]} : a \in A, b \in B, c \in C}
Emit == ~WFBox \/ PrintT("EMIT" \o ToJson([box |-> box, r1 |-> R1, r2 |-> R2, r3 |-> R3]))
====
"""
CFG = ('CONSTANTS Boxes <- MCBoxesOK\n Variant = "%s"\nINIT Init\nNEXT Next\nINVARIANT P_Spacings\nINVARIANT P_OriginIsFirstBottomBlock\n'
       'INVARIANT P_Not1D\nCHECK_DEADLOCK FALSE\n%s')


def model(variant, export, rich):
    return tlc.run_tlc("MC_RectGeo", None, cfg_text=CFG % (variant, "CONSTRAINT Emit\n" if export else ""), workers=1 if export else 8,
                       timeout=1800, heap="8g", extra_modules={"MC_RectGeo.tla": MOD % (", <<2, 5, 3>>" if rich else "")})


def compare(rep, geo, rng, key, det, work, viafile):
    """geo -> fromgeo -> (file) -> rectgeo -> compare with geo; fromgeo(geo2, map) reproduces the grid."""
    t2grids, t2data = core.repo_modules("t2grids", "t2data")
    try:
        with core.watchdog(120), core.quiet():
            grid = t2grids.t2grid().fromgeo(geo)
            if viafile:
                dat = t2data.t2data()
                dat.grid = grid
                f = os.path.join(work, "m.dat")
                dat.write(f)
                grid0, grid = grid, t2data.t2data(f).grid
                # the grid re-read from the file is the grid that was written: same blocks, same connections, by name
                if [b.name for b in grid.blocklist] != [b.name for b in grid0.blocklist] or \
                        [tuple(b.name for b in c.block) for c in grid.connectionlist] != [tuple(b.name for b in c.block) for c in grid0.connectionlist]:
                    det["difference"] = "block or connection names of the re-read grid differ from those written: %r vs %r" % (
                        [b.name for b in grid.blocklist if b.name not in grid0.block][:5], [b.name for b in grid0.blocklist if b.name not in grid.block][:5])
                    rep.violation(key + ":P_reread_grid", "P_reread_grid", det)
                    return
            # the reconstructed geometry may be asked for in another naming convention: the block map then carries every name
            conv2 = geo.convention if rng.random() < 0.6 else rng.choice([c for c in (0, 1, 2) if c != geo.convention and (c != 1 or geo.num_nodes <= 99)])      # (convention 1 names nodes with two characters as well)
            det["rectgeo_convention"] = conv2
            # layer_snap: the default, or none at all (stepped surfaces lie on layer boundaries already)
            snap = {} if rng.random() < 0.6 or not det.get("stepped_on_boundaries", False) else {"layer_snap": 0.0}
            det["rectgeo_layer_snap"] = snap.get("layer_snap", "default")
            geo2, bmap = grid.rectgeo(convention=conv2, atmos_type=geo.atmosphere_type, **snap)
    except core.Hang:
        rep.violation(key + ":hang", "P_terminates", det)
        return
    except Exception as e:
        det["error"] = repr(e)
        rep.violation(key + ":raises", "P_reconstruction_completes", det)
        return
    # a data file carries four significant digits of centres and distances: compare relative to the size of the model
    ext = max(1.0, float(np.max(np.abs(np.array([n.pos for n in geo.nodelist])))), abs(geo.layerlist[-1].bottom), abs(geo.layerlist[0].bottom))
    tol = 2e-3 if viafile else 1e-9

    def close(a, b):
        a, b = np.asarray(a, dtype=float), np.asarray(b, dtype=float)
        return a.shape == b.shape and np.all(np.abs(a - b) <= tol * ext)
    dx = sorted(set(round(n.pos[0], 6) for n in geo.nodelist))
    # spacings, position and orientation: node sets coincide (original geometry may be rotated)
    n1 = sorted((round(float(n.pos[0]), 4), round(float(n.pos[1]), 4)) for n in geo.nodelist)
    n2 = sorted((round(float(n.pos[0]), 4), round(float(n.pos[1]), 4)) for n in geo2.nodelist)
    bad = None
    if len(n1) != len(n2) or not close(np.array(n1), np.array(n2)):
        bad = ("P_spacings_position_orientation", "node positions differ: %s vs %s" % (n2[:4], n1[:4]))
    elif geo2.num_layers != geo.num_layers or not close([l.bottom for l in geo2.layerlist], [l.bottom for l in geo.layerlist]):
        bad = ("P_vertical_spacings", "layer bottoms %s vs %s" % ([l.bottom for l in geo2.layerlist], [l.bottom for l in geo.layerlist]))
    else:
        # surfaces: match columns by position
        for c in geo.columnlist:
            c2 = min(geo2.columnlist, key=lambda x: np.linalg.norm(x.centre - c.centre))
            if np.linalg.norm(c2.centre - c.centre) > 2 * tol * ext or abs(c2.surface - c.surface) > tol * ext:
                bad = ("P_surfaces", "column at %s: surface %r, original %r" % (list(c.centre), c2.surface, c.surface))
                break
    if not bad:
        if geo2.atmosphere_type != geo.atmosphere_type:
            bad = ("P_atmosphere", "atmosphere type %r" % geo2.atmosphere_type)
    if not bad:
        try:
            with core.quiet():
                g3 = t2grids.t2grid().fromgeo(geo2, bmap)
        except Exception as e:
            bad = ("P_block_map", "fromgeo(reconstructed, map) raised %r" % e)
    if not bad:
        names0 = sorted(b.name for b in grid.blocklist)
        names3 = sorted(b.name for b in g3.blocklist)
        if names0 != names3:
            bad = ("P_block_map", "block names differ: %s vs %s" % (names3[:6], names0[:6]))
        else:
            for b in grid.blocklist:
                if not (0.0 < b.volume < 1.0e20):      # inactive (atmosphere) blocks: the volume is a setting of the geometry, not in the statement
                    continue
                if abs(g3.block[b.name].volume - b.volume) > 4 * tol * max(1.0, abs(b.volume)):
                    bad = ("P_block_map", "block %s volume %r vs %r" % (b.name, g3.block[b.name].volume, b.volume))
                    break
        if not bad:
            c0 = set(frozenset(k) for k in grid.connection)
            c3 = set(frozenset(k) for k in g3.connection)
            if c0 != c3:
                bad = ("P_block_map", "connections differ: %d vs %d" % (len(c3), len(c0)))
    if bad:
        det["difference"] = bad[1]
        rep.violation(key + ":" + bad[0], bad[0], det)


def run(tier):
    rep = core.Report("C18", tier, "model_checking")
    quick = tier == "quick"
    rng = random.Random(core.seed() + 1818)
    m = core.repo_modules("mulgrids")
    work = tlc.scratch_dir("c18-")
    try:
        rn = model("pinned", False, False)
        rep.add_tlc("RectGeo Variant=pinned (negative configuration: origin sizes from the origin block's own connections)", rn,
                    note="violates: %s" % rn.violated)
        if not rn.violated:
            raise tlc.MachineryError("negative configuration did not fail")
        r = model("fixed", True, not quick)
        rep.add_tlc("RectGeo Variant=fixed: spacings recovered, origin block, never 1-D, for every box (+ export)", r)
        if r.violated:
            raise tlc.MachineryError("RectGeo violates " + str(r.violated))
        boxes = r.emitted
        rng.shuffle(boxes)
        boxes = boxes[:(400 if quick else 3000)]
        n = 0
        for e in boxes:
            b = e["box"]
            scale = rng.choice([10.0, 2.5, 125.0])
            for atm in ((rng.choice([0, 1, 2]),) if quick else (0, 1, 2)):
                conv = rng.choice([0, 1, 2, 3])
                origin = [rng.choice([0.0, 1.0e3, -250.0]), rng.choice([0.0, 5.0e3]), rng.choice([0.0, 100.0, -40.0])]
                angle = rng.choice([0.0, 0.0, 30.0, -45.0, 90.0])
                if n % 5 == 0:
                    origin, angle = [0.0, 0.0, 0.0], 0.0
                    if n % 10 == 0:     # block centres with a coordinate of exactly zero
                        origin = [-0.5 * b["dx"][0] * scale, -0.5 * b["dy"][0] * scale, 0.5 * b["dz"][0] * scale]
                    elif n % 20 == 5 and scale != 125.0:   # the whole model above z = 0 (through a data file: a block without a centre
                        origin = [0.0, 0.0, 2.0 * sum(b["dz"]) * scale]     # stays without one); elevations still exact in four digits
                atmvol = rng.choice([None, None, 0.0, 1.0e30]) if atm else None
                with core.quiet():
                    geo = m.mulgrid().rectangular([x * scale for x in b["dx"]], [x * scale for x in b["dy"]], [x * scale for x in b["dz"]],
                                                  convention=conv, atmos_type=atm, origin=origin)
                    if atmvol is not None:
                        geo.atmosphere_volume = atmvol
                    if angle:
                        geo.rotate(angle, np.array(origin[:2]))
                        geo.permeability_angle = -angle
                    for c, miss in zip(geo.columnlist, b["miss"]):
                        if miss:
                            c.surface = geo.layerlist[miss].bottom
                            geo.set_column_num_layers(c)
                    geo.setup_block_name_index()
                    geo.setup_block_connection_name_index()
                viafile = (n % 5 == 0)
                if viafile:             # keep the coordinates small: a file only carries four digits of them
                    origin, angle = [0.0, 0.0, origin[2] if (n % 20 == 5 and scale != 125.0) else 0.0], 0.0
                key = "box%dx%dx%d:atm%d" % (len(b["dx"]), len(b["dy"]), len(b["dz"]), atm)
                det = {"box": b, "scale": scale, "atmos_type": atm, "convention": conv, "origin": origin, "angle": angle, "atmosphere_volume": atmvol,
                       # (without snapping, a surface recovered from block centres must be exact: no rotation, no offset, no file)
                       "stepped_on_boundaries": angle == 0.0 and origin == [0.0, 0.0, 0.0] and not (n % 5 == 0)}
                rep.case(json.dumps(det, sort_keys=True))
                compare(rep, geo, rng, key, det, work, viafile=viafile)
                n += 1
        # larger boxes with sloping (partial-layer) surfaces
        for _ in range(10 if quick else 150):
            nx, ny, nz = rng.randint(1, 12), rng.randint(1, 12), rng.randint(2, 14)
            if nx == 1 and ny == 1:
                ny = 2
            atm, conv = rng.choice([0, 1, 2]), rng.choice([0, 1, 2, 3])
            if conv == 1 and (nx + 1) * (ny + 1) > 99:
                conv = 0
            with core.quiet():
                geo = m.mulgrid().rectangular([round(rng.uniform(5, 500), 1) for _ in range(nx)], [round(rng.uniform(5, 500), 1) for _ in range(ny)],
                                              [round(rng.uniform(2, 100), 1) for _ in range(nz)], convention=conv, atmos_type=atm,
                                              origin=[rng.uniform(-1e4, 1e4), rng.uniform(-1e4, 1e4), rng.uniform(-100, 500)])
                depth = geo.layerlist[0].bottom - geo.layerlist[-2].bottom if nz > 1 else 0
                full = rng.randrange(geo.num_columns)
                for i, c in enumerate(geo.columnlist):
                    if i != full and rng.random() < 0.4:
                        c.surface = geo.layerlist[0].bottom - rng.uniform(0.0, depth * 0.95)
                        geo.set_column_num_layers(c)
                geo.snap_columns_to_layers(0.1)
                if atm and rng.random() < 0.4:
                    geo.atmosphere_volume = rng.choice([0.0, 1.0e30])
                geo.setup_block_name_index()
                geo.setup_block_connection_name_index()
            key = "sloping:atm%d" % atm
            det = {"size": [nx, ny, nz], "atmos_type": atm, "convention": conv}
            rep.case(json.dumps(det, sort_keys=True) + str(n))
            compare(rep, geo, rng, key, det, work, viafile=False)
            n += 1
        # wide flat boxes (100 and more columns: three-character column numbers in convention 2) through a data file
        for k_ in range(3 if quick else 12):
            nx, ny = rng.choice([(12, 9), (10, 10), (11, 10), (12, 12), (9, 12)])
            conv, atm = (2 if k_ % 3 == 0 else rng.choice([0, 2, 3])), rng.choice([0, 1, 2])
            with core.quiet():
                geo = m.mulgrid().rectangular([10.0 * rng.randint(1, 4) for _ in range(nx)], [10.0 * rng.randint(1, 4) for _ in range(ny)],
                                              [10.0, 20.0, 30.0][:rng.randint(2, 3)], convention=conv, atmos_type=atm)
            key = "wide:atm%d" % atm
            det = {"size": [nx, ny, geo.num_layers - 1], "atmos_type": atm, "convention": conv}
            rep.case(json.dumps(det, sort_keys=True) + str(n))
            compare(rep, geo, rng, key, det, work, viafile=True)
            n += 1
        rep.traces += n
        rep.sample({"box": boxes[0]["box"], "recovered": [boxes[0]["r1"], boxes[0]["r2"], boxes[0]["r3"]]})
    finally:
        shutil.rmtree(work, ignore_errors=True)
    rep.rule = ("every well-formed box of RectGeo (1..3 x 1..2(3) x 2..3 blocks, distinct spacings, every stepped surface) scaled, placed, "
                "rotated, with every atmosphere type and convention, through fromgeo -> rectgeo -> fromgeo(map) (every fifth via a data "
                "file); larger boxes (up to 12x12x14) with sloping surfaces")
    rep.leaves = ["positions, layer bottoms, surfaces, volumes compared numerically (1e-7; via a data file to the four digits connection distances carry)"]
    rep.assumptions = ["some column reaches the top of the model (otherwise the top layer's thickness is not in the grid)",
                       "atmosphere blocks with zero, default and 1e30 volume are generated; their volumes are not compared (a setting of the geometry)"]
    rep.exhaustive = False
    return rep.finish()


def replay(path):
    print(json.dumps(json.load(open(path))["detail"], indent=1)[:3000])
    return 0
