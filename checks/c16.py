"""C16 - Fortran-written numbers are read with Fortran's meaning and never raise (specs/FortranNum.tla)."""
import json
import random

from lib import core, tlc, fortran


def render_styles(rng, mant_digits, exponent, sign):
    """A real number in the output styles a Fortran program produces (the quantifier of C16)."""
    digs = "".join(rng.choice("0123456789") for _ in range(mant_digits))
    digs = (rng.choice("123456789") + digs[1:]) if digs else "1"
    sg = {"-": "-", "+": "+", "": ""}[sign]
    esg = "-" if exponent < 0 else "+"
    ae = abs(exponent)
    mant = ["0." + digs, "." + digs, digs[0] + "." + digs[1:], digs + "."]
    out = []
    for m in mant:
        for letter in ["E", "D", "e", "d"]:
            out.append(sg + m + letter + esg + "%02d" % ae)
            if exponent >= 0:
                out.append(sg + m + letter + "%02d" % ae)
                out.append(sg + m + letter + " " + "%02d" % ae)      # blank instead of plus
        if ae >= 100:
            out.append(sg + m + esg + "%03d" % ae)                   # letter dropped
        if exponent == 0:
            out.append(sg + m)
    res = []
    for t in out:
        pad = rng.choice(["", " ", "  ", "   "])
        res.append(pad + t)
        res.append(t + pad)
        if len(t) > 3:
            k = rng.randint(1, len(t) - 1)
            res.append(t[:k] + " " + t[k:])                          # embedded blank
    return res


def run(tier):
    fff = core.repo_modules("fixed_format_file")
    rep = core.Report("C16", tier, "model_checking")
    rng = random.Random(core.seed() + 1601)
    quick = tier == "quick"

    # MC: design-level properties of the grammar over every field up to MaxLen
    n = 5 if quick else 6
    cfg = ("CONSTANT MaxLen = %d\nINIT Init\nNEXT Next\nINVARIANT I_BlanksIgnored\nINVARIANT I_DmeansE\n"
           "INVARIANT I_OutputAccepted\nINVARIANT I_KindTotal\nINVARIANT I_Prefix\nINVARIANT I_TreeCounts\n"
           "CHECK_DEADLOCK FALSE\n" % n)
    r = tlc.run_tlc("FortranNum", None, cfg_text=cfg, workers=16, timeout=3000, heap="16g")
    rep.add_tlc("FortranNum MaxLen=%d: blanks ignored, D=E, Fortran output accepted, dead stays dead" % n, r)
    if r.violated:
        raise tlc.MachineryError("FortranNum violates its own invariant " + str(r.violated))

    # S2C: every class string up to length m, concretised, through the real readers
    m = 5 if quick else 6
    ex = fortran.export_fields(m)
    rep.add_tlc("GEN_FortranNum MaxLen=%d (export of every field with its outcome class)" % m, ex)
    nvar = 2 if quick else 3
    for e in ex.emitted:
        w = e["w"]
        for _ in range(nvar if w else 1):
            text = fortran.concretise(w, rng)
            fortran.check_call(rep, fff, "float", text, e["rk"], e["re"], "s2c")
            fortran.check_call(rep, fff, "int", text, e["ik"], "", "s2c")
        rep.case(("w", "".join(c[0] + c[-1] for c in w)), nontrivial=bool(w))
    rep.traces += len(ex.emitted)
    rep.extra["s2c_class_strings"] = len(ex.emitted)

    # C2S: Fortran renderings (long mantissas, exponents -300..300) and arbitrary printable strings,
    # classified by TLC (FortranNumTrace)
    texts = []
    exps = list(range(-300, 301, 7 if quick else 1))
    for ex_ in exps:
        for nd in ([1, 5, 17] if quick else [1, 2, 5, 9, 13, 16, 17]):
            for sg in ["", "-", "+"]:
                rs = render_styles(rng, nd, ex_, sg)
                rng.shuffle(rs)
                texts.extend(rs[:6 if quick else 12])
    for _ in range(200 if quick else 2000):                       # integers with blank padding
        t = rng.choice(["", "-", "+"]) + str(rng.randint(0, 10 ** rng.randint(1, 9)))
        k = rng.randint(0, len(t))
        texts.append(" " * rng.randint(0, 4) + t[:k] + " " * rng.randint(0, 2) + t[k:] + " " * rng.randint(0, 3))
    for w in range(1, 21):                                        # overflow asterisks, blank fields
        texts.append("*" * w)
        texts.append(" " * w)
    alphabet = [chr(c) for c in range(32, 127)]
    numeric = list("0123456789+-.eEdD ")
    for _ in range(4000 if quick else 60000):
        L = rng.randint(0, 20)
        src = alphabet if rng.random() < 0.3 else numeric + ([rng.choice(alphabet)] if rng.random() < 0.3 else [])
        texts.append("".join(rng.choice(src) for _ in range(L)))
    texts = [t[:20] if len(t) > 24 else t for t in texts]
    calls = []
    for t in texts:
        w = fortran.classify(t)
        for f in ("float", "int"):
            obs, _ = fortran.observe(fff.fortran_float if f == "float" else fff.fortran_int, t)
            calls.append({"w": w, "f": f, "obs": obs})
    kinds, tr = fortran.classify_calls(calls)
    rep.add_tlc("FortranNumTrace (classification of %d recorded calls)" % len(calls), tr)
    i = 0
    for t in texts:
        for f in ("float", "int"):
            k = kinds[i]
            fortran.check_call(rep, fff, f, t, k["kind"], k["exp"], "c2s")
            i += 1
        rep.case(("t", t))
    rep.traces += len(calls)
    # a field at the end of a short line carries the line end: whitespace-only texts are blank fields for every caller
    for t in [" \n", "\n", "\t", "   \r\n", " \t ", "\n ", "     \n"]:
        for f in ("float", "int"):
            fortran.check_call(rep, fff, f, t, "blank", "", "whitespace")
        rep.case(("ws", t))
    # the read-function tables hand the same readers to every real / integer format letter
    table = fff.fortran_read_function
    sample = rng.sample(texts, min(len(texts), 3000 if quick else 30000)) + ["0.3D06", "0.3D 06", "1.234-105", "1.5+03", " 12 3", "****", "   "]
    for letter in sorted(table):
        want = {"d": fff.fortran_read_int, "f": fff.fortran_read_float, "e": fff.fortran_read_float, "g": fff.fortran_read_float}.get(letter)
        if want is None:
            continue
        for t in sample:
            try:
                a, b = table[letter](t), want(t)
            except Exception as ex:
                rep.violation("table:%s:raises" % letter, "never_raises", {"format_letter": letter, "text": t, "error": repr(ex)})
                break
            rep.case(None)
            if not (fortran.same(a, b) or (a is None and b is None)):
                rep.violation("table:%s" % letter, "fortran_meaning", {"format_letter": letter, "text": t, "table_reader": repr(a), "reader": repr(b)})
                break
    # read-function selection: two parsers over ONE specification, opened one after the other with different tables
    import os
    import tempfile
    spec = {"rec": [["a", "b", "c", "d"], ["10.3e", "12.5e", "5d", "10.2f"]]}
    line = "%10s%12s%5s%10s" % ("0.3D06", "1.23400-105", " 1 2", "**********")
    want_f = [fff.fortran_read_float("0.3D06".rjust(10)), fff.fortran_read_float("1.23400-105".rjust(12)),
              fff.fortran_read_int(" 1 2".rjust(5)), fff.fortran_read_float("**********")]
    for order in (("default", "fortran"), ("fortran", "default"), ("fortran", "fortran")):
        fd, path = tempfile.mkstemp(prefix="verif-c16-")
        os.close(fd)
        try:
            got = {}
            for which in order:
                tab = fff.default_read_function if which == "default" else fff.fortran_read_function
                p_ = fff.fixed_format_file(path, "w", spec, tab)
                try:
                    got[which] = p_.parse_string(line, "rec")
                except Exception as ex:
                    got[which] = "raised " + repr(ex)
                p_.close()
            rep.case(("selection", order))
            g = got["fortran"]
            if isinstance(g, str) or not all(fortran.same(a, b) or (a is None and b is None) for a, b in zip(g, want_f)):
                rep.violation("read-function-selection:%s-then-%s" % order, "fortran_meaning",
                              {"line": line, "parsers_opened": list(order), "fortran_table_parser_returned": repr(g), "expected": repr(want_f)})
        finally:
            os.unlink(path)
    # the readers selected for a data file are also the readers of its separate mesh file
    try:
        t2data, t2grids = core.repo_modules("t2data", "t2grids")
        import shutil
        wd = tempfile.mkdtemp(prefix="verif-c16m-")
        try:
            with core.quiet():
                dat = t2data.t2data()
                g = t2grids.t2grid()
                g.add_rocktype(t2grids.rocktype("rock1"))
                vols = [1000.0, 2500.0, 125.0]
                for k_, v_ in enumerate(vols):
                    g.add_block(t2grids.t2block("AA%3d" % (k_ + 1), v_, g.rocktype["rock1"]))
                g.add_connection(t2grids.t2connection([g.blocklist[0], g.blocklist[1]], 1, [5.0, 5.0], 10.0, 0.0))
                dat.grid = g
                main, mesh = os.path.join(wd, "m.dat"), os.path.join(wd, "MESH")
                dat.write(main, meshfilename=mesh)
            txt = open(mesh).read()
            forms = {"1.0000e+03": "0.1000D+04", "2.5000e+03": "0.2500+004", "1.2500e+02": "0.125E 03 "}
            txt2 = txt
            for a_, b_ in forms.items():
                txt2 = txt2.replace(a_, b_).replace(a_.upper(), b_)
            rep.case(("mesh-file-readers",))
            if txt2 != txt:
                open(mesh, "w").write(txt2)
                with core.quiet():
                    d2 = t2data.t2data(main, meshfilename=mesh, read_function=fff.fortran_read_function)
                got = [b_.volume for b_ in d2.grid.blocklist]
                if got != vols:
                    rep.violation("read-function-selection:separate-mesh-file", "fortran_meaning",
                                  {"volumes_in_mesh_file": list(forms.values()), "read": repr(got), "expected": vols})
        finally:
            shutil.rmtree(wd, ignore_errors=True)
    except Exception as ex:
        rep.violation("read-function-selection:separate-mesh-file:raises", "never_raises", {"error": repr(ex)})
    for t in texts[:3] + texts[-3:]:
        def safe(fn_, x_):
            try:
                return repr(fn_(x_))
            except Exception as ex_:
                return "raised " + repr(ex_)
        rep.sample({"text": t, "fortran_float": safe(fff.fortran_float, t), "fortran_int": safe(fff.fortran_int, t)})
    rep.extra["c2s_calls_classified"] = len(calls)
    rep.rule = ("S2C: every character-class string up to length %d (9 classes) concretised %d times; C2S: rendered "
                "reals (exponents -300..300, 1..17 digits, all output styles), padded integers, asterisk/blank fields, "
                "random printable strings <= 20; distinct = distinct text / class string, all non-empty are non-trivial" % (m, nvar))
    rep.leaves = ["expected value of a Fortran rendering = Python float()/int() of the canonical text (blanks dropped, "
                  "D->E, letter inserted before a sign-only exponent); Python's correctly rounded conversion is trusted"]
    rep.assumptions = ["sign-only exponents with fewer than three digits are outside the claim (only 'never raises')",
                       "text containing letters of inf/nan/infinity or '_' falls under 'same as Python' / 'never raises' only"]
    rep.exhaustive = False
    return rep.finish()


def replay(path):
    fff = core.repo_modules("fixed_format_file")
    d = json.load(open(path))["detail"]
    fn = getattr(fff, d["function"])
    print("replay", d["function"], repr(d["text"]), "->", fortran.observe(fn, d["text"]), "spec kind:", d["spec_kind"])
    return 0
