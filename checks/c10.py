"""C10 - see lib/mgcheck.py (specs/MulgridADT.tla)."""
from lib import mgcheck


def run(tier):
    return mgcheck.run("C10", tier)


def replay(path):
    return mgcheck.replay("C10", path)
