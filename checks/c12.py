"""C12 - point and line location agree with exhaustive search (specs/Locate.tla)."""
import json
import math
import os
import random
from concurrent.futures import ThreadPoolExecutor
from fractions import Fraction

import numpy as np

from lib import core, tlc
from lib import locmodel as lm

TRACK_TOL = 1e-3


# ---------------------------------------------------------------- meshes
def lattice_meshes(tier):
    m = core.repo_modules("mulgrids")
    out = []

    def rect(name, dx, dy, dz=(10.0, 20.0), cut=(), steps=True, edit=None):
        with core.quiet():
            geo = m.mulgrid().rectangular(list(dx), list(dy), list(dz), atmos_type=0)
            nx = len(dx)
            for (i, j) in cut:
                pass
            names = [geo.columnlist[j * nx + i].name for (i, j) in cut]
            for nm in names:
                geo.delete_column(nm)
            if edit:
                edit(geo)
            geo.identify_neighbours()
            if name in ("r4x3", "mixed", "r5x5"):
                # a layer whose recorded centre is not at mid-height (legal in geometry files)
                lay = geo.layerlist[-1]
                lay.centre = lay.bottom + 0.25 * (lay.top - lay.bottom)
            if steps:
                for k, c in enumerate(geo.columnlist):
                    if k % 3 == 1:
                        c.surface = geo.layerlist[0].bottom - 5.0
                        geo.set_column_num_layers(c)
                    elif k % 5 == 2:        # a surface above the top layer, as in shipped geometries
                        c.surface = geo.layerlist[0].bottom + 5.0
                        geo.set_column_num_layers(c)
            geo.setup_block_name_index()
            geo.setup_block_connection_name_index()
        out.append((name, geo))
    rect("r4x3", [10.0] * 4, [10.0] * 3)
    rect("u_off", [10.0, 10.0, 60.0], [10.0, 50.0], cut=[(1, 1)])
    rect("ring5", [10.0] * 5, [10.0] * 5, cut=[(2, 2)])
    rect("multi_L", [1.0, 30.0, 1000.0], [1.0, 30.0, 1000.0], cut=[(2, 2)])

    def mixed(geo):
        geo.split_column(geo.columnlist[0].name, geo.columnlist[0].node[0].name)
        geo.refine([geo.columnlist[2]])
    rect("mixed", [10.0] * 3, [10.0] * 2, edit=mixed)
    if tier == "thorough":
        rect("r5x5", [10.0] * 5, [10.0] * 5)
        rect("r6x5", [10.0, 20.0, 10.0, 30.0, 10.0, 10.0], [10.0, 10.0, 20.0, 10.0, 10.0])
        rect("u5x4", [10.0] * 5, [10.0] * 4, cut=[(2, 1), (2, 2), (2, 3)])
        rect("L4x4", [10.0] * 4, [10.0] * 4, cut=[(2, 2), (3, 2), (2, 3), (3, 3)])
        rect("multi", [1.0, 30.0, 1000.0, 30.0], [1.0, 1000.0, 30.0])

        def refined(geo):
            geo.refine([geo.columnlist[4]])
        rect("refined", [10.0] * 3, [10.0] * 3, edit=refined)
        rect("slot", [10.0, 10.0, 10.0, 10.0, 40.0], [10.0, 10.0, 40.0], cut=[(1, 1), (1, 2), (3, 0), (3, 1)])
    return out


def float_meshes(tier):
    """Meshes whose coordinates are not on a small lattice: shipped geometries, a rotated and a refined rectangle."""
    m = core.repo_modules("mulgrids")
    out = []
    with core.quiet():
        geo = m.mulgrid().rectangular([10.0] * 6, [10.0] * 5, [10.0, 20.0], atmos_type=0)
        out.append(("r6x5", geo))
        # the same object again after it has been queried: moved and turned between two rounds of queries
        out.append(("r6x5_then_translated", (geo, lambda g: g.translate(np.array([137.5, -42.25, 0.0])))))
        out.append(("r6x5_then_rotated", (geo, lambda g: g.rotate(33.0))))
        geo = m.mulgrid().rectangular([3.0, 40.0, 700.0, 40.0, 3.0], [700.0, 3.0, 40.0, 3.0], [10.0, 20.0], atmos_type=0, origin=[1000.0, -500.0, 0.0])
        geo.rotate(31.0)
        out.append(("rot_multi", geo))
        geo = m.mulgrid().rectangular([100.0] * 5, [100.0] * 5, [10.0, 20.0], atmos_type=0)
        geo.refine([c for c in geo.columnlist if 150 < c.centre[0] < 350 and 150 < c.centre[1] < 350])
        geo.rotate(12.5)
        out.append(("refined_rot", geo))
        names = ["g7", "g3", "g1"] if tier == "quick" else ["g1", "g2", "g3", "g4", "g5", "g6", "g7"]
        for n in names:
            out.append((n, m.mulgrid(os.path.join(core.REPO, "tests", "mulgrid", n + ".dat"))))
    return out


# ---------------------------------------------------------------- lattice: TLC model + replay
def zcands(pr):
    zs = set()
    bounds = set(v for l in pr.layers for v in l) | set(pr.surface)
    for b, t in pr.layers[1:]:
        zs.update([b + 1, (b + t) // 2, t - 1])
    zs.update([pr.layers[0][1] + 2, pr.layers[-1][0] - 2])
    for s in set(pr.surface):
        zs.update([s - 1, s + 1])
    return sorted(z for z in zs if z not in bounds)


def model_jobs(name, pr, rng, tier, jobs=6, nlines=60, guessmode="rnf"):
    xs = lm.coordinate_candidates([v[0] for v in pr.node.values()], 70 if tier == "thorough" else 20)
    ys = lm.coordinate_candidates([v[1] for v in pr.node.values()], 70 if tier == "thorough" else 20)
    zs = zcands(pr)
    lines = lm.choose_lines(pr, rng, nlines)
    k = max(1, min(jobs, len(xs) // 3))
    chunks = [xs[i::k] for i in range(k)]
    out = []
    for i in range(k):
        out.append(dict(label="Locate[%s chunk %d/%d] Variant=code GuessMode=%s" % (name, i + 1, k, guessmode), mesh=name, negative=None,
                        args=(pr, chunks[i], ys, zs if i % 2 == 0 or k == 1 else zs[:2], lines[i::k]),
                        kw=dict(tree=(i == 0), guessmode=guessmode, extra_args=["-continue"], heap="3g")))
    return out


def negative_jobs(projs):
    """Each variant breaks one clause of the algorithm; TLC must reject it on some mesh of the family (vacuity guard)."""
    want = {"no_fallback": "u_off", "closed_crossing": "mixed", "no_end_clip": "r4x3"}
    out = []
    for variant, name in sorted(want.items()):
        pr = projs[name]
        xs = lm.coordinate_candidates([v[0] for v in pr.node.values()], 20)
        ys = lm.coordinate_candidates([v[1] for v in pr.node.values()], 20)
        track = variant == "no_end_clip"
        lines = lm.choose_lines(pr, random.Random(5), 40) if track else []
        out.append(dict(label="Locate[%s] Variant=%s (negative)" % (name, variant), mesh=name, negative=variant,
                        args=(pr, xs[:1] if track else xs, ys[:1] if track else ys, [], lines),
                        kw=dict(variant=variant, export=False, workers=2, heap="3g")))
    return out


def run_jobs(rep, jobs):
    def one(job):
        return lm.run_model(*job["args"], **job["kw"])
    with ThreadPoolExecutor(max_workers=14) as ex:
        res = list(ex.map(one, jobs))
    emitted, violated, neg = {}, {}, {}
    for job, r in zip(jobs, res):
        rep.add_tlc(job["label"], r, note=("violated: %s" % r.violated) if job["negative"] else "")
        if job["negative"]:
            neg[job["negative"]] = r.violated
            continue
        emitted.setdefault(job["mesh"], []).extend(r.emitted)
        if r.violated:
            violated.setdefault(job["mesh"], []).append(r.violated)
            rep.extra.setdefault("model_counterexamples", []).append({"mesh": job["mesh"], "invariant": r.violated})
    return emitted, violated, neg


def compare_tree(rep, name, pr, t, node, path="r"):
    s = 2 ** t["g"]
    want = [float(pr.x0 + Fraction(t["b"][0], s) * pr.h), float(pr.y0 + Fraction(t["b"][1], s) * pr.h),
            float(pr.x0 + Fraction(t["b"][2], s) * pr.h), float(pr.y0 + Fraction(t["b"][3], s) * pr.h)]
    got = [float(node.bounds[0][0]), float(node.bounds[0][1]), float(node.bounds[1][0]), float(node.bounds[1][1])]
    elts = [pr.cols.index(e.name) + 1 for e in node.elements]
    kids = t["kids"] if isinstance(t["kids"], list) else []
    if any(abs(a - b) > 1e-9 * max(1.0, abs(a)) for a, b in zip(want, got)) or elts != t["elts"] or len(kids) != len(node.child):
        return "%s: quadtree node %s: model bounds %s elements %s children %d, code bounds %s elements %s children %d" % (
            name, path, want, t["elts"], len(kids), got, elts, len(node.child))
    for i, (kt, kn) in enumerate(zip(kids, node.child)):
        d = compare_tree(rep, name, pr, kt, kn, path + str(i))
        if d:
            return d
    return None


def subset_cols(tag, a, nb, n):
    if tag == "none":
        return None
    if tag == "ansnbr":
        return sorted({a} | nb[a])
    if tag == "ansonly":
        return [a]
    lo = [c for c in range(1, n + 1) if 2 * c <= n]
    return lo if a in lo else [c for c in range(1, n + 1) if c not in lo]


def replay_lattice(rep, name, geo, pr, emitted):
    cols = geo.columnlist
    n = len(cols)
    nb = lm.nbrs(pr)
    idx = {c.name: i + 1 for i, c in enumerate(cols)}
    bpoly = [lm.real_xy(pr, v) for v in pr.bpoly]
    qcache = {}
    nviol = 0

    def qtree(cl):
        key = tuple(cl) if cl else None
        if key not in qcache:
            qcache[key] = geo.column_quadtree([cols[i - 1] for i in cl] if cl else None)
        return qcache[key]
    half = len(emitted) // 2 if name in ("r4x3", "mixed") else None
    for ne, e in enumerate(emitted):
        if ne == half:
            # the geometry is moved (by a lattice vector) between two rounds of queries on the same object
            with core.quiet():
                geo.translate(np.array([float(8 * pr.h), float(-4 * pr.h), 0.0]))
            pr.x0, pr.y0 = pr.x0 + 8 * pr.h, pr.y0 - 4 * pr.h
            bpoly = [lm.real_xy(pr, v) for v in pr.bpoly]
            qcache.clear()
        if e["k"] == "tree":
            d = compare_tree(rep, name, pr, e["t"], geo.column_quadtree())
            rep.case(("tree", name))
            if d:
                rep.drifted(d)
            continue
        if e["k"] == "track":
            replay_track(rep, name, geo, pr, idx, e)
            continue
        p = tuple(e["p"])
        owners = [i + 1 for i, poly in enumerate(pr.poly) if lm.winding(p, poly) != 0]
        a = owners[0] if owners else 0
        pos = lm.real_xy(pr, p)
        cl = subset_cols(e["s"], a, nb, n)
        kw = {}
        if cl is not None:
            kw["columns"] = [cols[i - 1] for i in cl]
        if e["g"]:
            kw["guess"] = cols[e["g"] - 1]
        if e["b"] == "rect":
            kw["bounds"] = geo.bounds
        elif e["b"] == "poly":
            kw["bounds"] = bpoly
        if e["u"]:
            kw["qtree"] = qtree(cl)
        shape = "guess=%s bounds=%s subset=%s qtree=%s" % (
            "none" if not e["g"] else "right" if e["g"] == a else "neighbour" if a and e["g"] in nb[a] else "far", e["b"], e["s"], e["u"])
        det = {"mesh": name, "point": [float(pos[0]), float(pos[1])], "lattice_point": list(p), "aids": shape, "exhaustive": cols[a - 1].name if a else None}
        rep.traces += 1
        if e["k"] == "col":
            try:
                with core.quiet():
                    got = geo.column_containing_point(pos, **kw)
            except Exception as ex:
                det["error"] = repr(ex)
                rep.violation("%s:raises:%s" % (name, shape), "P2_AidsAgree", det)
                continue
            g = idx[got.name] if got is not None else 0
            rep.case(("col", name, shape, bool(a)))
            det["reported"] = got.name if got is not None else None
            if g != a:
                clause = "P3_OutsideNothing" if a == 0 else ("P1_ReportedContains" if g else "P2_AidsAgree")
                where = "inside" if a else "outside"
                rep.violation("%s:%s:%s:%s" % (name, clause, where, shape), clause, det)
                nviol += 1
            elif g != e["r"]:
                rep.drifted("%s: model answers %s, code and exhaustive search %s for %s" % (name, e["r"], g, det))
        else:
            z = e["z"]
            zr = float(z * pr.hz)
            blocks = [(l + 1, c) for l in range(1, len(pr.layers)) for c in owners
                      if pr.surface[c - 1] > pr.layers[l][0] and pr.layers[l][0] < z and (z < pr.layers[l][1] or (l == 1 and z < pr.surface[c - 1]))]
            want = geo.block_name(geo.layerlist[blocks[0][0] - 1].name, cols[blocks[0][1] - 1].name) if len(blocks) == 1 else None
            try:
                with core.quiet():
                    got = geo.block_name_containing_point(np.array([pos[0], pos[1], zr]), qtree=qtree(None) if e["u"] else None)
            except Exception as ex:
                det["error"] = repr(ex)
                rep.violation("%s:blk:raises" % name, "P4_UniqueBlock", det)
                continue
            rep.case(("blk", name, bool(blocks), e["u"]))
            det.update({"z": zr, "reported": got, "expected": want})
            if got != want:
                rep.violation("%s:P4:%s:qtree=%s" % (name, "present" if want else "absent", e["u"]), "P4_UniqueBlock", det)
            else:
                mb = tuple(e["bl"])
                if (mb != (0, 0)) != bool(blocks) or (blocks and mb != blocks[0]):
                    rep.drifted("%s: model block %s, code and exhaustive %s for %s" % (name, mb, blocks, det))
    return nviol


def replay_track(rep, name, geo, pr, idx, e):
    a, b = tuple(e["ln"][0]), tuple(e["ln"][1])
    p0, p1 = lm.real_xy(pr, a), lm.real_xy(pr, b)
    rep.traces += 1
    want = []
    for i, poly in enumerate(pr.poly):
        if lm.convex(poly):
            cl = lm.clip(poly, a, b)
            if cl:
                want.append((cl[0], i + 1, cl[1]))
    want.sort()
    check_track(rep, name, geo, [geo.columnlist[i - 1] for _, i, _ in want], [(t0, t1) for t0, _, t1 in want], p0, p1,
                {"mesh": name, "line": [list(map(float, p0)), list(map(float, p1))], "lattice_line": [list(a), list(b)]},
                model=[(x[0], Fraction(x[1][0], x[1][1]), Fraction(x[2][0], x[2][1])) for x in e["tr"]], idx=idx)


def check_track(rep, name, geo, wcols, wpar, p0, p1, det, model=None, idx=None, optional=()):
    """wcols / wpar: the columns the segment crosses (exact clip), ordered, with entry/exit parameters; `optional`: columns
    whose clip is shorter than the tolerance the statement allows (may be present or absent)."""
    L = float(np.linalg.norm(p1 - p0))
    try:
        with core.quiet(), core.watchdog(60):
            tr = geo.column_track([p0, p1])
    except Exception as ex:
        det["error"] = repr(ex)
        rep.violation("%s:track:raises" % name, "T1_ExactlyCrossed", det)
        return
    got = [(t[0].name, float(np.linalg.norm(t[1] - p0)) / L, float(np.linalg.norm(t[2] - p0)) / L) for t in tr]
    opt = set(c.name for c in optional)
    gotn = [g[0] for g in got if g[0] not in opt]
    wantn = [c.name for c in wcols if c.name not in opt]
    det.update({"reported": [g[0] for g in got], "expected": [c.name for c in wcols]})
    rep.case(("track", name, len(wantn), len(opt) > 0))
    if sorted(gotn) != sorted(wantn):
        missing = [x for x in wantn if x not in gotn]
        extra = [x for x in gotn if x not in wantn]
        det.update({"missing": missing, "extra": extra})
        if missing and not extra:
            lens = [float(wpar[i][1] - wpar[i][0]) * L for i, c in enumerate(wcols) if c.name in missing]
            det["missing_lengths"] = lens
            det["line_length"] = L
            key = "%s:track:drops_clip" % name
        else:
            key = "%s:track:wrong_columns" % name
        rep.violation(key, "T1_ExactlyCrossed", det)
        return
    if gotn != wantn:
        rep.violation("%s:track:order" % name, "T2_Ordered", det)
        return
    par = {c.name: wpar[i] for i, c in enumerate(wcols)}
    for g in got:
        if g[0] in opt:
            continue
        t0, t1 = float(par[g[0]][0]), float(par[g[0]][1])
        if abs(g[1] - t0) * L > 1e-6 * max(L, 1.0) + 1e-9 or abs(g[2] - t1) * L > 1e-6 * max(L, 1.0) + 1e-9:
            det["entry_exit"] = {"column": g[0], "reported": [g[1], g[2]], "expected": [t0, t1]}
            rep.violation("%s:track:entry_exit" % name, "T1_ExactlyCrossed", det)
            return
    for x, y in zip(got, got[1:]):
        if x[2] > y[1] + 1e-6 + 2 * TRACK_TOL * 0:
            pass
    if model is not None:
        mcols = [geo.columnlist[m[0] - 1].name for m in model]
        if mcols != [c.name for c in wcols]:
            rep.drifted("%s: model track %s, code and exact clip %s for %s" % (name, mcols, wantn, det.get("lattice_line")))


# ---------------------------------------------------------------- float meshes: exact differential
def frac_poly(col):
    return [(Fraction(float(n.pos[0])), Fraction(float(n.pos[1]))) for n in col.node]


def differential(rep, name, geo, rng, npoints, nlines):
    cols = geo.columnlist
    polys = [frac_poly(c) for c in cols]
    fpolys = [[(float(x), float(y)) for x, y in p] for p in polys]
    boxes = [(min(x for x, _ in p), min(y for _, y in p), max(x for x, _ in p), max(y for _, y in p)) for p in fpolys]
    idx = {c.name: i for i, c in enumerate(cols)}
    nbn = {c.name: set(n.name for n in c.neighbour) for c in cols}
    b = geo.bounds
    w, h = b[1][0] - b[0][0], b[1][1] - b[0][1]
    qt = geo.column_quadtree()
    try:
        with core.quiet():
            bpoly = geo.boundary_polygon
        fb = [(Fraction(float(v[0])), Fraction(float(v[1]))) for v in bpoly]
    except Exception:
        bpoly, fb = None, None
    centres = np.array([c.centre for c in cols])
    done = 0
    tries = 0
    while done < npoints and tries < npoints * 5:
        tries += 1
        mode = rng.random()
        if mode < 0.5:          # near a random column: inside it or just around it
            k = rng.randrange(len(cols))
            bx = boxes[k]
            pos = np.array([rng.uniform(bx[0] - 0.2 * (bx[2] - bx[0]), bx[2] + 0.2 * (bx[2] - bx[0])),
                            rng.uniform(bx[1] - 0.2 * (bx[3] - bx[1]), bx[3] + 0.2 * (bx[3] - bx[1]))])
        elif mode < 0.65:       # on the horizontal through a node (the half-open rule at vertices)
            k = rng.randrange(len(cols))
            nd = rng.choice(cols[k].node)
            pos = np.array([rng.uniform(b[0][0] - 0.05 * w, b[1][0] + 0.05 * w), float(nd.pos[1])])
        else:
            pos = np.array([rng.uniform(b[0][0] - 0.1 * w, b[1][0] + 0.1 * w), rng.uniform(b[0][1] - 0.1 * h, b[1][1] + 0.1 * h)])
        fp = (Fraction(float(pos[0])), Fraction(float(pos[1])))
        cand = [i for i, bx in enumerate(boxes) if bx[0] - 1e-6 <= pos[0] <= bx[2] + 1e-6 and bx[1] - 1e-6 <= pos[1] <= bx[3] + 1e-6]
        near_edge = False
        for i in cand:
            p = fpolys[i]
            size = max(boxes[i][2] - boxes[i][0], boxes[i][3] - boxes[i][1])
            if any(lm.seg_dist2(pos, p[j], p[(j + 1) % len(p)]) < (1e-6 * size) ** 2 for j in range(len(p))):
                near_edge = True
                break
        if near_edge:
            continue
        owners = [i for i in cand if lm.winding(fp, polys[i]) != 0]
        if len(owners) > 1:
            rep.drifted("%s: point %s lies in %d columns (overlapping geometry?)" % (name, list(pos), len(owners)))
            continue
        a = owners[0] if owners else None
        done += 1
        guesses = [None]
        if a is not None:
            guesses += [cols[a]] + [cols[idx[x]] for x in sorted(nbn[cols[a].name])][:2]
        guesses.append(cols[int(np.argmax(np.linalg.norm(centres - pos, axis=1)))])
        subsets = [("none", None)]
        if a is not None:
            subsets.append(("ansnbr", [cols[a]] + [cols[idx[x]] for x in sorted(nbn[cols[a].name])]))
            j = int(np.argsort(np.linalg.norm(centres - pos, axis=1))[min(len(cols) - 1, 40)])
            r2 = np.linalg.norm(centres[j] - pos)
            near = [c for c, ce in zip(cols, centres) if np.linalg.norm(ce - pos) <= r2]
            if cols[a] not in near:
                near.append(cols[a])
            subsets.append(("disc", near))
        bnds = [("none", None), ("rect", geo.bounds)]
        if fb is not None and not lm.on_boundary(fp, fb):
            if all(lm.seg_dist2(pos, (float(fb[j][0]), float(fb[j][1])), (float(fb[(j + 1) % len(fb)][0]), float(fb[(j + 1) % len(fb)][1]))) > 1e-12 * (w * w + h * h)
                   for j in range(len(fb))):
                bnds.append(("poly", bpoly))
        for g in guesses:
            for sn, sc in subsets:
                for bn, bv in bnds:
                    for useq in (False, True):
                        if rng.random() > 0.35 and not (g is None and sn == "none" and bn == "none"):
                            continue
                        kw = {}
                        if g is not None:
                            kw["guess"] = g
                        if sc is not None:
                            kw["columns"] = sc
                        if bv is not None:
                            kw["bounds"] = bv
                        if useq:
                            kw["qtree"] = qt if sc is None else geo.column_quadtree(sc)
                        gs = "none" if g is None else "right" if a is not None and g is cols[a] else \
                            "neighbour" if a is not None and g.name in nbn[cols[a].name] else "far"
                        shape = "guess=%s bounds=%s subset=%s qtree=%s" % (gs, bn, sn, useq)
                        det = {"mesh": name, "point": [float(pos[0]), float(pos[1])], "aids": shape, "exhaustive": cols[a].name if a is not None else None}
                        rep.traces += 1
                        try:
                            with core.quiet():
                                got = geo.column_containing_point(pos, **kw)
                        except Exception as ex:
                            det["error"] = repr(ex)
                            rep.violation("%s:raises:%s" % (name, shape), "P2_AidsAgree", det)
                            continue
                        rep.case(("dcol", name, shape, a is not None))
                        gi = idx[got.name] if got is not None else None
                        det["reported"] = got.name if got is not None else None
                        if gi != a:
                            clause = "P3_OutsideNothing" if a is None else ("P1_ReportedContains" if gi is not None else "P2_AidsAgree")
                            rep.violation("%s:%s:%s:%s" % (name, clause, "inside" if a is not None else "outside", shape), clause, det)
        # the block of a 3-D point
        lays = geo.layerlist
        for _ in range(2):
            li = rng.randrange(1, len(lays))
            z = rng.uniform(lays[li].bottom, lays[li].top) if rng.random() < 0.8 else rng.choice([lays[0].top + 3.0, lays[-1].bottom - 3.0, (cols[a].surface if a is not None else 0.0) + rng.choice([-2.0, 2.0])])
            thick = lays[li].top - lays[li].bottom
            if any(abs(z - v) < 1e-6 * thick for l in lays for v in (l.bottom, l.top)) or (a is not None and abs(z - cols[a].surface) < 1e-6 * thick):
                continue
            want = None
            if a is not None:
                for l in lays[1:]:
                    if cols[a].surface > l.bottom and l.bottom < z and (z < l.top or (l is lays[1] and z < cols[a].surface)):
                        want = geo.block_name(l.name, cols[a].name)
            # the same question asked block by block: the expected block says yes, every other block of that layer says no
            inlayer = [l for l in lays[1:] if l.bottom < z < l.top]
            if inlayer and (a is None or want is not None):
                others = [c for k_, c in enumerate(cols) if k_ != a and c.surface > inlayer[0].bottom]
                rng.shuffle(others)
                near = [c for c in others if c.bounding_box[0][0] <= pos[0] <= c.bounding_box[1][0]
                        and c.bounding_box[0][1] <= pos[1] <= c.bounding_box[1][1]]
                p3 = np.array([pos[0], pos[1], z])
                try:
                    with core.quiet():
                        yes = geo.block_contains_point(want, p3) if want is not None else True
                        wrong = [c.name for c in (near + others[:6]) if geo.block_contains_point(geo.block_name(inlayer[0].name, c.name), p3)]
                except Exception as ex:
                    rep.violation("%s:P4:block_contains_point-raises" % name, "P4_UniqueBlock", {"mesh": name, "point": [float(x) for x in p3], "error": repr(ex)})
                    yes, wrong = True, []
                rep.case(("dblk-each", name, want is not None, len(near)))
                if not yes or wrong:
                    rep.violation("%s:P4:block_by_block:%s" % (name, "denied" if not yes else "claimed_by_another"), "P4_UniqueBlock",
                                  {"mesh": name, "point": [float(x) for x in p3], "expected": want, "expected_block_says_yes": bool(yes),
                                   "other_columns_whose_block_says_yes": wrong})
            useq = rng.random() < 0.5
            bmap = {}
            if want is not None and rng.random() < 0.3:
                # the caller's block mapping: the reported name is the mapped one, for the mapped block only
                bmap = {want: "MAP 1", geo.block_name(lays[-1].name, cols[(a + 1) % len(cols)].name): "MAP 2"}
                want = bmap.get(want, want)
            with core.quiet():
                if bmap:
                    got = geo.block_name_containing_point(np.array([pos[0], pos[1], z]), qtree=qt if useq else None, blockmap=bmap)
                else:
                    got = geo.block_name_containing_point(np.array([pos[0], pos[1], z]), qtree=qt if useq else None)
            rep.traces += 1
            rep.case(("dblk", name, want is not None, useq))
            if got != want:
                rep.violation("%s:P4:%s:qtree=%s" % (name, "present" if want else "absent", useq), "P4_UniqueBlock",
                              {"mesh": name, "point": [float(pos[0]), float(pos[1]), z], "reported": got, "expected": want})
    # tracks
    conv = [lm.convex(p) for p in polys]
    sides = [max(math.hypot(p[j][0] - p[(j + 1) % len(p)][0], p[j][1] - p[(j + 1) % len(p)][1]) for j in range(len(p))) for p in fpolys]
    done = 0
    tries = 0
    while done < nlines and tries < nlines * 5:
        tries += 1
        if rng.random() < 0.5:
            k1, k2 = rng.randrange(len(cols)), rng.randrange(len(cols))
            p0 = centres[k1] + np.array([rng.uniform(-0.3, 0.3), rng.uniform(-0.3, 0.3)]) * sides[k1]
            p1 = centres[k2] + np.array([rng.uniform(-0.3, 0.3), rng.uniform(-0.3, 0.3)]) * sides[k2]
        else:
            p0 = np.array([rng.uniform(b[0][0] - 0.1 * w, b[1][0] + 0.1 * w), rng.uniform(b[0][1] - 0.1 * h, b[1][1] + 0.1 * h)])
            p1 = np.array([rng.uniform(b[0][0] - 0.1 * w, b[1][0] + 0.1 * w), rng.uniform(b[0][1] - 0.1 * h, b[1][1] + 0.1 * h)])
        L = float(np.linalg.norm(p1 - p0))
        if L < 1e-9:
            continue
        f0 = (Fraction(float(p0[0])), Fraction(float(p0[1])))
        f1 = (Fraction(float(p1[0])), Fraction(float(p1[1])))
        lo = (min(p0[0], p1[0]), min(p0[1], p1[1]))
        hi = (max(p0[0], p1[0]), max(p0[1], p1[1]))
        want, optional, ok = [], [], True
        for i, bx in enumerate(boxes):
            if bx[2] < lo[0] or bx[0] > hi[0] or bx[3] < lo[1] or bx[1] > hi[1]:
                continue
            p = fpolys[i]
            # end points near an edge, or the line nearly through a vertex / along an edge: not in the quantifier
            if any(lm.seg_dist2(q, p[j], p[(j + 1) % len(p)]) < (1e-6 * sides[i]) ** 2 for q in (p0, p1) for j in range(len(p))):
                ok = False
                break
            if not conv[i]:
                if any(lm.is_left(f0, f1, polys[i][j]) * lm.is_left(f0, f1, polys[i][(j + 1) % len(p)]) <= 0 for j in range(len(p))):
                    ok = False
                    break
                continue
            along = False
            for j in range(len(p)):
                u, v = p[j], p[(j + 1) % len(p)]
                if lm.seg_dist2(u, p0, p1) < (1e-6 * sides[i]) ** 2 and lm.seg_dist2(v, p0, p1) < (1e-6 * sides[i]) ** 2:
                    along = True
            if along:
                ok = False
                break
            cl = lm.clip(polys[i], f0, f1)
            if cl:
                ln = float(cl[1] - cl[0]) * L
                if ln < TRACK_TOL * sides[i] * 1.05:
                    optional.append(cols[i])
                want.append((cl[0], i, cl[1]))
        if not ok:
            continue
        want.sort()
        done += 1
        check_track(rep, name, geo, [cols[i] for _, i, _ in want], [(t0, t1) for t0, _, t1 in want], p0, p1,
                    {"mesh": name, "line": [list(map(float, p0)), list(map(float, p1))]}, optional=optional)


def run(tier):
    rep = core.Report("C12", tier)
    rng = random.Random(1200 + core.seed())
    rep.rule = ("TLC explores specs/Locate.tla (the search algorithms transcribed step by step, on exact integer coordinates) for every "
                "candidate point x aid combination x elevation and for a set of lines on each lattice mesh, checking P1-P4, the containment "
                "lemmas and T1-T3; every final state is replayed into the real code and compared; on meshes off the lattice the same "
                "configurations are compared with an exact (rational) exhaustive search and an exact clip of the segment.")
    lat = lattice_meshes(tier)
    projs, jobs = {}, []
    for name, geo in lat:
        try:
            projs[name] = lm.project(geo)
        except lm.OffLattice as ex:
            rep.drifted("%s is not on a lattice: %s" % (name, ex))
            continue
        jobs += model_jobs(name, projs[name], rng, tier, guessmode="all" if tier == "thorough" and len(projs[name].poly) <= 12 else "rnf")
    jobs += negative_jobs(projs)
    emitted, violated, neg = run_jobs(rep, jobs)
    for name, geo in lat:
        if name not in projs:
            continue
        nv = replay_lattice(rep, name, geo, projs[name], emitted.get(name, []))
        if violated.get(name) and not nv:
            rep.drifted("%s: TLC reports %s for the transcribed algorithm but the real code agrees with exhaustive search everywhere" % (name, violated[name]))
        rep.sample("%s: %d columns, %d final states replayed" % (name, len(projs[name].poly), len(emitted.get(name, []))))
    for v, viol in sorted(neg.items()):
        if not viol:
            raise tlc.MachineryError("negative configuration Variant=%s was not rejected by TLC" % v)
    rep.extra["negative_configurations"] = neg
    for name, geo in float_meshes(tier):
        n = {"quick": (150, 60), "thorough": (1500, 600)}[tier]
        if isinstance(geo, tuple):
            geo, move = geo
            with core.quiet():
                move(geo)
        differential(rep, name, geo, rng, *n)
        rep.sample("%s: %d columns, exact differential" % (name, geo.num_columns))
    rep.leaves = ["exact rational winding number, Cyrus-Beck clip and exhaustive search (lib/locmodel.py) as the oracle on meshes off the lattice",
                  "lines for column_track exclude clips within a factor 3 (lattice) / 1.05 (float meshes: treated as optional) of the stated tolerance"]
    rep.assumptions = ["a block's vertical extent is its layer's extent (a point above a column's surface but inside its surface layer belongs to the top block, as block_contains_point defines it); the top block of a column whose surface lies above the top layer reaches up to that surface",
                       "points closer than 1e-6 of a column's size to one of its edges are outside the quantifier"]
    return rep.finish()


def replay(path):
    d = json.load(open(path))
    print(json.dumps(d, indent=1))
    return 0
