"""C03 - MULgraph geometry file write/read round trip (specs/MulgridFile.tla)."""
import glob
import json
import os
import random
import shutil

import numpy as np

from lib import core, tlc, recio, mulgeo

ORDER = {None: "none", "layer_column": "layer_column", "dmplex": "dmplex"}


def body_tla(b):
    cols = "<<" + ", ".join("[nn |-> %d, cs |-> %s]" % (c["nn"], "TRUE" if c["cs"] else "FALSE") for c in b["cols"]) + ">>"
    return "[nodes |-> %d, cols |-> %s, conns |-> %d, layers |-> %d, surf |-> {%s}, wells |-> <<%s>>]" % (
        b["nodes"], cols, b["conns"], b["layers"], ", ".join(str(x) for x in b["surf"]), ", ".join(str(x) for x in b["wells"]))


def model(bodies, variant, export):
    mod = "---- MODULE MC_MulgridFile ----\nEXTENDS MulgridFile, Json\nMCBodies == {\n  " + ",\n  ".join(body_tla(b) for b in bodies) + \
          "\n}\nEmit == phase # \"done\" \\/ PrintT(\"EMIT\" \\o ToJson([hdr |-> doc.hdr, nodes |-> doc.nodes, cols |-> doc.cols, " \
          "conns |-> doc.conns, layers |-> doc.layers, surf |-> doc.surf, wells |-> doc.wells, file |-> file1]))\n====\n"
    cfg = ('CONSTANTS Bodies <- MCBodies\n Variant = "%s"\nINIT Init\nNEXT Next\nINVARIANT P_NoStuck\nINVARIANT P1_RoundTrip\n'
           'INVARIANT P_Unit\nINVARIANT P2_SecondWriteIdentical\nINVARIANT P_AllConsumed\nCHECK_DEADLOCK FALSE\n%s' %
           (variant, "CONSTRAINT Emit\n" if export else ""))
    return tlc.run_tlc("MC_MulgridFile", None, cfg_text=cfg, workers=1 if export else 8, timeout=1800,
                       extra_modules={"MC_MulgridFile.tla": mod}, heap="8g")


def abstract_stream(events, geo):
    """Recorded write events in the shape of MulgridFile's record stream."""
    out = []
    tag = "ft" if geo.unit_type == "FEET " else "m"
    counters = {"node": 0, "column": 0, "connection": 0, "layer": 0}
    colnames = [c.name for c in geo.columnlist]
    wellnames = [w.name for w in geo.welllist]
    wp = {}
    jn = 0
    for e in events:
        if e["op"] == "raw":
            t = e["text"]
            if t == "\n":
                out.append({"k": "blank"})
            else:
                out.append({"k": "kw", "name": t.strip()[:5]})
            continue
        if e["op"] != "w":
            continue
        k, v = e["kind"], e["vals"]
        if k == "header":
            out.append({"k": "header", "conv": v[1], "atm": v[2], "unit": v[5] if v[5] is not None else "",
                        "order": {None: "none", 0: "layer_column", 1: "dmplex"}.get(v[10], "?")})
        elif k == "node":
            counters["node"] += 1
            out.append({"k": "node", "i": counters["node"], "tag": tag})
        elif k == "column":
            counters["column"] += 1
            jn = 0
            out.append({"k": "column", "i": counters["column"], "nn": v[2], "cs": bool(v[1]), "tag": tag if v[1] else "none"})
        elif k == "column_node":
            jn += 1
            out.append({"k": "column_node", "col": counters["column"], "j": jn})
        elif k == "connection":
            counters["connection"] += 1
            out.append({"k": "connection", "i": counters["connection"]})
        elif k == "layer":
            counters["layer"] += 1
            out.append({"k": "layer", "i": counters["layer"], "tag": tag})
        elif k == "surface":
            out.append({"k": "surface", "col": colnames.index(v[0].rjust(geo.colname_length)[-geo.colname_length:].strip().rjust(geo.colname_length)) + 1
                        if v[0].strip().rjust(geo.colname_length) in colnames else 0, "tag": tag})
        elif k == "well":
            w = wellnames.index(v[0]) + 1 if v[0] in wellnames else 0
            wp[w] = wp.get(w, 0) + 1
            out.append({"k": "well", "w": w, "p": wp[w], "tag": tag})
    return out


def carried(x, scale, dec):
    return float("%.*f" % (dec, x / scale)) * scale


def compare_geo(a, b):
    """a written, b re-read.  Returns (clause, text) or None."""
    s = a.unit_scale
    tol = 1e-9
    for attr in ("convention", "atmosphere_type", "unit_type", "block_order"):
        if getattr(a, attr) != getattr(b, attr):
            return "P_header", "%s: %r read, %r written" % (attr, getattr(b, attr), getattr(a, attr))
    for attr in ("atmosphere_volume", "atmosphere_connection", "permeability_angle"):
        x, y = getattr(a, attr), getattr(b, attr)
        if abs(float("%.2e" % x) - y) > 1e-9 * max(1, abs(x)) and abs(float("%.2f" % x) - y) > 1e-9:
            return "P_header", "%s: %r read, %r written" % (attr, y, x)
    if [n.name for n in a.nodelist] != [n.name for n in b.nodelist]:
        return "P_nodes", "node names/order differ"
    for n1, n2 in zip(a.nodelist, b.nodelist):
        for k in range(2):
            if abs(carried(n1.pos[k], s, 2) - n2.pos[k]) > tol:
                return "P_nodes", "node %s position %r read, %r written" % (n1.name, list(n2.pos), list(n1.pos))
    if [c.name for c in a.columnlist] != [c.name for c in b.columnlist]:
        return "P_columns", "column names/order differ"
    for c1, c2 in zip(a.columnlist, b.columnlist):
        if [n.name for n in c1.node] != [n.name for n in c2.node]:
            return "P_columns", "column %s node order %s read, %s written" % (c1.name, [n.name for n in c2.node], [n.name for n in c1.node])
        if bool(c1.centre_specified) != bool(c2.centre_specified):
            return "P_columns", "column %s centre_specified differs" % c1.name
        if c1.centre_specified and any(abs(carried(c1.centre[k], s, 2) - c2.centre[k]) > tol for k in range(2)):
            return "P_columns", "column %s centre %r read, %r written" % (c1.name, list(c2.centre), list(c1.centre))
        if abs(carried(c1.surface, s, 2) - c2.surface) > tol and not (c1.default_surface and c2.default_surface):
            return "P_surface", "column %s surface %r read, %r written" % (c1.name, c2.surface, c1.surface)
        if c1.default_surface != c2.default_surface or c1.num_layers != c2.num_layers:
            return "P_surface", "column %s default_surface/num_layers %r/%r read, %r/%r written" % (
                c1.name, c2.default_surface, c2.num_layers, c1.default_surface, c1.num_layers)
    if [tuple(c.name for c in con.column) for con in a.connectionlist] != [tuple(c.name for c in con.column) for con in b.connectionlist]:
        return "P_connections", "connections differ"
    if [l.name for l in a.layerlist] != [l.name for l in b.layerlist]:
        return "P_layers", "layer names differ"
    for l1, l2 in zip(a.layerlist, b.layerlist):
        if abs(carried(l1.bottom, s, 2) - l2.bottom) > tol or abs(carried(l1.centre, s, 2) - l2.centre) > tol:
            return "P_layers", "layer %s bottom/centre %r/%r read, %r/%r written" % (l1.name, l2.bottom, l2.centre, l1.bottom, l1.centre)
    if [w.name for w in a.welllist] != [w.name for w in b.welllist]:
        return "P_wells", "well names differ: %s read, %s written" % ([w.name for w in b.welllist], [w.name for w in a.welllist])
    for w1, w2 in zip(a.welllist, b.welllist):
        if len(w1.pos) != len(w2.pos) or any(abs(carried(p[k], s, 1) - q[k]) > tol for p, q in zip(w1.pos, w2.pos) for k in range(3)):
            return "P_wells", "well %s track differs" % w1.name
    if a.block_name_list != b.block_name_list:
        return "P_block_names", "block name lists differ"
    if a.block_connection_name_list != b.block_connection_name_list:
        return "P_block_connection_names", "block connection name lists differ"
    return None


def cycle(rep, geo, key, det, work, tracer=None, expected_stream=None):
    m = core.repo_modules("mulgrids")
    p1, p2 = os.path.join(work, "g1.dat"), os.path.join(work, "g2.dat")
    try:
        if tracer:
            tracer.record()
        with core.quiet():
            geo.write(p1)
        ev = tracer.stop() if tracer else None
        with core.watchdog(120), core.quiet():
            g2 = m.mulgrid(p1)
        bad = compare_geo(geo, g2)
        if bad:
            det["difference"] = bad[1]
            rep.violation(key + ":" + bad[0], bad[0], det)
            return
        if geo.unit_type == "FEET ":
            txt = open(p1).read()
            if "FEET " not in txt.split("\n")[0]:
                rep.violation(key + ":P_unit", "P_unit_in_file", det)
                return
        with core.quiet():
            g2.write(p2)
        # read() into an object that already holds a geometry gives what a fresh object gets
        if geo.num_columns <= 40:
            with core.watchdog(120), core.quiet():
                g2.read(p1)
                g3 = m.mulgrid(p1)
            bad = compare_geo(g3, g2)
            if bad:
                det["difference"] = "after reading into a geometry that was already loaded: " + bad[1]
                rep.violation(key + ":reread:" + bad[0], bad[0], det)
                return
        if open(p1, "rb").read() != open(p2, "rb").read():
            l1, l2 = open(p1).read().splitlines(), open(p2).read().splitlines()
            k = next((i for i, (x, y) in enumerate(zip(l1, l2)) if x != y), min(len(l1), len(l2)))
            det["first_difference"] = {"line": k + 1, "first_write": l1[k] if k < len(l1) else None, "second_write": l2[k] if k < len(l2) else None}
            rep.violation(key + ":second-write", "P2_second_write_identical", det)
            return
        if expected_stream is not None:
            got = abstract_stream(ev, geo)
            if got != expected_stream:
                k = next((i for i, (x, y) in enumerate(zip(got, expected_stream)) if x != y), min(len(got), len(expected_stream)))
                rep.drifted("record stream differs from MulgridFile's at record %d for %s: %s vs %s (round trip holds)"
                            % (k, key, got[k] if k < len(got) else None, expected_stream[k] if k < len(expected_stream) else None))
    except core.Hang:
        rep.violation(key + ":hang", "P_reader_terminates", det)
    except Exception as e:
        det["error"] = repr(e)
        rep.violation(key + ":raises", "P1_round_trip", det)


def run(tier):
    rep = core.Report("C03", tier, "model_checking")
    quick = tier == "quick"
    rng = random.Random(core.seed() + 303)
    m = core.repo_modules("mulgrids")
    tracer = recio.RecordTracer()
    work = tlc.scratch_dir("c03-")
    try:
        fam = mulgeo.body_family(quick)
        bodies, builders = [], {}
        for shapes, cs, nl, surf, wells in fam:
            g = mulgeo.strip_geometry(shapes, cs, nl, surf, wells)
            b = mulgeo.abstract_body(g)
            k = json.dumps(b, sort_keys=True)
            if k not in builders:
                builders[k] = (shapes, cs, nl, surf, wells)
                bodies.append(b)
        rn = model(bodies[:6], "pinned", export=False)
        rep.add_tlc("MulgridFile Variant=pinned (negative configuration: unit never reaches the header)", rn, note="violates: %s" % rn.violated)
        if not rn.violated:
            raise tlc.MachineryError("negative configuration did not fail")
        r = model(bodies, "fixed", export=True)
        rep.add_tlc("MulgridFile Variant=fixed, %d bodies x 72 headers: round trip, unit, second write (+ export)" % len(bodies), r)
        if r.violated:
            raise tlc.MachineryError("MulgridFile violates " + str(r.violated))
        tracer.install()
        docs = r.emitted
        if quick and len(docs) > 500:
            rng.shuffle(docs)
            docs = docs[:500]
        for n, d in enumerate(docs):
            body = dict((k, d[k]) for k in ("nodes", "cols", "conns", "layers", "wells"))
            body["surf"] = sorted(d["surf"])
            shapes, cs, nl, surf, wells = builders[json.dumps(body, sort_keys=True)]
            h = d["hdr"]
            order = None if h["order"] == "none" else h["order"]
            if order == "dmplex" and 5 in shapes:
                rep.extra["skipped_dmplex_with_5_node_columns"] = rep.extra.get("skipped_dmplex_with_5_node_columns", 0) + 1
                continue        # the library refuses DMPlex ordering for columns that are not triangles or quadrilaterals
            geo = mulgeo.strip_geometry(shapes, cs, nl, surf, wells, conv=h["conv"], atm=h["atm"], unit=h["unit"], order=order,
                                        angle=rng.choice([0.0, 30.0, 90.0]), upper=rng.random() < 0.5,
                                        x0=rng.choice([0.0, 1000.0, 2775000.25, -9999.5]), dx=rng.choice([10.0, 250.0, 0.75]))
            key = "conv%d:atm%d:unit=%s:order=%s" % (h["conv"], h["atm"], h["unit"].strip() or "m", h["order"])
            det = {"header": h, "body": body}
            rep.case(json.dumps([h, body], sort_keys=True))
            cycle(rep, geo, key, det, work, tracer, d["file"])
            if n < 3:
                rep.sample({"header": h, "body": body, "stream": [x.get("name", x["k"]) for x in d["file"]][:14]})
        rep.traces += len(docs)
        rep.extra["documents_replayed"] = len(docs)
        # rectangular geometries with arbitrary spacings, all header flags, surfaces, wells
        nrect = 40 if quick else 400
        for _ in range(nrect):
            conv, atm = rng.randint(0, 3), rng.randint(0, 2)
            nx, ny, nz = rng.randint(1, 5), rng.randint(1, 4), rng.randint(1, 5)
            unit = rng.choice(["", "FEET "])
            omax = 9e6 if unit == "" else 2.5e6        # coordinates up to the 10-column limit, in the file's unit
            dzs = [round(rng.uniform(0.5, 300.0), 2) for _ in range(nz)]
            z0 = round(rng.uniform(-500, 3000), 2)
            if rng.random() < 0.3:
                # a layer centred exactly on elevation zero (its thickness an even number of hundredths)
                # (thicknesses in binary-exact quarters, so that the centre is exactly 0.0 and not -1e-14, which prints as -0.00)
                k = rng.randrange(nz)
                dzs = [max(0.5, round(d * 2) / 2.0) for d in dzs]
                z0 = sum(dzs[:k]) + dzs[k] / 2
            turn = rng.random() < 0.3
            xy0 = [0.0, 0.0] if turn else [round(rng.uniform(-1e5, omax), 2), round(rng.uniform(-1e5, omax), 2)]
            with core.quiet():
                geo = m.mulgrid().rectangular([round(rng.uniform(0.5, 900.0), 2) for _ in range(nx)],
                                              [round(rng.uniform(0.5, 900.0), 2) for _ in range(ny)],
                                              dzs,
                                              convention=conv, atmos_type=atm, origin=xy0 + [z0],
                                              justify='r', case=rng.choice(['l', 'u']), block_order=rng.choice([None, "layer_column", "dmplex"]))
            geo.unit_type = unit
            if rng.random() < 0.4:
                # header sizes away from their defaults (whatever the atmosphere type), block order re-assigned through the property
                geo.atmosphere_volume = rng.choice([1.0e20, 1.0e30, 5.0e10])
                geo.atmosphere_connection = rng.choice([1.0e-3, 0.5, 1.0e-9])
            if rng.random() < 0.4:
                order = rng.choice([None, "layer_column", "dmplex"])
                geo.block_order = rng.choice(["dmplex", "layer_column"])
                geo.block_order = order
            for col in geo.columnlist:
                if rng.random() < 0.4:
                    col.surface = round(geo.layerlist[0].bottom - rng.uniform(0.0, sum(l.thickness for l in geo.layerlist[1:]) * 1.1), 2)
                    geo.set_column_num_layers(col)
            geo.setup_block_name_index()
            geo.setup_block_connection_name_index()
            if geo.num_columns >= 3 and rng.random() < 0.5:
                # a renamed column (dictionary order then differs from list order)
                col = rng.choice(geo.columnlist[:-1])
                newname = {0: "zzz", 1: "98", 2: "998", 3: "zzz"}[conv].rjust(geo.colname_length)
                if newname not in geo.column:
                    if col.default_surface:
                        col.surface = round(geo.layerlist[0].bottom - 0.25 * geo.layerlist[1].thickness, 2)
                        geo.set_column_num_layers(col)
                    later = geo.columnlist[geo.columnlist.index(col) + 1]
                    if later.default_surface:
                        later.surface = round(geo.layerlist[0].bottom - 0.5 * geo.layerlist[1].thickness, 2)
                        geo.set_column_num_layers(later)
                    geo.rename_column(col.name, newname)
            if turn:
                # turned half way round about the origin: nodes that lay on an axis get a coordinate of about -1e-14
                with core.quiet():
                    geo.rotate(180.0, np.array([0.0, 0.0]))
            for w in range(rng.randint(0, 2)):
                geo.add_well(m.well(rng.choice(["wl%3d" % w, "%5s" % ("W%d" % w), "%5d" % (w + 7), "A%-4d" % w]), [np.array([round(rng.uniform(0, 100), 1), round(rng.uniform(0, 100), 1), round(-50.0 * k, 1)])
                                                  for k in range(rng.randint(2, 6))]))
            key = "rect:conv%d:atm%d:unit=%s" % (conv, atm, geo.unit_type.strip() or "m")
            rep.case(("rect", conv, atm, nx, ny, nz, geo.unit_type, geo.block_order))
            cycle(rep, geo, key, {"rectangular": [nx, ny, nz], "convention": conv, "atmos_type": atm, "unit": geo.unit_type}, work)
        rep.traces += nrect
        # shipped geometries and derivatives
        shipped = sorted(glob.glob(os.path.join(core.REPO, "tests", "mulgrid", "*.dat")))
        nship = 0
        for f in shipped:
            try:
                with core.watchdog(300), core.quiet():
                    geo = m.mulgrid(f)
            except Exception as e:
                continue
            variants = [("as-is", geo)]
            if geo.num_columns <= 1500:
                try:
                    with core.watchdog(300), core.quiet():
                        g = m.mulgrid(f)
                        g.rotate(30.0)
                        variants.append(("rotated", g))
                        if not quick or geo.num_columns <= 400:
                            g = m.mulgrid(f)
                            cols = [c for c in g.columnlist if c.num_nodes in (3, 4)][:max(1, g.num_columns // 10)]
                            g.refine(cols)
                            variants.append(("refined", g))
                            g = m.mulgrid(f)
                            g.reduce([c for c in g.columnlist][: max(1, g.num_columns // 2)])
                            variants.append(("reduced", g))
                except Exception as e:
                    rep.drifted("could not derive a variant of %s: %r" % (os.path.basename(f), e))
            for vn, g in variants:
                nship += 1
                rep.case(("shipped", os.path.basename(f), vn))
                cycle(rep, g, "shipped:%s:%s" % (os.path.basename(f), vn), {"file": os.path.basename(f), "variant": vn}, work)
        rep.extra["shipped_geometry_cycles"] = nship
        rep.traces += nship
    finally:
        tracer.uninstall()
        shutil.rmtree(work, ignore_errors=True)
    rep.rule = ("every document of MulgridFile (72 header combinations x bodies with 1..3 columns of 3/4/5 nodes, centre specified "
                "or not, 1..3 layers, surfaces, wells) built through the public API with random origins/sizes/angles/case; random "
                "rectangular geometries with all flags, feet, surfaces, wells; the shipped geometries as-is, rotated, refined, reduced")
    rep.leaves = ["coordinates compared with Python formatting of coordinate/unit-scale at the format's decimals, times the scale"]
    rep.assumptions = ["names right-justified (as the format documentation requires)"]
    rep.exhaustive = False
    return rep.finish()


def replay(path):
    print(json.dumps(json.load(open(path))["detail"], indent=1)[:3000])
    return 0
