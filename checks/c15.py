"""C15 - IFC-67 routines: range decisions, classifier agreement, steam fraction order (specs/ThermoRegions.tla);
closeness to IAPWS-97, the single-potential identity and tsat o sat as numeric leaves."""
import json
import math
import random

import numpy as np

from lib import core, tlc

MC = r"""---- MODULE MC_ThermoRegions ----
EXTENDS ThermoRegions, Json
Emit == PrintT("EMIT" \o ToJson([c |-> cell, r67 |-> Region67(cell), r97 |-> Region97(cell), cow |-> CowatOK(cell), sup |-> SupstOK(cell)]))
Sweeps == %s
ASSUME \A i \in 1..Len(Sweeps) : SweepOK(Sweeps[i]) \/ PrintT("EMIT" \o ToJson([badsweep |-> i]))
====
"""
INVS = ["I_Total", "I_ClassifiersAgree", "I_Region4InsideRegion3", "I_LiquidRange", "I_SteamRange", "I_SteamRangeComplete",
        "I_RangesDisjoint", "I_Cover"]
TH = [0.01, 350.0, 373.946, 374.15, 590.0, 800.0]


def model(variant, export, sweeps):
    cfg = 'CONSTANTS Variant = "%s"\nINIT Init\nNEXT Next\nCHECK_DEADLOCK FALSE\n' % variant + "".join("INVARIANT %s\n" % i for i in INVS)
    if export:
        cfg += "CONSTRAINT Emit\n"
    sw = "<<" + ", ".join("<<" + ", ".join(str(x) for x in s) + ">>" for s in sweeps) + ">>"
    return tlc.run_tlc("MC_ThermoRegions", None, cfg_text=cfg, workers=1 if export else 4, timeout=900,
                       extra_modules={"MC_ThermoRegions.tla": MC % sw})


def rel(p, v):
    return "lt" if p < v else ("eq" if p == v else "gt")


def tpos(t):
    for k, th in enumerate(TH):
        if t < th:
            return 2 * k
        if t == th:
            return 2 * k + 1
    return 12


def abstract(T, I, t, p):
    """The cell of a concrete state, with the library's own curves (curves the code does not consult: "gt")."""
    tp = tpos(t)
    c = {"t": tp, "p0": rel(p, 0.0), "p8": rel(p, 1.0e8), "s67": "gt", "s97": "gt", "b67": "gt", "b97": "gt"}
    if 1 <= tp <= 7:
        c["s67"] = rel(p, T.sat(t))
    if 1 <= tp <= 3:
        c["s97"] = rel(p, I.sat(t))
    if 4 <= tp <= 9:
        c["b67"] = rel(p, T.b23p(t))
        c["b97"] = rel(p, I.b23p(t))
    return c


def states(T, I, rng, quick):
    """Concrete states: every threshold temperature and several in each band; pressures on and around every curve."""
    ts = list(TH) + [-5.0, 0.0, 0.005, 805.0, 1000.0]
    for lo, hi in zip([0.01] + TH[1:-1], TH[1:]):
        ts += [lo + (hi - lo) * f for f in ((0.5,) if quick else (0.1, 0.5, 0.9))] + [math.nextafter(lo, hi), math.nextafter(hi, lo)]
        ts += [rng.uniform(lo, hi) for _ in range(2 if quick else 12)]
    for t in ts:
        marks = [0.0, 1.0e8]
        tp = tpos(t)
        if 1 <= tp <= 7:
            marks.append(T.sat(t))
        if 1 <= tp <= 3 or (tp <= 5 and t <= I.tcritical):
            v = I.sat(t)
            if v is not None:
                marks.append(v)
        if 4 <= tp <= 9:
            marks += [T.b23p(t), I.b23p(t)]
        marks = sorted(set(marks))
        ps = set(marks)
        ps.update([-1.0e5, -1.0, 1.0e8 + 1.0, 2.0e8, math.nextafter(1.0e8, 2e8), math.nextafter(1.0e8, 0.0), 1.0e-3, 1.0, 1.0e3])
        for a, b in zip(marks, marks[1:]):
            ps.update([0.5 * (a + b), math.nextafter(a, b), math.nextafter(b, a)])
        for m in marks:
            ps.update([m * (1 + 1e-9), m * (1 - 1e-9)])
        for p in sorted(ps):
            if not (0.0 < p < 1.0e-3):        # a vacuum has no density: denormal pressures are not states
                yield float(t), float(p)


def numeric_leaves(rep, T, I, rng, quick):
    """Clauses of the statement that are about real values, with tolerances twice the largest difference on the pinned tree."""
    n = 25 if quick else 80
    liquid = [(0.01, 100, 9e-4, 1100.0), (100, 250, 1.1e-3, 420.0), (250, 340, 3.2e-3, 4800.0), (340, 350, 4.8e-3, 7400.0)]
    for lo, hi, td, tu in liquid:
        for t in list(np.linspace(lo, hi, n)) + [rng.uniform(lo, hi) for _ in range(n)]:
            for p in list(np.linspace(max(T.sat(t), I.sat(t)), 1.0e8, n)):
                d1, u1 = T.cowat(t, p)
                d2, u2 = I.cowat(t, p)
                rep.case(None)
                if abs(d1 - d2) > td * d2 or abs(u1 - u2) > tu:
                    rep.violation("liquid_vs_iapws:%g-%g" % (lo, hi), "N_liquid_agrees_with_IAPWS97",
                                  {"t": t, "p": p, "ifc67": [d1, u1], "iapws97": [d2, u2], "tolerance": [td, tu]})
                    break
    steam = [(0.01, 100, 6e-4, 1700.0, 1.0), (100, 250, 2.3e-3, 3400.0, 1.0), (250, 340, 2.8e-3, 9000.0, 1.0),
             (374.15, 590, 4.5e-3, 15100.0, 0.9), (590, 800, 7.4e-3, 15100.0, 1.0)]
    for lo, hi, td, tu, frac in steam:
        for t in list(np.linspace(lo, hi, n)) + [rng.uniform(lo, hi) for _ in range(n)]:
            if t <= 340:
                pmax = min(T.sat(t), I.sat(t))
            elif t <= 590:
                pmax = min(1.0e8, frac * min(T.b23p(t), I.b23p(t)))
            else:
                pmax = 1.0e8
            for p in np.linspace(pmax * 1e-4, pmax, n):
                d1, u1 = T.supst(t, p)
                r2 = I.supst(t, p)
                if r2 is None:
                    raise tlc.MachineryError("IAPWS97.supst(%r, %r) returned None" % (t, p))
                d2, u2 = r2
                rep.case(None)
                if abs(d1 - d2) > td * d2 or abs(u1 - u2) > tu:
                    rep.violation("steam_vs_iapws:%g-%g" % (lo, hi), "N_steam_agrees_with_IAPWS97",
                                  {"t": t, "p": p, "ifc67": [d1, u1], "iapws97": [d2, u2], "tolerance": [td, tu]})
                    break
    # steam ON the saturation line of either formulation (the higher of the two saturation pressures): both routines answer
    for lo, hi, td, tu in [(0.01, 100, 6e-4, 1700.0), (100, 250, 2.3e-3, 3400.0), (250, 340, 2.8e-3, 9000.0)]:
        for t in np.linspace(lo, hi, 4 * n):
            p = max(T.sat(t), I.sat(t))
            a, b = T.supst(t, p), I.supst(t, p)
            rep.case(None)
            if b is None or b[0] is None or abs(a[0] - b[0]) > td * b[0] or abs(a[1] - b[1]) > tu:
                rep.violation("steam_on_saturation_line:%g-%g" % (lo, hi), "N_steam_agrees_with_IAPWS97",
                              {"t": t, "p": p, "ifc67": list(a), "iapws97": None if b is None else list(b)})
                break
    # the two IAPWS-97 routines called alternately at one temperature (nothing may be carried over from one to the other)
    for t in list(np.linspace(5.0, 340.0, n)) + [rng.uniform(0.01, 340.0) for _ in range(n)]:
        ps = max(T.sat(t), I.sat(t))
        pl, pv = min(1.0e8, ps * 1.5 + 1.0e5), 0.5 * min(T.sat(t), I.sat(t))
        for order in (0, 1):
            if order == 0:
                l2, v2 = I.cowat(t, pl), I.supst(t, pv)
            else:
                v2, l2 = I.supst(t, pv), I.cowat(t, pl)
            l1, v1 = T.cowat(t, pl), T.supst(t, pv)
            rep.case(None)
            if abs(l1[0] - l2[0]) > 4.8e-3 * l2[0] or abs(l1[1] - l2[1]) > 7400.0 or abs(v1[0] - v2[0]) > 2.8e-3 * v2[0] or abs(v1[1] - v2[1]) > 9000.0:
                rep.violation("alternating_liquid_steam_calls", "N_liquid_agrees_with_IAPWS97" if abs(l1[0] - l2[0]) > 4.8e-3 * l2[0] or abs(l1[1] - l2[1]) > 7400.0 else "N_steam_agrees_with_IAPWS97",
                              {"t": t, "p_liquid": pl, "p_steam": pv, "order": "cowat, supst" if order == 0 else "supst, cowat",
                               "ifc67": [list(l1), list(v1)], "iapws97": [list(l2), list(v2)]})
                break
    for t in list(np.linspace(0.01, I.tcritical, 40 * n)):
        a, b = T.sat(t), I.sat(t)
        rep.case(None)
        if abs(a - b) > 2.6e-3 * b:
            rep.violation("sat_vs_iapws", "N_sat_agrees_with_IAPWS97", {"t": t, "ifc67": a, "iapws97": b})
            break
    # tsat inverts sat (the whole saturation line, end points included)
    for t in [0.01, T.Tc1_C] + list(np.linspace(0.01, T.Tc1_C, 10 * n)) + [rng.uniform(0.01, T.Tc1_C) for _ in range(n)]:
        try:
            back = float(T.tsat(T.sat(t)))
        except Exception as ex:
            rep.violation("tsat:raises", "N_tsat_inverts_sat", {"t": t, "error": repr(ex)})
            break
        rep.case(None)
        if abs(back - t) > 1e-6 * max(1.0, abs(t)):
            rep.violation("tsat_inverts_sat", "N_tsat_inverts_sat", {"t": t, "tsat(sat(t))": back})
            break
    # the single-potential identity  du/dp|T + T dv/dT|p + p dv/dp|T = 0  by central differences
    def resid(f, t, p):
        ht, hp = 1e-3, p * 1e-4
        v = lambda t, p: 1.0 / f(t, p)[0]
        u = lambda t, p: f(t, p)[1]
        a = (u(t, p + hp) - u(t, p - hp)) / (2 * hp)
        b = (t + 273.15) * (v(t + ht, p) - v(t - ht, p)) / (2 * ht)
        c = p * (v(t, p + hp) - v(t, p - hp)) / (2 * hp)
        return abs(a + b + c) / max(abs(a), abs(b), abs(c), 1e-300)
    worst = {"liquid": 0.0, "steam": 0.0}
    for t in np.linspace(1.0, 349.0, n):
        for p in np.linspace(T.sat(t) * 1.01 + 1e3, 9.9e7, n):
            r = resid(T.cowat, t, p)
            worst["liquid"] = max(worst["liquid"], r)
            rep.case(None)
            if r > 5e-4:
                rep.violation("potential:liquid", "N_single_potential", {"t": t, "p": p, "residual": r})
                break
    for t in np.linspace(1.0, 799.0, n):
        pmax = T.sat(t) if t <= T.Tc1_C else (T.b23p(t) if t <= 590 else 1.0e8)
        for p in np.linspace(max(pmax * 1e-2, 1e3), pmax * 0.99, n):
            r = resid(T.supst, t, p)
            worst["steam"] = max(worst["steam"], r)
            rep.case(None)
            if r > 1e-4:
                rep.violation("potential:steam", "N_single_potential", {"t": t, "p": p, "residual": r})
                break
    rep.extra["potential_identity_worst_residual"] = worst


def sweeps(rep, T, rng, quick):
    """separated_steam_fraction along increasing enthalpy, one and two stages; recorded in millionths (rounding is monotone)."""
    out, meta = [], []
    n = 12 if quick else 60
    for k in range(n):
        p1 = rng.choice([rng.uniform(0.1e6, 5.0e6), rng.uniform(0.1e6, 5.0e6), 0.1e6, 5.0e6])
        p2 = None if k % 2 == 0 else rng.choice([rng.uniform(0.1e6, 5.0e6), 0.1e6, 5.0e6])        # either order of the two stages
        hs = np.linspace(0.0, 3.5e6, 60 if quick else 200)
        # ... and the cold end resolved finely (enthalpies of a few J/kg up to tens of kJ/kg)
        hs = np.array(sorted(set(list(hs) + [1.0, 10.0, 100.0, 1.0e3, 5.0e3, 9.0e3, 9.99e3, 1.0e4, 1.27e4, 2.0e4, 4.0e4]
                                 + [rng.uniform(0.0, 3.0e4) for _ in range(4)])))
        try:
            seq = [int(round(1e6 * float(T.separated_steam_fraction(h, p1, p2)))) for h in hs]
        except Exception as ex:
            rep.violation("steam_fraction:raises", "S_sweep", {"p1": p1, "p2": p2, "error": repr(ex)})
            continue
        out.append(seq)
        meta.append({"p1": p1, "p2": p2})
        rep.traces += 1
    return out, meta


def run(tier):
    rep = core.Report("C15", tier, "other")
    quick = tier == "quick"
    rng = random.Random(1500 + core.seed())
    T, I = core.repo_modules("t2thermo", "IAPWS97")
    sw, meta = sweeps(rep, T, rng, quick)
    for variant, inv in (("liquid_open", "I_LiquidRange"), ("steam_550", "I_SteamRange")):
        rn = model(variant, False, [])
        rep.add_tlc("ThermoRegions Variant=%s (negative)" % variant, rn, note="violated: %s" % rn.violated)
        if not rn.violated:
            raise tlc.MachineryError("negative configuration %s not rejected" % variant)
    r = model("code", True, sw)
    rep.add_tlc("ThermoRegions Variant=code: tables consistent on every possible cell (+ export, + %d steam-fraction sweeps)" % len(sw), r)
    if r.violated:
        raise tlc.MachineryError("ThermoRegions violates %s" % r.violated)
    for e in r.emitted:
        if "badsweep" in e:
            i = e["badsweep"] - 1
            rep.violation("steam_fraction:%s" % ("two_stage" if meta[i]["p2"] else "one_stage"), "S_sweep_in_unit_interval_and_monotone",
                          {"pressures": meta[i], "fractions_millionths": sw[i]})
    table = {}
    for e in r.emitted:
        if "c" in e:
            c = e["c"]
            table[(c["t"], c["p0"], c["p8"], c["s67"], c["s97"], c["b67"], c["b97"])] = e
    seen = set()
    for t, p in states(T, I, rng, quick):
        c = abstract(T, I, t, p)
        key = (c["t"], c["p0"], c["p8"], c["s67"], c["s97"], c["b67"], c["b97"])
        e = table.get(key)
        if e is None and 350.0 < t < 350.000001:
            # IFC-67's saturation and boundary curves cross 3e-7 K above 350 C instead of at 350 C: states in that sliver lie
            # between the two curves in the opposite order; "away from the boundary curves themselves" excludes them
            rep.extra["states_in_curve_crossing_sliver"] = rep.extra.get("states_in_curve_crossing_sliver", 0) + 1
            continue
        if e is None:
            rep.drifted("state t=%r p=%r realises a cell the model holds impossible: %s" % (t, p, c))
            continue
        seen.add(key)
        rep.traces += 1
        det = {"t": t, "p": p, "cell": c}
        try:
            got = {"r67": T.region(t, p) or 0, "r97": I.region(t, p) or 0,
                   "cow": T.cowat(t, p, bounds=True)[0] is not None, "sup": T.supst(t, p, bounds=True)[0] is not None if p != 0.0 else None}
        except Exception as ex:
            det["error"] = repr(ex)
            rep.violation("tables:raises:t%d" % c["t"], "R_tables", det)
            continue
        rep.case(key)
        for k, clause in (("r67", "R_region_ifc67"), ("r97", "R_region_iapws97"), ("cow", "R_liquid_range_flag"), ("sup", "R_steam_range_flag")):
            if got[k] is not None and got[k] != e[k]:
                det.update({"reported": got, "table": {x: e[x] for x in ("r67", "r97", "cow", "sup")}})
                rep.violation("tables:%s:t%d:%s%s%s" % (k, c["t"], c["p0"], c["p8"], c["s67"]), clause, det)
                break
        # sat / tsat range flags
    for t in list(TH) + [0.0, 0.005, 100.0, 374.0, 374.2, 500.0, 600.0] + [math.nextafter(T.Tc1_C, 0), math.nextafter(T.Tc1_C, 1e3), math.nextafter(0.01, 0), math.nextafter(0.01, 1)]:
        want = 0.01 <= t <= T.Tc1_C
        got = T.sat(t, bounds=True) is not None
        rep.case(("sat", t))
        if got != want:
            rep.violation("sat_range:%s" % ("inside" if want else "outside"), "R_sat_range_flag", {"t": t, "returned_value": got})
    lo, hi = T.sat(0.01), T.Pc1
    for p in [lo, hi, math.nextafter(lo, 0), math.nextafter(lo, 1e9), math.nextafter(hi, 0), math.nextafter(hi, 1e9), 1.0, 1e5, 1e7, 3e7]:
        want = lo <= p <= hi
        try:
            # checking on and off for the same state, in either order: the checked call's answer does not depend on an
            # unchecked call made before it, and an unchecked call's answer is the same before and after a checked one
            first = None
            order_ = (len(rep.distinct) % 2 == 0)
            if order_:
                try:
                    first = T.tsat(p)
                except Exception:
                    first = "raised"
            got = T.tsat(p, bounds=True) is not None
            try:
                again = T.tsat(p)
            except Exception:
                again = "raised"
            if (first is not None and repr(first) != repr(again)) or (want and again is None):
                rep.violation("tsat_range:unchecked-call-depends-on-history", "R_tsat_range_flag",
                              {"p": p, "unchecked_before": repr(first), "unchecked_after_a_checked_call": repr(again)})
                continue
        except Exception as ex:
            rep.violation("tsat_range:raises", "R_tsat_range_flag", {"p": p, "error": repr(ex)})
            continue
        rep.case(("tsat", p))
        if got != want:
            rep.violation("tsat_range:%s" % ("inside" if want else "outside"), "R_tsat_range_flag", {"p": p, "returned_value": got})
    rep.extra["cells_possible"] = len(table)
    rep.extra["cells_realised"] = len(seen)
    numeric_leaves(rep, T, I, rng, quick)
    rep.rule = ("TLC enumerates every possible cell of the abstract (T, P) plane and checks the decision tables of region (both formulations), "
                "cowat / supst range flags against each other; concrete states on and around every threshold and curve are abstracted with the "
                "library's own curves and the real functions compared with the tables; steam-fraction sweeps are validated by TLC (SweepOK)")
    rep.leaves = ["closeness of IFC-67 to IAPWS-97 (density, energy, saturation pressure) with per-band tolerances twice the largest difference "
                  "measured on the pinned tree", "tsat(sat(t)) = t to 1e-6", "single-potential identity by central differences (relative residual < 5e-4 liquid, 1e-4 steam; worst on the pinned tree 4.5e-5 / 6e-7)"]
    rep.assumptions = ["pressure exactly 0 is not passed to supst (division by the pressure)",
                       "steam compared with IAPWS-97 away from the saturation line above 340 C and from the region boundary (10%), where the "
                       "formulations differ by several percent by construction"]
    rep.exhaustive = False
    return rep.finish()


def replay(path):
    print(json.dumps(json.load(open(path)), indent=1)[:3000])
    return 0
