"""C05 - listing tables hold exactly the numbers printed in the file
(specs/ListingLayout.tla for the vertical layout; watermarking for the cell <-> printed token relation)."""
import itertools
import json
import os
import random
import shutil
import time

import numpy as np

from lib import core, tlc, listing, watermark, ltable


def table_data(lst):
    return dict((n, lst._table[n]._data.copy()) for n in lst._tablenames)


def _eq(a, b):
    return a == b or (a != a and b != b)


def key_text_ok(rowname, line, start):
    """The key printed on the line is the row's name (independent of key_from_line: plain text search)."""
    mulgrids = core.repo_modules("mulgrids")
    area = line[:start]
    names = rowname if isinstance(rowname, tuple) else (rowname,)
    pos = 0
    for n in names:
        cands = [n, mulgrids.unfix_blockname(n), n.strip(), mulgrids.unfix_blockname(n).strip()]
        hit = -1
        for c in cands:
            if c and area.find(c, pos) >= 0:
                hit = area.find(c, pos) + len(c)
                break
        if hit < 0:
            return False
        pos = hit
    return True


def check_file(rep, f, rng, quick, layout_recs, rec):
    fff = core.repo_modules("fixed_format_file")
    fname = listing.short_name(f)
    work = tlc.scratch_dir("c05-")
    try:
        lst = listing.open_listing(f)
        rec.attach(lst)
        sim = lst.simulator
        nfull = lst.num_fulltimes
        indices = list(range(nfull)) if (nfull <= 3 or not quick) else sorted(set([0, nfull - 1, rng.randrange(1, nfull - 1)]))
        used, orig = {}, {}
        for i in indices:
            used[i] = rec.read_at(lst, i)
            orig[i] = table_data(lst)
            # the three ways of addressing a cell agree at every result time, for rows already looked at at an earlier time too
            for t in lst._tablenames:
                tab = lst._table[t]
                for r in sorted(set([0, tab.num_rows - 1, tab.num_rows // 2])):
                    if tab._row.get(tab.row_name[r]) != r:
                        continue
                    try:
                        byi, byn = tab[r], tab[tab.row_name[r]]
                        bad_ = next((cn for k_, cn in enumerate(tab.column_name)
                                     if not (_eq(byi[cn], orig[i][t][r, k_]) and _eq(byn[cn], orig[i][t][r, k_]) and _eq(tab[cn][r], orig[i][t][r, k_]))), None)
                    except Exception as ex:
                        bad_ = repr(ex)
                    if bad_ is not None:
                        rep.violation("%s:%s:addressing-over-time" % (sim, t), "P4_addressing_agrees",
                                      {"file": fname, "index": i, "table": t, "row": r, "column": bad_})
        starts = dict((t, lst._table[t].row_format['values'][0]) for t in lst._tablenames)
        paths, tokmap = watermark.build_copies(f, used, starts, work, core.seed() + 5)
        copies = {}
        for c in "ABC":
            l2 = listing.open_listing(paths[c])
            copies[c] = {}
            for i in indices:
                with core.watchdog(60), core.quiet():
                    l2.index = i
                copies[c][i] = table_data(l2)
            if l2._tablenames != lst._tablenames or any(l2._table[t].row_name != lst._table[t].row_name for t in lst._tablenames):
                rep.violation("%s:watermark-changes-structure" % sim, "machinery", {"file": fname})
            l2.close()
        ncells = 0
        for i in indices:
            for t in lst._tablenames:
                tab = lst._table[t]
                recs = used[i].get(t, [])
                kshape = "%s:%s" % (sim, t)
                det = {"file": fname, "index": i, "table": t}
                # which row each consumed line filled
                rows = []
                for k, (off, line) in enumerate(recs):
                    if sim == "AUTOUGH2":
                        rows.append(k)
                    else:
                        rows.append(tab._row.get(tab.key_from_line(line)))
                if None in rows:
                    rep.violation(kshape + ":row-key", "P_row_keyed_as_printed", det)
                    continue
                line_of_row = {}
                for r, (off, line) in zip(rows, recs):
                    line_of_row[r] = (off, line)        # TOUGH2_MP prints duplicate rows: the last one wins, as in the reader
                if len(line_of_row) != tab.num_rows:
                    det["rows_read"] = len(line_of_row)
                    det["rows_in_table"] = tab.num_rows
                    rep.violation(kshape + ":row-count", "P_one_row_per_printed_row", det)
                    continue
                A, B, C = copies["A"][i][t], copies["B"][i][t], copies["C"][i][t]
                O = orig[i][t]
                lookup = {}
                for r, (off, line) in line_of_row.items():
                    for k in range(len(watermark.value_tokens(line, starts[t]))):
                        ta, tb = tokmap[(off, k)][0], tokmap[(off, k)][1]
                        lookup[(fff.fortran_float(ta), fff.fortran_float(tb))] = (off, k)
                bad = None
                if tab.num_rows <= 400 or not quick:
                    sample_rows = range(tab.num_rows)
                else:
                    # a sample, plus every row printed with fewer numbers than the table has columns (blank trailing cells)
                    short = [r for r in range(tab.num_rows)
                             if len(watermark.value_tokens(line_of_row[r][1], starts[t])) < tab.num_columns][:300]
                    sample_rows = sorted(set([0, 1, tab.num_rows - 1] + short + [rng.randrange(tab.num_rows) for _ in range(200)]))
                for r in sample_rows:
                    off, line = line_of_row[r]
                    ntok = len(watermark.value_tokens(line, starts[t]))
                    if not key_text_ok(tab.row_name[r], line, starts[t]):
                        bad = ("P_row_keyed_as_printed", {"row": r, "name": str(tab.row_name[r]), "line": line[:80]})
                        break
                    ords = []
                    own = {}
                    for k in range(ntok):
                        tk = tokmap[(off, k)]
                        own.setdefault((fff.fortran_float(tk[0]), fff.fortran_float(tk[1])), []).append(k)
                    prev = -1
                    for c in range(tab.num_columns):
                        pair = (A[r, c], B[r, c])
                        ncells += 1
                        cand = [k for k in own.get(pair, []) if k > prev]     # short tokens (0.00) can repeat on a line
                        if not cand:
                            hit = lookup.get(pair)
                            if hit is not None and hit[0] != off and pair not in own:
                                bad = ("P_cell_from_its_own_row", {"row": r, "col": c, "line_offset": hit[0], "row_offset": off})
                                break
                            ords.append(None)
                            continue
                        k = cand[0]
                        prev = k
                        ords.append(k)
                        # value-form copy: same (line, token) relation must hold for zero / negative / 3-digit exponents
                        tc = tokmap[(off, k)][2]
                        if not (C[r, c] == fff.fortran_float(tc)):
                            bad = ("P_value_forms", {"row": r, "col": c, "token": tc, "form": tokmap[(off, k)][3], "cell": float(C[r, c])})
                            break
                        to = tokmap[(off, k)][4]
                        if not (O[r, c] == float(fff.fortran_float(to)) or (np.isnan(O[r, c]) and np.isnan(fff.fortran_float(to)))):
                            bad = ("P_cell_equals_printed_number", {"row": r, "col": c, "token": to, "cell": float(O[r, c])})
                            break
                    if bad:
                        break
                    res = [o for o in ords if o is not None]
                    # every printed number of the row is used exactly once, left to right without gaps
                    if res != list(range(len(res))) or len(res) != ntok:
                        bad = ("P_cells_in_printed_order", {"row": r, "token_ordinals": ords, "tokens_on_line": ntok})
                        break
                    # unresolved cells: blank trailing cells read as zero; other unresolved cells hold non-real tokens
                    seen_tok = 0
                    for c, o in enumerate(ords):
                        if o is not None:
                            seen_tok += 1
                        elif seen_tok == ntok and not (O[r, c] == 0.0 and A[r, c] == 0.0):
                            bad = ("P_blank_trailing_cells_zero", {"row": r, "col": c, "cell": float(O[r, c])})
                            break
                    if bad:
                        break
                if bad:
                    det.update(bad[1])
                    rep.violation(kshape + ":" + bad[0], bad[0], det)
                # addressing: by index, by row name, by column name
                for r in [0, tab.num_rows - 1, rng.randrange(tab.num_rows)]:
                    byi = tab[r]
                    byn = tab[tab.row_name[r]]
                    if tab._row[tab.row_name[r]] != r:
                        continue        # duplicated names: name addressing picks one of them
                    cn = rng.choice(tab.column_name)
                    if not (byi == byn and byi[cn] == tab[cn][r] and byi['key'] == tab.row_name[r]):
                        det["row"] = r
                        rep.violation(kshape + ":addressing", "P4_addressing_agrees", det)
                # vertical layout record for TLC (TOUGH2-family readers replay a recorded layout)
                if sim != "AUTOUGH2" and recs and i in used and 0 in used and t in used[0]:
                    lr = layout_record(f, lst, t, used[0][t], recs, starts[t])
                    if lr:
                        lr["meta"] = [fname, i, t]
                        layout_recs.append(lr)
                rep.case((fname, i, t))
        rep.extra["cells_checked"] = rep.extra.get("cells_checked", 0) + ncells
        # skipping tables does not change the others
        names = lst._tablenames
        subsets = [s for k in range(1, len(names)) for s in itertools.combinations(names, k)]
        if "element" in names and sim != "AUTOUGH2":
            pass
        rng.shuffle(subsets)
        # (every subset: the whole set too - nothing is left to compare, but the reader still has to step through the file)
        for s in [tuple(names)] + subsets[:(len(subsets) if (not quick or len(subsets) <= 6) else 6)]:        # three tables: every subset, also in the quick tier
            det = {"file": fname, "skip_tables": list(s)}
            try:
                l3 = listing.open_listing(f, skip_tables=list(s))
            except Exception as e:
                det["error"] = repr(e)
                rep.violation("%s:skip:%s:raises" % (sim, "+".join(s)), "P3_skipping_leaves_others", det)
                continue
            for i in indices:
                try:
                    with core.watchdog(60), core.quiet():
                        l3.index = i
                except Exception as e:
                    det["index"], det["error"] = i, repr(e)
                    rep.violation("%s:skip:%s:raises" % (sim, "+".join(s)), "P3_skipping_leaves_others", det)
                    break
                for t in names:
                    if t in s:
                        continue
                    if t not in l3._table or not np.array_equal(l3._table[t]._data, orig[i][t], equal_nan=True) \
                            or l3._table[t].row_name != lst._table[t].row_name:
                        det["index"], det["table"] = i, t
                        rep.violation("%s:skip:%s" % (sim, "+".join(s)), "P3_skipping_leaves_others", det)
                        break
            l3.close()
            rep.case((fname, "skip", s))
        lst.close()
    finally:
        shutil.rmtree(work, ignore_errors=True)


def layout_record(path, lst, t, first_recs, recs, start):
    """Tags of the table's physical lines at the first result set and at this one, with the line
    indices (1-based, from the table's header line) the real reader consumed."""
    data = open(path, "rb").read()
    tab = lst._table[t]

    def region(rs):
        off0 = rs[0][0]
        # walk back to the header line
        pos, hdr = off0, None
        for _ in range(12):
            k = data.rfind(b"\n", 0, pos - 1)
            ln = data[k + 1:pos].decode("latin-1")
            if tab.is_header(ln):
                hdr = k + 1
                break
            pos = k + 1
            if pos <= 0:
                break
        if hdr is None:
            return None
        lines, offs, p = [], [], hdr
        last = rs[-1][0]
        while p < len(data) and len(lines) < 200000:
            k = data.find(b"\n", p)
            if k < 0:
                k = len(data)
            ln = data[p:k + 1].decode("latin-1")
            lines.append(ln)
            offs.append(p)
            p = k + 1
            if offs[-1] > last and len(lines) >= 2:
                s = ln.strip()
                if (len(s) > 30 and len(set(s)) == 1) or len([o for o in offs if o > last]) >= 3:
                    break
        tags = watermark.classify_page(lines, tab, lst, start)
        if offs[-1] <= last:
            tags.append("S")        # the file ends with the table's last row: end of file is the terminator
        elif tags[-1] != "S":
            tags[-1] = "S"          # whatever ends the region is the terminator for the model
        index = dict((o, n + 1) for n, o in enumerate(offs))
        usedidx = [index.get(o) for o, _ in rs]
        if None in usedidx:
            return None
        return tags, usedidx
    a, b = region(first_recs), region(recs)
    if not a or not b:
        return None
    return {"first": a[0], "page": b[0], "used": b[1]}


def run(tier):
    rep = core.Report("C05", tier, "model_checking")
    quick = tier == "quick"
    rng = random.Random(core.seed() + 505)
    t2listing = core.repo_modules("t2listing")
    # MC: layout inference + replay visits exactly the rows; skip = read; negative config needs uniform headers
    n = 9 if quick else 11
    base = "CONSTANT MaxLines = %d\nINIT Init\nNEXT Next\nCHECK_DEADLOCK FALSE\n" % n
    r = tlc.run_tlc("ListingLayout", None, workers=16, timeout=1800, heap="8g",
                    cfg_text=base + "INVARIANT P1_ReplayVisitsExactlyTheRows\nINVARIANT P3_SkipEqualsRead\nINVARIANT P_EndsAtSeparatorOrBlank\n")
    rep.add_tlc("ListingLayout MaxLines=%d: P1 replay visits exactly the rows, P3 skip=read" % n, r)
    if r.violated:
        raise tlc.MachineryError("ListingLayout violates " + str(r.violated))
    rn = tlc.run_tlc("ListingLayout", None, workers=4, timeout=600, cfg_text=base + "INVARIANT P1_NeedsUniformHeaders\n")
    rep.add_tlc("ListingLayout negative configuration (non-uniform internal headers)", rn, note="violates: %s" % rn.violated)
    if not rn.violated:
        raise tlc.MachineryError("negative ListingLayout configuration did not fail: model vacuous")

    rec = watermark.LineRecorder(t2listing)
    rec.install()
    layout_recs = []
    try:
        files = listing.listing_files()
        for f in files:
            check_file(rep, f, rng, quick, layout_recs, rec)
    finally:
        rec.uninstall()
    rep.extra["files"] = len(files)
    # C2S: recorded pages validated by TLC against the layout model
    if layout_recs:
        work = tlc.scratch_dir("c05t-")
        try:
            p = os.path.join(work, "pages.json")
            # very long tables: keep TLC's work bounded by sending each distinct (first, page, used) once
            uniq, order = {}, []
            for lr in layout_recs:
                k = json.dumps([lr["first"], lr["page"], lr["used"]])
                if k not in uniq:
                    uniq[k] = lr
                    order.append(lr)
            small = [lr for lr in order if len(lr["page"]) <= (400 if quick else 2000)]
            # several TLC processes side by side, pages dealt out by length (a single process took over half an hour on the
            # thorough tier's longest pages; two 3000-line pages alone took over an hour, so 2000 lines is the cap)
            from concurrent.futures import ThreadPoolExecutor
            nchunk = 1 if quick else 14
            chunks = [[] for _ in range(nchunk)]
            load_ = [0] * nchunk
            for lr in sorted(small, key=lambda x: -len(x["page"])):         # TLC's work on a page grows with the square of its length
                k_ = load_.index(min(load_))
                chunks[k_].append(lr)
                load_[k_] += len(lr["page"]) ** 2 + 1000
            chunks = [c_ for c_ in chunks if c_]

            def one(ci):
                pc = os.path.join(work, "pages%d.json" % ci)
                json.dump([{"first": lr["first"], "page": lr["page"], "used": lr["used"]} for lr in chunks[ci]], open(pc, "w"))
                return tlc.run_tlc("ListingLayoutTrace", None, workers=1, timeout=5400, heap="6g", env={"TRACE_FILE": pc},
                                   cfg_text="CONSTANT MaxLines = 0\nINIT TInit\nNEXT TNext\nCONSTRAINT Report\nCHECK_DEADLOCK FALSE\n")
            with ThreadPoolExecutor(max_workers=len(chunks)) as ex_:
                results = list(ex_.map(one, range(len(chunks))))
            emitted = []
            for ci, tr in enumerate(results):
                rep.add_tlc("ListingLayoutTrace (%d recorded table pages, part %d/%d)" % (len(chunks[ci]), ci + 1, len(chunks)), tr)
                for e in tr.emitted:
                    e["lr"] = chunks[ci][e["i"] - 1]
                    emitted.append(e)
            rep.traces += len(small)
            for e in emitted:
                lr = e.pop("lr")
                fname, i, t = lr["meta"]
                det = {"file": fname, "index": i, "table": t, "tlc": e}
                if not e["reader_on_rows"]:
                    # the real reader consumed a line that is not a printed row, or left a printed row out
                    det["used"] = lr["used"][:50]
                    det["tags"] = "".join(lr["page"][:120])
                    rep.violation("layout:%s" % t, "P1_reader_visits_exactly_the_printed_rows", det)
                elif not e["matches_reader"] or not e["visits_rows"]:
                    if e["wf"] and e["same_structure"]:
                        rep.drifted("layout model and reader disagree on %s index %d table %s (rows are right)" % (fname, i, t))
        finally:
            shutil.rmtree(work, ignore_errors=True)
    rep.rule = ("all shipped listings; per file every result set (quick: first, last, one interior), every table, every row "
                "(quick: 200 sampled rows of tables > 400 rows); two digit-watermarked copies identify the (line, token) each "
                "cell was read from, a third copy imposes zero / negative / 3-digit-no-E forms; skip subsets; distinct = "
                "(file, index, table)")
    rep.leaves = ["cell == fortran_float(printed token) (C16 covers fortran_float itself)",
                  "line tags of a table region (header / row / blank / separator / other) are classified by the harness"]
    rep.assumptions = ["watermarking preserves token widths and positions; only digits on lines the reader consumed as rows change",
                       "TOUGH2_MP tables print duplicate rows: the reader keeps the last, and so does the oracle"]
    rep.exhaustive = False
    try:
        ltable.observe(rep, quick)
    except Exception as e:          # (beyond the properties: never a verdict, never a failure of this check)
        print("OBSERVATION beyond-properties (listingtable): harness stopped: %r" % (e,))
    return rep.finish()


def replay(path):
    print(json.dumps(json.load(open(path))["detail"], indent=1)[:3000])
    return 0
