"""C06 - history extraction equals stepping through the listing, and terminates
(specs/ListingScan.tla for the table search; specs/ListingNav.tla's History action for "state unchanged")."""
import itertools
import json
import os
import random
import time

import numpy as np

from lib import core, tlc, listing, histfile

CODE = {"element": "e", "connection": "c", "generation": "g", "primary": "p", "element1": "e1", "element2": "e2"}
CANON = ["element", "element1", "connection", "primary", "element2", "generation"]

GEN = """---- MODULE GEN_ListingScan ----
EXTENDS ListingScan, Json
MCPresent == %s
EmitSel == pc # "call" \\/ si # 1 \\/ ti # 1 \\/ PrintT("EMIT" \\o ToJson(sel))
====
"""


def scan_model(flavour, present, variant="fixed", nsets=2, live=False, export=True):
    cfg = ('CONSTANTS\n Flavour = "%s"\n Present <- MCPresent\n NSets = %d\n NRows = 2\n Variant = "%s"\n'
           % (flavour, nsets, variant))
    cfg += "SPECIFICATION Spec\nPROPERTY P_Done\n" if live else "INIT Init\nNEXT Next\n"
    cfg += "INVARIANT P_Terminates\nINVARIANT P_Lands\nCHECK_DEADLOCK FALSE\n"
    if export:
        cfg += "CONSTRAINT EmitSel\n"
    return tlc.run_tlc("GEN_ListingScan", None, cfg_text=cfg, workers=1, timeout=900,
                       extra_modules={"GEN_ListingScan.tla": GEN % tlc.tla_value(list(present))})


def flavour_of(sim):
    return "AUTOUGH2" if sim == "AUTOUGH2" else ("TOUGH+" if sim == "TOUGH+" else "TOUGH2")


class ScanRecorder(object):
    """Wraps the instance's skip_to_table (bound per simulator by detect_simulator) and records where
    each call lands: which result set (by the reader's recorded offsets) and whether the next line is
    the header of the wanted table."""

    def __init__(self, lst):
        self.lst = lst
        self.events = []
        self.orig = lst.skip_to_table
        lst.skip_to_table = self.wrapped

    def wrapped(self, tablename, last_tablename, nelt_tables):
        r = self.orig(tablename, last_tablename, nelt_tables)
        lst = self.lst
        pos = lst._file.tell()
        # the call is followed by skip_to_results_line(): what matters is that the first table header
        # at or after the landing position, before any row of results, is the wanted table's header
        tab = lst._table[tablename]
        nfl = lst.table_expected_floats(tablename, tab.column_name)
        is_header, seen = False, 0
        while seen < 8:
            line = lst.readline()
            if line == '':
                break
            if not line.strip():
                continue
            seen += 1
            if tab.is_header(line):
                is_header = True
                break
            if lst.is_results_line(line.strip(), max(nfl, 2)):
                break
        lst._file.seek(pos)
        ipos = lst._index
        lo = lst._pos[ipos]
        hi = lst._pos[ipos + 1] if ipos + 1 < len(lst._pos) else float("inf")
        self.events.append({"set": ipos, "wanted": tablename, "in_set": lo <= pos < hi,
                            "is_header": is_header})
        return r

    def remove(self):
        self.lst.skip_to_table = self.orig


def stepping_oracle(path):
    """Every table at every full result set, by visiting each index in turn with a separate reader."""
    l = listing.open_listing(path)
    data = []
    try:
        for i in range(l.num_fulltimes):
            with core.watchdog(30), core.quiet():
                l.index = i
            data.append(dict((n, l._table[n]._data.copy()) for n in l._tablenames))
    finally:
        l.close()
    return data


_SHORT_TOGGLE = [0]


def short_rows(lst, t):
    """Rows of table t that the listing's short result sets print: {row index: line in the short table}."""
    if getattr(lst, "simulator", "") != "AUTOUGH2" or not any(lst._short):
        return {}
    return dict(getattr(lst, "short_indices", {}).get(CODE[t].upper() + "SHORT", {}))


def pick_items(lst, tables, rng, rich):
    items = []
    for t in tables:
        tab = lst._table[t]
        nrows = tab.num_rows
        rows = sorted(set([0, nrows - 1, rng.randrange(nrows)]))
        if not rich:
            rows = [rng.choice(rows)]
        # rows printed more than once (TOUGH2_MP prints the rows shared between processes twice): the line a row is read from
        # is then out of sequence with its neighbours'
        if getattr(lst, "simulator", "") == "TOUGH2_MP" and nrows > 300:
            # parallel runs print shared rows twice, sometimes with other values; the sample has its own generator, so that what is
            # drawn here does not depend on how many numbers the selections of other files consumed
            own = random.Random(core.seed() * 1000 + nrows)
            # (one history call serves any number of rows in a fraction of a second: every row of tables up to 20 000 rows)
            rows = list(range(nrows)) if nrows <= 20000 else sorted(set(rows + own.sample(range(nrows), 2000)))
        rl = getattr(tab, "row_line", None)
        if rl is not None and len(rl) == nrows and nrows > 2:
            odd = [r for r in range(1, nrows) if rl[r] != rl[r - 1] + 1 and rl[r] - rl[r - 1] not in (2, 3, 4, 5)]
            if odd:
                # one history call serves any number of rows: take many where the table is printed out of sequence (chosen
                # uniformly, not through row_line, which is itself under test)
                rows = sorted(set(rows + (rng.sample(range(nrows), min(nrows, 200)) if len(odd) > 50 else rng.sample(odd, min(len(odd), 6 if rich else 3)))))
        # AUTOUGH2 short output: the rows printed in the short table as well - the one printed first, the last, another
        si = short_rows(lst, t)
        _SHORT_TOGGLE[0] += 1 if si else 0
        if si and _SHORT_TOGGLE[0] % 2 == 1:        # every other selection: the others keep every requested row outside the short table
            by_line = sorted(si, key=lambda r_: si[r_])
            rows = sorted(set(rows + [by_line[0], by_line[-1], rng.choice(by_line)]))
        cols = [tab.column_name[0], tab.column_name[-1], rng.choice(tab.column_name)]
        for r in rows:
            mode = rng.choice(["name", "name", "int", "rev"])
            key = tab.row_name[r]
            sign = 1.0
            if mode == "int":
                key = r
            elif mode == "rev" and tab.allow_reverse_keys and isinstance(key, tuple) and key[::-1] not in tab._row:
                key, sign = key[::-1], -1.0
            items.append({"table": t, "row": r, "key": key, "sign": sign, "col": rng.choice(cols) if not rich else cols[len(items) % 3]})
    rng.shuffle(items)
    return items


def check_history(rep, lst, fname, oracle, tables, items, short, start, rec):
    sel = [(CODE[it["table"]], it["key"], it["col"]) for it in items]
    arg = sel[0] if len(sel) == 1 and start % 2 == 0 else sel          # single tuple form as well as list form
    kshape = "%s:%s" % (lst.simulator, "+".join(tables))
    detail = {"file": fname, "selection": [[s[0], s[1] if not isinstance(s[1], tuple) else list(s[1]), s[2]] for s in sel],
              "short": short, "start_index": start}
    with core.quiet():
        lst.index = start
    rec.events = []
    try:
        with core.watchdog(30), core.quiet():
            res = lst.history(arg, short=short)
    except core.Hang:
        rep.violation(kshape + ":hang", "P_terminates", detail)
        return "abort"
    except Exception as e:
        detail["error"] = repr(e)
        rep.violation(kshape + ":raises", "P_no_exception", detail)
        return "bad"
    if res is None:
        rep.violation(kshape + ":none", "P1_series", detail)
        return "bad"
    if len(sel) == 1:
        res = [res]
    nfull = lst.num_fulltimes
    full_positions = [k for k, s in enumerate(lst._short) if not s]
    # scanner landings (P_Lands of ListingScan evaluated on the recorded calls)
    for ev in rec.events:
        if not (ev["in_set"] and ev["is_header"]):
            detail["landing"] = ev
            rep.violation(kshape + ":landing", "P_lands_on_wanted_table", detail)
            return "bad"
    for it, (times, vals) in zip(items, res):
        vals = np.asarray(vals, dtype=float)
        colidx = lst._table[it["table"]]._col[it["col"]]
        expect = np.array([it["sign"] * oracle[i][it["table"]][it["row"], colidx] for i in range(nfull)])
        in_short = short and it["row"] in short_rows(lst, it["table"])
        if len(vals) == nfull and (not in_short or nfull == len(lst._pos)):
            sub, tt = vals, lst.fulltimes
        elif len(vals) == len(lst._pos) and (in_short or nfull == len(lst._pos)):
            sub, tt = vals[full_positions], lst.times
        else:
            detail["item"] = [it["table"], it["row"], it["col"]]
            detail["length"] = len(vals)
            rep.violation(kshape + ":length", "P1_series", detail)
            return "bad"
        same = (sub == expect) | (np.isnan(sub) & np.isnan(expect))
        if not same.all():
            k = int(np.argwhere(~same)[0][0])
            detail["item"] = [it["table"], it["row"], it["col"], "reversed" if it["sign"] < 0 else ""]
            detail["first_difference"] = {"result_set": k, "history": float(sub[k]), "stepping": float(expect[k])}
            clause = "P3_reversed_negated" if it["sign"] < 0 else "P1_series"
            rep.violation(kshape + ":values" + (":reversed" if it["sign"] < 0 else ""), clause, detail)
            return "bad"
        if len(times) != len(vals) or not np.array_equal(np.asarray(times, dtype=float), np.asarray(tt, dtype=float)):
            detail["item"] = [it["table"], it["row"], it["col"]]
            rep.violation(kshape + ":times", "P2_times", detail)
            return "bad"
    # afterwards the reader shows what it showed before
    if lst.index != start or float(lst.time) != float(lst.fulltimes[start]):
        rep.violation(kshape + ":state", "P4_state_unchanged", detail)
        return "bad"
    for t in lst._tablenames:
        d = lst._table[t]._data
        o = oracle[start][t]
        if not ((d == o) | (np.isnan(d) & np.isnan(o))).all():
            detail["table"] = t
            rep.violation(kshape + ":tables", "P4_state_unchanged", detail)
            return "bad"
    return "ok"


def run(tier):
    rep = core.Report("C06", tier, "model_checking")
    quick = tier == "quick"
    rng = random.Random(core.seed() + 606)
    budget = 60 if quick else 1500
    # negative configuration: the pinned TOUGH+ logic spins at end of file (vacuity guard for P_Terminates)
    full = ["element", "element1", "connection", "primary", "element2"]
    rn = scan_model("TOUGH+", full, variant="pinned", export=False)
    rep.add_tlc("ListingScan TOUGH+ Variant=pinned (negative configuration)", rn, note="violates: %s" % rn.violated)
    if rn.violated != "P_Terminates":
        raise tlc.MachineryError("negative configuration did not exhibit the TOUGH+ non-termination")
    rl = scan_model("TOUGH+", full, live=True, export=False)
    rep.add_tlc("ListingScan TOUGH+ Variant=fixed, liveness <>done under WF", rl)
    if rl.violated:
        raise tlc.MachineryError("ListingScan (fixed) violates " + str(rl.violated))

    files = listing.listing_files()
    models = {}
    per_file = budget / float(len(files))
    ncalls = 0
    for f in files:
        tf = time.time()
        fname = listing.short_name(f)
        lst = listing.open_listing(f)
        present = tuple(lst._tablenames)
        flav = flavour_of(lst.simulator)
        if (flav, present) not in models:
            r = scan_model(flav, present)
            rep.add_tlc("ListingScan %s Present=%s NSets=2: P_Terminates, P_Lands + selection export" % (flav, "/".join(present)), r)
            if r.violated:
                raise tlc.MachineryError("ListingScan violates %s for %s %s" % (r.violated, flav, present))
            models[(flav, present)] = r.emitted
        selections = list(models[(flav, present)])
        oracle = stepping_oracle(f)
        rec = ScanRecorder(lst)
        # smallest selections first, then the rest in random order; always the full selection
        selections.sort(key=len)
        singles = [s for s in selections if len(s) == 1]
        rest = [s for s in selections if len(s) > 1]
        rng.shuffle(rest)
        order = singles + [list(present)] + rest
        status = "ok"
        for n, tables in enumerate(order):
            if status == "abort":
                break
            if time.time() - tf > per_file and n >= len(singles) + 1:
                break
            items = pick_items(lst, tables, rng, rich=(n < len(singles)))
            for short in ([True, False] if lst.simulator == "AUTOUGH2" and any(lst._short) else [True]):
                start = rng.randrange(lst.num_fulltimes)
                status = check_history(rep, lst, fname, oracle, tables, items, short, start, rec)
                ncalls += 1
                rep.case((fname, "+".join(tables), short, json.dumps([(i["table"], i["row"], i["col"], i["sign"]) for i in items])))
                if ncalls % 60 == 1:
                    rep.sample({"file": fname, "tables": tables, "short": short, "start_index": start,
                                "items": [(CODE[i["table"]], str(i["key"]), i["col"]) for i in items][:4]})
                if status == "abort":
                    break
        rec.remove()
        lst.close()
    rep.traces += ncalls
    try:
        histfile.observe(rep, quick)
    except Exception as e:          # (beyond the properties: never a verdict, never a failure of this check)
        print("OBSERVATION beyond-properties (t2historyfile): harness stopped: %r" % (e,))
    rep.extra["history_calls"] = ncalls
    rep.extra["files"] = len(files)
    rep.rule = ("for every shipped listing: TLC enumerates every ordered sub-selection of the tables the file contains "
                "(ListingScan Init states, model-checked for that exact table configuration); each is run through the real "
                "history() with rows by name / reversed name / integer, first-last-interior rows, first-last-random "
                "columns, shuffled item order, short on/off, random starting index, under a 30 s watchdog, and compared "
                "with stepping; distinct = (file, tables, short, items)")
    rep.leaves = ["series values compared bitwise with the values a second reader shows when visiting each result set"]
    rep.assumptions = ["AUTOUGH2 short result sets: only the sub-series at full result sets and the pairing with times are "
                       "compared (values at short result sets are not visited by stepping)",
                       "scanner landings are classified with the reader's recorded result-set offsets and listingtable.is_header"]
    rep.exhaustive = False
    return rep.finish()


def replay(path):
    d = json.load(open(path))["detail"]
    f = os.path.join(core.REPO, "tests", "listing", d["file"])
    lst = listing.open_listing(f)
    sel = [(s[0], tuple(s[1]) if isinstance(s[1], list) else s[1], s[2]) for s in d["selection"]]
    try:
        with core.watchdog(30), core.quiet():
            lst.index = d["start_index"]
            print(lst.history(sel, short=d["short"]))
    except core.Hang:
        print("history() did not return within 30 s")
        return 1
    return 0
