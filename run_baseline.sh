#!/bin/sh
# the repository's pinned suite with the verification guard OFF
unset PYTOUGH_VERIF
cd /repo && exec /venv/bin/python -m pytest -ra -q -p no:cacheprovider --timeout=900 --continue-on-collection-errors "$@"
