#!/bin/sh
# Offline setup: nothing to build; verify the tools the checks need are present.
set -e
cd "$(dirname "$0")"
test -x /venv/bin/python
test -f /opt/veriftools/tla/tla2tools.jar
java -version >/dev/null 2>&1
/venv/bin/python -c "import numpy, scipy, hypothesis"
mkdir -p evidence
echo setup ok
