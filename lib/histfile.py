"""Beyond the listed properties: specs/HistoryFile.tla bound to t2historyfile (t2listing.py).  TLC enumerates every
well-formed abstract history file of a small size together with what a reader must expose for it; each is written in the
concrete layouts the reader supports (TOUGH2 FOFT, TOUGH+ FOFT, TOUGH2_MP FOFT and COFT) and read back.  What is found is
printed as OBSERVATION lines and recorded in the evidence of C06 (extra.beyond_properties); it never changes a verdict."""
import json
import os
import shutil

import numpy as np

from lib import core, tlc

GEN = """---- MODULE GEN_HistoryFile ----
EXTENDS HistoryFile, Json
Emit == PrintT("EMIT" \\o ToJson([file |-> file, read |-> Read(file)]))
====
"""
CFG = ("CONSTANTS Keys = {%s}\nNT = %d\nLayout = \"%s\"\nINIT Init\nNEXT Next\nCONSTRAINT Emit\nINVARIANT H1_KeysAreTheKeysPresent\n"
       "INVARIANT H2_RowsPartitionedByKey\nINVARIANT H3_HistoryInTimeOrder\nINVARIANT H4_RowLookupUnique\nINVARIANT H5_CompleteFile\n"
       "CHECK_DEADLOCK FALSE\n")

NCOL = 2
TIME = {1: 1.0e2, 2: 2.5e3, 3: 4.0e5}
MPNAME = {1: "  a 1", 2: "  b 1", 3: "AB105"}


def val(k, t, c):
    return float(1000 * k + 10 * t + c) + 0.5


def model(keys, nt, layout):
    return tlc.run_tlc("GEN_HistoryFile", None, cfg_text=CFG % (", ".join(str(k) for k in keys), nt, layout), workers=4,
                       timeout=900, extra_modules={"GEN_HistoryFile.tla": GEN}, allow_violation=False, heap="6g")


def lines_of(recs, nt):
    return [[r["k"] for r in recs if r["t"] == t] for t in range(1, nt + 1)]


def write_tough2(path, recs, nt):
    with open(path, "w") as f:
        for t, ks in enumerate(lines_of(recs, nt), 1):
            items = ["%6d" % t, "%14.6E" % TIME[t]]
            for k in ks:
                items.append("%6d" % k)
                items += ["%13.5E" % val(k, t, c) for c in range(NCOL)]
            f.write(",".join(items) + ",\n")


def write_toughplus(path, recs, nt):
    with open(path, "w") as f:
        f.write("Time [sec] - ElemNum - Pressure [Pa] - Temperature [C]\n")
        for t, ks in enumerate(lines_of(recs, nt), 1):
            items = ["%6d" % t, "%14.6E" % TIME[t]]
            for k in ks:
                items.append("%6d" % k)
                items += ["%13.5E" % val(k, t, c) for c in range(NCOL)]
            f.write(",".join(items) + "\n")


def write_mp_foft(path, recs):
    with open(path, "w") as f:
        f.write("FOFT  ELEM    TIME(S)        PRES          TEMP\n")
        for r in recs:
            k, t = r["k"], r["t"]
            f.write("      %-5s   %-14.6E %-13.5E %-13.5E\n" % (MPNAME[k], TIME[t], val(k, t, 0), val(k, t, 1)))


def write_mp_coft(path, recs):
    with open(path, "w") as f:
        f.write("COFT  TIME(S)        ELEM1 ELEM2 FLOW          HEAT\n")
        for r in recs:
            k, t = r["k"], r["t"]
            f.write("      %-14.6E %-5s %-5s %-13.5E %-13.5E\n" % (TIME[t], MPNAME[k], MPNAME[(k % 3) + 1], val(k, t, 0), val(k, t, 1)))


def compare(h, e, keyof, nt, what, note):
    """The reader's view against the specification's Read(file)."""
    read = e["read"]
    want_keys = [keyof(k) for k in read["keys"]]
    if list(h.keys) != want_keys:
        note("%s: the keys (in order of first appearance) differ from the specification's" % what)
        return
    want_times = [TIME[t] for t in read["times"]]
    if [float(x) for x in h.times] != want_times:
        note("%s: the times differ from the specification's" % what)
        return
    if h.num_rows != len(read["rows"]):
        note("%s: the number of rows differs from the specification's" % what)
        return
    cols = list(h.column_name)
    if len(cols) != NCOL:
        note("%s: %d columns read, %d written" % (what, len(cols), NCOL))
        return
    hist = read["hist"]
    items = hist.items() if isinstance(hist, dict) else [(str(i + 1), v) for i, v in enumerate(hist)]
    for k, ts in items:
        k = int(k)
        key = keyof(k)
        got = h[key[0] if len(key) == 1 else key]
        if got is None:
            note("%s: no history for a key that is in the file" % what)
            return
        for c, col in enumerate(cols):
            if [float(x) for x in got[col]] != [val(k, t, c) for t in ts]:
                note("%s: history of a key differs from the file's records" % what)
                return
        for t in ts:
            row = h[key + (TIME[t],)]
            if row is None or [float(row[col]) for col in cols] != [val(k, t, c) for c in range(NCOL)]:
                note("%s: the row of (key, time) is not that record" % what)
                return
    if h[keyof(99)[0] if len(keyof(99)) == 1 else keyof(99)] is not None:
        note("%s: a key that is not in the file has a history" % what)


def observe(rep, quick):
    t2listing = core.repo_modules("t2listing")
    obs = {}

    def note(k):
        obs[k] = obs.get(k, 0) + 1

    work = tlc.scratch_dir("hist-")
    nfiles = 0
    try:
        for layout, keys, nt in (("lines", [1, 2, 3], 2), ("lines", [1, 2], 3), ("rows", [1, 2], 2)) + \
                (() if quick else (("rows", [1, 2, 3], 2), ("rows", [1, 2], 3))):
            r = model(keys, nt, layout)
            rep.add_tlc("HistoryFile Layout=%s Keys=%d NT=%d (beyond the listed properties): every well-formed file, H1-H5" % (layout, len(keys), nt), r)
            if r.violated:
                raise tlc.MachineryError("HistoryFile violates " + str(r.violated))
            seen_, docs = set(), []
            for e_ in r.emitted:            # (TLC evaluates the constraint more than once per state)
                j_ = json.dumps(e_["file"])
                if j_ not in seen_:
                    seen_.add(j_)
                    docs.append(e_)
            if quick and len(docs) > 400:
                docs = docs[::max(1, len(docs) // 400)]
            for e in docs:
                recs = e["file"]
                nfiles += 1
                if layout == "lines":
                    variants = [("TOUGH2 FOFT", "FOFT", lambda p: write_tough2(p, recs, nt), lambda k: (k,)),
                                ("TOUGH+ FOFT", "Elem_Time_Series", lambda p: write_toughplus(p, recs, nt), lambda k: (k,))]
                else:
                    variants = [("TOUGH2_MP FOFT", "FOFT_P.000", lambda p: write_mp_foft(p, recs), lambda k: (MPNAME.get(k, "zz 99"),)),
                                ("TOUGH2_MP COFT", "COFT_P.000", lambda p: write_mp_coft(p, recs),
                                 lambda k: (MPNAME.get(k, "zz 99"), MPNAME.get((k % 3) + 1, "zz 98")))]
                for what, fname, writer, keyof in variants:
                    path = os.path.join(work, fname)
                    writer(path)
                    try:
                        with core.watchdog(20), core.quiet():
                            h = t2listing.t2historyfile(path)
                            compare(h, e, keyof, nt, what, note)
                    except Exception as ex:
                        note("%s: raises %s" % (what, repr(ex)[:80]))
                    os.remove(path)
    finally:
        shutil.rmtree(work, ignore_errors=True)
    for k in sorted(obs):
        print("OBSERVATION beyond-properties (t2historyfile, not a verdict on %s): %s x%d" % (rep.pid, k, obs[k]))
    rep.extra["beyond_properties"] = {"module": "HistoryFile.tla bound to t2historyfile", "abstract_files": nfiles, "observations": obs}
