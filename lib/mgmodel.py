"""Binding between specs/MulgridADT.tla and the real mulgrid (C10, C11): projection, drivers, trace validation."""
import copy
import itertools
import json
import os
import shutil

import numpy as np

from . import core, tlc

H = 2.5            # one lattice unit in metres (cells of 10 m = 4 units: two levels of mid-side nodes stay integral)


def lowest_unused(used):
    i = 1
    while i in used:
        i += 1
    return i


class Adapter(object):
    def __init__(self, geo, lattice=True):
        self.geo = geo
        self.reg = {}
        self.lattice = lattice

    def __deepcopy__(self, memo):
        new = Adapter.__new__(Adapter)
        new.lattice = self.lattice
        new.geo = copy.deepcopy(self.geo, memo)
        new.reg = {}
        for o, v in self.reg.values():
            o2 = copy.deepcopy(o, memo)
            new.reg[id(o2)] = (o2, v)
        return new

    def vid(self, o, kind):
        e = self.reg.get(id(o))
        if e is None:
            # an object that is in none of the geometry's lists (stale reference): give it an id no live object has
            v = 100000 + len(self.reg)
            self.reg[id(o)] = (o, v)
            return v
        return e[1]

    def assign_ids(self):
        """Ids are allocated lowest-unused among the LIVE objects of a kind, in list order (as the spec does)."""
        g = self.geo
        for lst, dct in ((g.nodelist, g.node), (g.columnlist, g.column), (g.connectionlist, g.connection)):
            objs = list(lst) + [v for v in dct.values()]
            live = set(self.reg[id(o)][1] for o in objs if id(o) in self.reg)
            for o in objs:
                if id(o) not in self.reg:
                    v = lowest_unused(live)
                    live.add(v)
                    self.reg[id(o)] = (o, v)

    def lat(self, x, unit=H):
        v = float(x) / unit
        r = int(round(v))
        if abs(v - r) > 1e-7:
            raise OffLattice()
        return r

    def project(self):
        g = self.geo
        on = self.lattice
        self.assign_ids()
        try:
            nodes = [{"id": self.vid(n, "n"), "name": n.name, "x": self.lat(n.pos[0]) if on else 0, "y": self.lat(n.pos[1]) if on else 0}
                     for n in g.nodelist]
            layers = [{"name": l.name, "bottom": self.lat(l.bottom) if on else 0, "top": self.lat(l.top) if on else 0} for l in g.layerlist]
            surf = dict((id(c), self.lat(c.surface) if on else 0) for c in g.columnlist)
        except OffLattice:
            on = False
            nodes = [{"id": self.vid(n, "n"), "name": n.name, "x": 0, "y": 0} for n in g.nodelist]
            layers = [{"name": l.name, "bottom": 0, "top": 0} for l in g.layerlist]
            surf = dict((id(c), 0) for c in g.columnlist)
        if not on:
            # order-preserving integer ranks keep the layer-count clause (layers below the surface) meaningful
            elevs = sorted(set([l.bottom for l in g.layerlist] + [l.top for l in g.layerlist] + [c.surface for c in g.columnlist]))
            rank = dict((e, i) for i, e in enumerate(elevs))
            layers = [{"name": l.name, "bottom": rank[l.bottom], "top": rank[l.top]} for l in g.layerlist]
            surf = dict((id(c), rank[c.surface]) for c in g.columnlist)
        cols = [{"id": self.vid(c, "c"), "name": c.name, "nodes": [self.vid(n, "n") for n in c.node], "surf": surf[id(c)],
                 "nl": int(c.num_layers)} for c in g.columnlist]
        conns = [{"id": self.vid(k, "k"), "c1": self.vid(k.column[0], "c"), "c2": self.vid(k.column[1], "c"),
                  "n1": self.vid(k.node[0], "n") if k.node else 0, "n2": self.vid(k.node[1], "n") if k.node else 0}
                 for k in g.connectionlist]
        st = {"nodes": nodes, "nodeDict": sorted([k, self.vid(v, "n")] for k, v in g.node.items()),
              "cols": cols, "colDict": sorted([k, self.vid(v, "c")] for k, v in g.column.items()),
              "conns": conns, "connDict": sorted([k[0], k[1], self.vid(v, "k")] for k, v in g.connection.items()),
              "layers": layers,
              "nodeCols": sorted([self.vid(n, "n"), sorted(self.vid(c, "c") for c in n.column)] for n in g.nodelist),
              "colConns": sorted([self.vid(c, "c"), sorted(self.vid(k, "k") for k in c.connection)] for c in g.columnlist),
              "colNbrs": sorted([self.vid(c, "c"), sorted(self.vid(x, "c") for x in c.neighbour)] for c in g.columnlist),
              "bnames": list(g.block_name_list), "lattice": bool(on)}
        return st

    def names_current(self):
        """Leaf: block and connection name lists equal a fresh recomputation (done in place, then restored so that
        staleness is not repaired by the check itself)."""
        g = self.geo
        saved = (g.block_name_list, g.block_name_index, g.block_connection_name_list, g.block_connection_name_index)
        with core.quiet():
            g.setup_block_name_index()
            g.setup_block_connection_name_index()
        ok = list(saved[0]) == list(g.block_name_list) and list(saved[2]) == list(g.block_connection_name_list) \
            and dict(saved[1]) == dict(g.block_name_index)
        g.block_name_list, g.block_name_index, g.block_connection_name_list, g.block_connection_name_index = saved
        return ok

    def apply(self, a):
        g = self.geo
        op, args = a["op"], a["args"]
        with core.quiet():
            if op == "rename_column":
                g.rename_column(args[0], args[1])
            elif op == "rename_columns":
                g.rename_column(list(args[0]), list(args[1]))
            elif op == "delete_column":
                # delete_column is a primitive: like add_column it leaves the derived name lists to the caller
                # (reduce(), the readers and constructors refresh them); the edit in the alphabet is the pair
                g.delete_column(args[0])
                g.setup_block_name_index()
                g.setup_block_connection_name_index()
            elif op == "set_surface":
                col = g.column[args[0]]
                col.surface = args[1] * H
                g.set_column_num_layers(col)
                g.setup_block_name_index()
                g.setup_block_connection_name_index()
            elif op == "split_column":
                r = g.split_column(args[0], args[1])
                if r:
                    newcol = g.columnlist[-1]
                    a["args"] = [args[0], args[1], newcol.name]
                else:
                    a["op"], a["args"] = "refused", ["split_column"] + list(args)
            elif op == "refine":
                cols = [g.column[n] for n in args[0]]
                edge = []
                if args[2] and args[1]:
                    # an edge column is a quadrilateral outside the selection, across a side that the bisection refines
                    direction = None if args[1] is True else args[1]
                    for c in cols:
                        for i in c.bisection_sides(direction):
                            con = g.connection_with_nodes([c.node[i], c.node[(i + 1) % c.num_nodes]])
                            if con:
                                other = [x for x in con.column if x is not c][0]
                                if other not in cols and other.num_nodes == 4 and other not in edge:
                                    edge.append(other)
                    if args[2] == "all":
                        # ... plus quadrilaterals next to the selection that are connected to one of those (they get a
                        # refined side from the connection between two listed edge columns)
                        more = [n for e in list(edge) for n in e.neighbour
                                if n not in cols and n not in edge and n.num_nodes == 4 and any(n in c.neighbour for c in cols)]
                        for x in more:
                            if x not in edge:
                                edge.append(x)
                    else:
                        edge = edge[:1]
                g.refine(cols, bisect=args[1], bisect_edge_columns=edge)
            elif op == "decompose_columns":
                if len(args) > 1 and args[1]:
                    # the start of a column's node cycle is arbitrary: rotate it before decomposing
                    for n in args[0]:
                        c = g.column[n]
                        k = args[1] % c.num_nodes
                        c.node = c.node[k:] + c.node[:k]
                if len(args) > 2 and args[2]:
                    # asking for the old-to-new column mapping is an option of the same edit
                    g.decompose_columns([g.column[n] for n in args[0]] if args[0] else [], mapping=True)
                else:
                    g.decompose_columns([g.column[n] for n in args[0]] if args[0] else [])
            elif op == "reduce":
                g.reduce([g.column[n] for n in args[0]])
            elif op == "refine_layers":
                g.refine_layers([g.layer[n] for n in args[0]], factor=args[1])
            elif op == "translate":
                g.translate(np.array([args[0] * H, args[1] * H, args[2] * H]))
            elif op == "rotate90":
                g.rotate(90.0 * args[0])
            elif op == "check":
                g.check(fix=True, silent=True)
            elif op == "snap_columns_to_layers":
                if len(args) > 1:
                    g.snap_columns_to_layers(args[0] * H, [g.column[n] for n in args[1]])
                else:
                    g.snap_columns_to_layers(args[0] * H)
            elif op == "copy_layers_from":
                m = core.repo_modules("mulgrids")
                with core.quiet():
                    src = m.mulgrid().rectangular([10.0], [10.0], [x * H for x in args[0]], atmos_type=g.atmosphere_type)
                    if args[1]:
                        src.translate(np.array([0.0, 0.0, args[1] * H]))
                g.copy_layers_from(src)
            elif op == "add_node":
                # a node nothing uses yet (a step of building a column by hand): an orphan until something uses or removes it
                m = core.repo_modules("mulgrids")
                g.add_node(m.node(g.new_node_name()[0], np.array([args[0] * H, args[1] * H])))
            elif op == "add_delete_node":
                # a node added away from the mesh and deleted again (primitives of the statement's list)
                m = core.repo_modules("mulgrids")
                name = g.new_node_name()[0] if hasattr(g, "new_node_name") else "zzz"
                g.add_node(m.node(name, np.array([args[0] * H, args[1] * H])))
                g.delete_node(name)
            elif op == "add_delete_well":
                m = core.repo_modules("mulgrids")
                g.add_well(m.well("w%4d" % args[0], [np.array([0.5 * H, 0.5 * H, 0.0]), np.array([0.5 * H, 0.5 * H, -4 * H])]))
                g.add_well(m.well("v%4d" % args[0], [np.array([1.5 * H, 0.5 * H, 0.0]), np.array([1.5 * H, 1.5 * H, -8 * H])]))
                g.delete_well("w%4d" % args[0])
            elif op == "add_layer_below":
                # a layer appended below the model; like delete_column a primitive: the caller refreshes counts and name lists
                m = core.repo_modules("mulgrids")
                bot = g.layerlist[-1].bottom
                g.add_layer(m.layer(args[0], bot - args[1] * H, bot - 0.5 * args[1] * H, bot))
                for c_ in g.columnlist:
                    g.set_column_num_layers(c_)
                g.setup_block_name_index()
                g.setup_block_connection_name_index()
            elif op == "delete_bottom_layer":
                g.delete_layer(g.layerlist[-1].name)
                for c_ in g.columnlist:
                    g.set_column_num_layers(c_)
                g.setup_block_name_index()
                g.setup_block_connection_name_index()
            elif op == "snap_columns_to_nearest_layers":
                if args and args[0]:
                    g.snap_columns_to_nearest_layers([g.column[n] for n in args[0]])
                else:
                    g.snap_columns_to_nearest_layers()
            elif op == "fit_surface":
                # scattered elevation data over the mesh: a plane dipping across it, on the lattice
                b = g.bounds
                pts = []
                for i_ in range(5):
                    for j_ in range(5):
                        x = b[0][0] + (b[1][0] - b[0][0]) * i_ / 4.0
                        y = b[0][1] + (b[1][1] - b[0][1]) * j_ / 4.0
                        pts.append([x, y, g.layerlist[0].bottom - args[0] * H * (i_ + j_) / 8.0])
                g.fit_surface(np.array(pts), alpha=0.1, beta=0.1, layer_snap=args[1] * H, silent=True)
            elif op == "add_column_taken_name":
                # a column under a name that is taken: add_column is documented to leave the geometry alone
                m = core.repo_modules("mulgrids")
                other = g.column[args[1]]
                g.add_column(m.column(args[0], list(other.node)))
                a["op"], a["args"] = "refused", ["add_column"] + list(args)
            elif op == "delete_orphans":
                g.delete_orphans()
            elif op == "connect":
                m = core.repo_modules("mulgrids")
                g.add_connection(m.connection([g.column[args[0]], g.column[args[1]]]))
                g.identify_neighbours()
                g.setup_block_connection_name_index()
            elif op == "rename_layer":
                g.rename_layer(args[0], args[1])
            else:
                raise ValueError(op)


class OffLattice(Exception):
    pass


TRACE_CFG = """CONSTANTS AtmType = %d
AtmCol = "ATM"
FreshNames = {}
INIT TraceInit
NEXT TraceNext
CONSTRAINT ReportState
ACTION_CONSTRAINT ReportStep
CHECK_DEADLOCK FALSE
"""


def _validate_chunk(traces, atmtype, timeout):
    work = tlc.scratch_dir("mgtr-")
    try:
        p = os.path.join(work, "traces.json")
        with open(p, "w") as fh:
            json.dump([[{"act": e["act"], "state": e["state"]} for e in t] for t in traces], fh)      # (what the trace spec reads)
        r = tlc.run_tlc("MulgridADTTrace", None, cfg_text=TRACE_CFG % atmtype, workers=1, timeout=timeout,
                        env={"TRACE_FILE": p}, allow_violation=False, heap="6g")
    finally:
        shutil.rmtree(work, ignore_errors=True)
    total = sum(len(t) for t in traces)
    if r.distinct != total:
        raise tlc.MachineryError("trace validation visited %d states, %d recorded" % (r.distinct, total))
    return r


def validate(traces, atmtype, timeout=3000, jobs=14):
    """Batched trace validation, the batch split over several TLC processes (one worker each: the
    registers / EMIT lines of a batch must not interleave)."""
    if not traces:
        return [], None
    from concurrent.futures import ThreadPoolExecutor
    cost = [sum(len(e["state"]["cols"]) ** 2 + 50 for e in t) for t in traces]
    order = sorted(range(len(traces)), key=lambda i: -cost[i])
    bins = [[] for _ in range(min(jobs, len(traces)))]
    load = [0] * len(bins)
    for i in order:
        k = load.index(min(load))
        bins[k].append(i)
        load[k] += cost[i]
    with ThreadPoolExecutor(max_workers=len(bins)) as ex:
        results = list(ex.map(lambda b: _validate_chunk([traces[i] for i in b], atmtype, timeout), bins))
    found = []
    agg = tlc.TLCResult()
    agg.ok = True
    for b, r in zip(bins, results):
        agg.distinct += r.distinct
        agg.generated += r.generated
        agg.wall_s = max(agg.wall_s, r.wall_s)
        for e in r.emitted:
            found.append({"tid": b[e["tid"] - 1], "l": e["l"] - 1, "failing": sorted(e["failing"]), "drift": e["drift"], "kind": e["kind"]})
    return found, agg


# ---------------------------------------------------------------- meshes and drivers
def poly_mesh(m, atm, sides=(0, 1, 2), rot=0):
    """A 20 m square centre column with a mid-side node on each side in `sides` (0 bottom, 1 right, 2 top, 3 left):
    4 + len(sides) nodes, len(sides) straight angles; two half-width neighbours on those sides, one full neighbour on
    the others; the centre column's node cycle starts at position rot."""
    geo = m.mulgrid(convention=0, atmos_type=atm)
    pts = {}

    def nd(x, y):
        if (x, y) not in pts:
            name = geo.node_name_from_number(len(pts) + 1)
            geo.add_node(m.node(name, np.array([float(x), float(y)])))
            pts[(x, y)] = geo.node[name]
        return pts[(x, y)]
    ncol = [0]

    def col(xy, r=0):
        nodes = [nd(x, y) for x, y in xy]
        nodes = nodes[r % len(nodes):] + nodes[:r % len(nodes)]
        ncol[0] += 1
        name = geo.column_name_from_number(ncol[0])
        geo.add_column(m.column(name, nodes))
    corners = [(0, 0), (20, 0), (20, 20), (0, 20)]
    mids = [(10, 0), (20, 10), (10, 20), (0, 10)]
    cyc = []
    for k in range(4):
        cyc.append(corners[k])
        if k in sides:
            cyc.append(mids[k])
    col(cyc, rot)
    outer = [((0, -10), (20, -10)), ((30, 0), (30, 20)), ((20, 30), (0, 30)), ((-10, 20), (-10, 0))]   # far corners, along the side
    for k in range(4):
        a, b = corners[k], corners[(k + 1) % 4]
        oa, ob = outer[k]
        if k in sides:
            mid = mids[k]
            omid = ((oa[0] + ob[0]) // 2, (oa[1] + ob[1]) // 2)
            col([oa, omid, mid, a])
            col([omid, ob, b, mid])
        else:
            col([oa, ob, b, a])
    with core.quiet():
        for con in geo.missing_connections:
            geo.add_connection(con)
        geo.identify_neighbours()
        geo.add_layers([10.0, 20.0], 0.0)
        geo.set_default_surface()
        geo.setup_block_name_index()
        geo.setup_block_connection_name_index()
    return geo


def tri2_mesh(m, atm=0, rot=0):
    """A right triangle (0,0) (30,0) (0,30) whose bottom side carries two extra nodes (five nodes, two straight angles next
    to each other), three quadrilaterals below it on the three parts of that side; node cycle of the triangle starts at rot."""
    geo = m.mulgrid(convention=0, atmos_type=atm)
    pts = {}

    def nd(x, y):
        if (x, y) not in pts:
            name = geo.node_name_from_number(len(pts) + 1)
            geo.add_node(m.node(name, np.array([float(x), float(y)])))
            pts[(x, y)] = geo.node[name]
        return pts[(x, y)]
    cyc = [(0, 0), (10, 0), (20, 0), (30, 0), (0, 30)]
    cyc = cyc[rot % 5:] + cyc[:rot % 5]
    cols = [cyc, [(0, -10), (10, -10), (10, 0), (0, 0)], [(10, -10), (20, -10), (20, 0), (10, 0)], [(20, -10), (30, -10), (30, 0), (20, 0)]]
    for k, xy in enumerate(cols):
        geo.add_column(m.column(geo.column_name_from_number(k + 1), [nd(x, y) for x, y in xy]))
    with core.quiet():
        for con in geo.missing_connections:
            geo.add_connection(con)
        geo.identify_neighbours()
        geo.add_layers([10.0, 20.0], 0.0)
        geo.set_default_surface()
        geo.setup_block_name_index()
        geo.setup_block_connection_name_index()
    return geo


def lattice_mesh(kind, atm=0):
    m = core.repo_modules("mulgrids")
    with core.quiet():
        if kind == "2sq":       # the mesh of MC_MulgridADT's MCInit: two squares side by side, two layers
            geo = m.mulgrid().rectangular([10.0, 10.0], [10.0], [10.0, 10.0], atmos_type=atm)
        elif kind == "2x2":
            geo = m.mulgrid().rectangular([10.0, 10.0], [10.0, 10.0], [10.0, 20.0], atmos_type=atm)
        elif kind == "3x2":
            geo = m.mulgrid().rectangular([10.0, 20.0, 10.0], [10.0, 10.0], [10.0, 10.0], atmos_type=atm)
        elif kind == "3x3":
            geo = m.mulgrid().rectangular([10.0] * 3, [10.0] * 3, [10.0, 10.0, 20.0], atmos_type=atm)
        elif kind == "wt":
            # a wide and a tall column side by side, two columns above them (bisection with several edge columns)
            geo = m.mulgrid().rectangular([20.0, 10.0], [15.0, 10.0], [10.0, 20.0], atmos_type=atm)
        elif kind == "wt2":
            geo = m.mulgrid().rectangular([10.0, 30.0, 10.0, 10.0], [10.0, 20.0, 10.0], [10.0, 20.0], atmos_type=atm)
        elif kind == "poly":
            geo = poly_mesh(m, atm)
        elif kind == "trap":
            # four quadrilaterals that are not parallelograms: a 2x2 mesh whose centre node sits at (12.5, 7.5)
            geo = m.mulgrid(convention=0, atmos_type=atm)
            xy = [(0, 0), (10, 0), (20, 0), (0, 10), (12.5, 7.5), (20, 10), (0, 20), (10, 20), (20, 20)]
            for k, (x, y) in enumerate(xy):
                geo.add_node(m.node(geo.node_name_from_number(k + 1), np.array([float(x), float(y)])))
            nl = geo.nodelist
            for k, quad in enumerate([(0, 1, 4, 3), (1, 2, 5, 4), (3, 4, 7, 6), (4, 5, 8, 7)]):
                geo.add_column(m.column(geo.column_name_from_number(k + 1), [nl[i] for i in quad]))
            for con in geo.missing_connections:
                geo.add_connection(con)
            geo.identify_neighbours()
            geo.add_layers([10.0, 20.0], 0.0)
            geo.set_default_surface()
        elif kind == "4x3":
            geo = m.mulgrid().rectangular([10.0] * 4, [10.0] * 3, [10.0, 20.0], atmos_type=atm)
        elif kind == "mixed":
            # a quadrilateral, a triangle and a pentagon (square with a mid-side node) sharing edges
            geo = m.mulgrid().rectangular([10.0, 10.0, 10.0], [10.0, 10.0], [10.0, 20.0], atmos_type=atm)
            geo.split_column(geo.columnlist[0].name, geo.columnlist[0].node[0].name)
            geo.refine([geo.columnlist[2]])
        else:
            raise ValueError(kind)
        for i, c in enumerate(geo.columnlist):
            if i % 3 == 1:
                c.surface = geo.layerlist[0].bottom - 5.0
                geo.set_column_num_layers(c)
        if kind in ("3x2", "trap"):
            # an atmosphere layer whose recorded centre is not its bottom (shipped g4 and g5 have 0.01 m)
            geo.layerlist[0].centre = geo.layerlist[0].bottom + 2.5
        geo.setup_block_name_index()
        geo.setup_block_connection_name_index()
    return geo


def connected_subset(geo, rng, k):
    """A set of k columns that is connected through shared edges and has no pinch node (the domain of the
    edit operations is connected geometries): grown breadth-first from a random column, checked afterwards."""
    for _ in range(10):
        start = rng.choice(geo.columnlist)
        seen, queue = [start], [start]
        while queue and len(seen) < k:
            c = queue.pop(0)
            for n in sorted(c.neighbour, key=lambda x: x.name):
                if n not in seen and len(seen) < k:
                    seen.append(n)
                    queue.append(n)
        sub = set(seen)
        ok = len(seen) == k
        for node in set(n for c in sub for n in c.node):
            cs = [c for c in node.column if c in sub]
            if len(cs) > 1:
                # the columns around a node must form one fan linked by edges through that node
                comp, todo = {cs[0]}, [cs[0]]
                while todo:
                    c = todo.pop()
                    for d in cs:
                        if d not in comp and d in c.neighbour and len(set(c.node) & set(d.node)) > 1 and node in d.node:
                            comp.add(d)
                            todo.append(d)
                if len(comp) != len(cs):
                    ok = False
                    break
        if ok:
            return [c.name for c in seen]
    return None


def well_shaped(cols):
    """Connected through shared edges, and the columns around every node form one fan (no pinch)."""
    cols = list(cols)
    if not cols:
        return False
    sub = set(cols)
    seen, todo = {cols[0]}, [cols[0]]
    while todo:
        c = todo.pop()
        for n in c.neighbour:
            if n in sub and n not in seen:
                seen.add(n)
                todo.append(n)
    if len(seen) != len(sub):
        return False
    for node in set(n for c in sub for n in c.node):
        cs = [c for c in node.column if c in sub]
        if len(cs) > 1:
            comp, todo = {cs[0]}, [cs[0]]
            while todo:
                c = todo.pop()
                for d in cs:
                    if d not in comp and d in c.neighbour and len(set(c.node) & set(d.node)) > 1 and node in d.node:
                        comp.add(d)
                        todo.append(d)
            if len(comp) != len(cs):
                return False
    return True


def op_alphabet(geo, rng, rich):
    """In-domain operations on the current geometry (arguments the docstrings allow)."""
    names = [c.name for c in geo.columnlist]
    ops = []
    quads = [c for c in geo.columnlist if c.num_nodes == 4]
    small = [c for c in geo.columnlist if c.num_nodes in (3, 4)]
    subsets = []
    if small:
        subsets.append([c.name for c in small])
        subsets.append([small[0].name])
        if len(small) > 2:
            subsets.append([c.name for c in small[:2]])
            subsets.append([small[-1].name])
        if rich:
            for k in range(3):
                subsets.append([c.name for c in rng.sample(small, rng.randint(1, len(small)))])
    for s in subsets:
        ops.append({"op": "refine", "args": [s, False, False]})
        if rich or s is subsets[0]:
            ops.append({"op": "refine", "args": [s, rng.choice(["x", "y", True]), rng.random() < 0.5]})
    big = [c.name for c in geo.columnlist if c.num_nodes > 4]
    ops.append({"op": "decompose_columns", "args": [[]]})
    if big:
        ops.append({"op": "decompose_columns", "args": [[big[0]]]})
        ops.append({"op": "decompose_columns", "args": [[big[-1]], 0, True]})
    ops.append({"op": "add_node", "args": [rng.choice([-40, 400]), rng.choice([-40, 400])]})
    # the first, the last two (the newest: columns an earlier refinement made) and a random quadrilateral
    for c in list(dict.fromkeys(quads[:1] + quads[-2:] + ([rng.choice(quads)] if quads and rich else []))):
        ops.append({"op": "split_column", "args": [c.name, c.node[rng.randrange(4)].name]})
    free = [n for n in ("  x", "  y", " zz") if n not in geo.column]
    if free and names:
        ops.append({"op": "rename_column", "args": [rng.choice(names), free[0]]})
    if len(free) >= 2 and geo.connectionlist:
        # several columns in one call, two of them joined by a connection
        con = rng.choice(geo.connectionlist)
        pair = [c.name for c in con.column]
        if rng.random() < 0.5:
            pair.reverse()
        ops.append({"op": "rename_columns", "args": [pair, free[:2]]})
    if len(names) > 1:
        # deleting a column must leave a connected, pinch-free geometry (the domain of the edit operations)
        cand = [c.name for c in geo.columnlist if well_shaped([x for x in geo.columnlist if x is not c])]
        if cand:
            ops.append({"op": "delete_column", "args": [rng.choice(cand)]})
        keep = connected_subset(geo, rng, max(1, len(names) // 2))
        if keep:
            ops.append({"op": "reduce", "args": [keep]})
    if names:
        lay = rng.choice(geo.layerlist)
        # (a surface stays above the bottom of the model: a column has at least part of the bottom layer)
        zmin = int(round(geo.layerlist[-1].bottom / H)) + 1
        ops.append({"op": "set_surface", "args": [rng.choice(names), max(zmin, int(round(lay.bottom / H)) + rng.choice([0, 1, -1]))]})
    ls = [l.name for l in geo.layerlist[1:]]
    if ls and len(geo.layerlist) < 12:
        ops.append({"op": "refine_layers", "args": [[rng.choice(ls)], rng.choice([2, 3, 4])]})
        ops.append({"op": "refine_layers", "args": [ls, rng.choice([2, 3])]})
    free_l = [n for n in (" 9", " 8", " 7") if n not in geo.layer]
    if free_l and geo.layerlist:
        ops.append({"op": "rename_layer", "args": [geo.layerlist[0].name, free_l[0]]})           # the atmosphere layer
        if len(geo.layerlist) > 1 and len(free_l) > 1:
            ops.append({"op": "rename_layer", "args": [rng.choice(geo.layerlist[1:]).name, free_l[1]]})
    ops.append({"op": "translate", "args": [rng.choice([4, -8]), rng.choice([0, 4]), rng.choice([0, -4, 4, 12])]})        # also up by more than the top layer
    ops.append({"op": "rotate90", "args": [rng.choice([1, 2, 3])]})
    ops.append({"op": "check", "args": []})
    ops.append({"op": "add_delete_node", "args": [rng.choice([-40, 400]), rng.choice([-40, 400])]})
    ops.append({"op": "add_delete_well", "args": [rng.randint(1, 99)]})
    if all(c.surface > geo.layerlist[-1].centre for c in geo.columnlist):           # (no column snapped to the model's bottom)
        ops.append({"op": "snap_columns_to_nearest_layers", "args": [[]]})
        if names:
            ops.append({"op": "snap_columns_to_nearest_layers", "args": [rng.sample(names, rng.randint(1, len(names)))]})
    # (snapping and fitting stay inside the domain of the edit operations: afterwards every column still has part of the
    # bottom layer - a column snapped to the model's bottom has no layers, and nothing in the library expects that)
    room = min(c.surface - geo.layerlist[-1].bottom for c in geo.columnlist) / H
    fs = [d for d in (4, 8) if (geo.layerlist[0].bottom - geo.layerlist[-1].bottom) / H - d >= 2]
    if fs:
        ops.append({"op": "fit_surface", "args": [rng.choice(fs), rng.choice([0, 1])]})
    free_lb = [n for n in (" 6", " 5") if n not in geo.layer]
    if free_lb and len(geo.layerlist) < 10:
        ops.append({"op": "add_layer_below", "args": [free_lb[0], rng.choice([2, 4])]})
    if len(geo.layerlist) > 3 and all(c.surface > geo.layerlist[-2].bottom for c in geo.columnlist):
        ops.append({"op": "delete_bottom_layer", "args": []})
    if room >= 2:
        ops.append({"op": "snap_columns_to_layers", "args": [2]})
    if len(names) > 1:
        sub = rng.sample(names, rng.randint(1, len(names) - 1))
        if room >= 2:
            ops.append({"op": "snap_columns_to_layers", "args": [2, sub]})                       # a subset, in any order
        ops.append({"op": "add_column_taken_name", "args": [names[0], names[-1]]})          # refused: the name is taken
    nl = len(geo.layerlist) - 1
    if 1 <= nl <= 6:
        # another layer structure: the same number of layers with other thicknesses, or another number
        # (the copied structure reaches below every column's surface: a column has at least part of the bottom layer)
        lowest = min(c.surface for c in geo.columnlist) / H
        th, up = [rng.choice([2, 4, 6, 8]) for _ in range(nl)], rng.choice([0, 2])
        if up - sum(th) <= lowest - 1:
            ops.append({"op": "copy_layers_from", "args": [th, up]})
        if rich and -4 * (nl + 1) <= lowest - 1:
            ops.append({"op": "copy_layers_from", "args": [[4] * (nl + 1), 0]})
    ops.append({"op": "delete_orphans", "args": []})
    return ops


def totals(geo):
    """Plan area and rock volume of a geometry, from the node coordinates (shoelace, relative to a vertex) and from the
    column areas the library caches (the ones fromgeo and mulgrid.area use); a leaf for states off the lattice."""
    ga = ca = gv = cv = 0.0
    worst = 0.0
    bottom = geo.layerlist[-1].bottom
    for c in geo.columnlist:
        pts = [n.pos - c.node[0].pos for n in c.node]
        a = 0.5 * abs(sum(pts[i][0] * pts[(i + 1) % len(pts)][1] - pts[(i + 1) % len(pts)][0] * pts[i][1] for i in range(len(pts))))
        ga += a
        ca += c.area
        depth = c.surface - bottom
        gv += a * depth
        cv += c.area * depth
        worst = max(worst, abs(c.area - a) / max(a, 1e-300))
    lv = 0.0
    for lay in geo.layerlist[1:]:
        for c in geo.columnlist:
            if c.surface > lay.bottom:
                bv = geo.block_volume(lay, c)          # the library's own block volumes (what fromgeo uses)
                lv += bv if bv is not None else float("nan")
    wells_ok = sorted(geo.well) == sorted(w.name for w in geo.welllist) and all(geo.well[w.name] is w for w in geo.welllist) \
        and len(set(w.name for w in geo.welllist)) == len(geo.welllist)
    layers_ok = sorted(geo.layer) == sorted(l.name for l in geo.layerlist) and all(geo.layer[l.name] is l for l in geo.layerlist) \
        and len(set(l.name for l in geo.layerlist)) == len(geo.layerlist)
    return {"area": ga, "cached_area": ca, "volume": gv, "cached_volume": cv, "library_volume": lv, "worst_cached_area_error": worst,
            "wells_ok": wells_ok, "layers_ok": layers_ok}


def record(ad, ops_seq):
    """Applies a sequence of operations, recording the projected state after each."""
    tr = [{"act": {"op": "init", "args": []}, "state": ad.project(), "names_ok": ad.names_current(), "totals": totals(ad.geo)}]
    for a in ops_seq:
        a = dict(a)
        try:
            ad.apply(a)
        except Exception as e:
            tr.append({"act": a, "state": ad.project(), "error": repr(e), "names_ok": True})
            break
        tr.append({"act": a, "state": ad.project(), "names_ok": ad.names_current(), "totals": totals(ad.geo)})
    return tr
