"""Thin, deterministic driver around TLC (tla2tools 1.8) used by every check.

run_tlc() runs one configuration in a private scratch directory, parses what
TLC printed and returns a TLCResult.  Everything a check learns from TLC goes
through here, so that "TLC crashed / spec did not parse / timed out" is always
a MachineryError (exit 2) and never mistaken for a verdict.

Export convention (see DESIGN A.1): a spec emits JSON with
    PrintT("EMIT" \\o ToJson(value))
from a CONSTRAINT / ACTION_CONSTRAINT that is always TRUE.  TLC prints the
string as one line, quoted and escaped; emitted() decodes those lines.
"""
import json
import os
import re
import shutil
import subprocess
import tempfile
import time

SPECS = os.path.join(os.path.dirname(os.path.dirname(os.path.abspath(__file__))), "specs")
JAR = "/opt/veriftools/tla/tla2tools.jar:/opt/veriftools/tla/CommunityModules-deps.jar"


class MachineryError(Exception):
    """The verification machinery itself failed (not a property verdict)."""


class TLCResult(object):
    def __init__(self):
        self.ok = False                # TLC finished without reporting any error
        self.generated = 0
        self.distinct = 0
        self.depth = 0
        self.violated = None           # name of violated invariant / property, or 'deadlock', 'assert'
        self.trace = []                # counterexample as list of raw state texts
        self.stdout = ""
        self.emitted = []              # decoded EMIT values
        self.coverage = {}             # action name -> (distinct, total)
        self.wall_s = 0.0
        self.cmd = ""
        self.postcondition_failed = False

    def as_evidence(self):
        return {"states": self.distinct, "transitions": self.generated,
                "depth": self.depth, "wall_s": round(self.wall_s, 2)}


_RE_STATES = re.compile(r"(\d+) states generated, (\d+) distinct states found")
_RE_DEPTH = re.compile(r"The depth of the complete state graph search is (\d+)")
_RE_INV = re.compile(r"Invariant (\S+) is violated")
_RE_PROP = re.compile(r"(?:Action|Temporal) propert(?:y|ies) (\S+)? ?(?:is|were) violated")
_RE_COV = re.compile(r"^<(\w+) line \d+, col \d+ to line \d+, col \d+ of module (\w+)>: (\d+):(\d+)", re.M)


def scratch_dir(prefix="verif-"):
    base = os.environ.get("VERIF_SCRATCH") or tempfile.gettempdir()
    return tempfile.mkdtemp(prefix=prefix, dir=base)


def run_tlc(spec, cfg, workers=1, timeout=600, env=None, simulate=None, depth=None,
            coverage=False, extra_modules=None, cfg_text=None, dfs=False, seed=None,
            keep=False, allow_violation=True, heap="4g", extra_args=None):
    """Run TLC on specs/<spec>.tla with specs/<cfg> (or literal cfg_text).

    extra_modules: {filename: text} generated modules placed beside the spec.
    Returns TLCResult; raises MachineryError on parse errors, crashes, timeouts.
    """
    work = scratch_dir("tlc-")
    try:
        for f in os.listdir(SPECS):
            if f.endswith(".tla"):
                shutil.copy(os.path.join(SPECS, f), work)
        for name, text in (extra_modules or {}).items():
            with open(os.path.join(work, name), "w") as fh:
                fh.write(text)
        cfgpath = os.path.join(work, "run.cfg")
        if cfg_text is not None:
            with open(cfgpath, "w") as fh:
                fh.write(cfg_text)
        else:
            shutil.copy(os.path.join(SPECS, cfg), cfgpath)
        jtmp = os.path.join(work, "jtmp")          # the JVM's own temporary directory (TLC unpacks its standard modules there):
        os.makedirs(jtmp, exist_ok=True)           # inside the scratch directory, so that it goes with it
        cmd = ["java", "-XX:+UseParallelGC", "-Xmx" + heap, "-Xss256m", "-Djava.io.tmpdir=" + jtmp]
        if dfs:
            cmd.append("-Dtlc2.tool.queue.IStateQueue=StateDeque")
        cmd += ["-cp", JAR, "tlc2.TLC", "-workers", str(workers), "-metadir",
                os.path.join(work, "meta"), "-noGenerateSpecTE", "-config", "run.cfg"]
        if coverage:
            cmd += ["-coverage", "1"]
        if simulate:
            cmd += ["-simulate", simulate]
        if depth:
            cmd += ["-depth", str(depth)]
        if seed is not None:
            cmd += ["-seed", str(seed)]
        if extra_args:
            cmd += list(extra_args)
        cmd.append(spec + ".tla")
        e = dict(os.environ)
        e.update(env or {})
        t0 = time.time()
        try:
            p = subprocess.run(cmd, cwd=work, env=e, stdout=subprocess.PIPE,
                               stderr=subprocess.STDOUT, timeout=timeout)
        except subprocess.TimeoutExpired:
            raise MachineryError("TLC timed out after %ss on %s/%s" % (timeout, spec, cfg))
        out = p.stdout.decode("utf-8", "replace")
        r = TLCResult()
        r.wall_s = time.time() - t0
        r.stdout = out
        r.cmd = "tlc -workers %s -config %s %s.tla" % (workers, cfg or "<generated>", spec)
        _parse(r, out)
        fatal = ("Parsing or semantic analysis failed" in out or "*** Errors:" in out
                 or "Error: TLC threw an unexpected exception" in out
                 or "java.lang.OutOfMemoryError" in out or "Could not find or load" in out
                 or "TLC encountered a non-enumerable" in out
                 or "Error: Parsing" in out)
        if fatal or (not r.ok and r.violated is None and not r.postcondition_failed):
            raise MachineryError("TLC failed on %s/%s:\n%s" % (spec, cfg, _tail(out)))
        if r.violated and not allow_violation:
            raise MachineryError("unexpected TLC violation of %s in %s/%s:\n%s"
                                 % (r.violated, spec, cfg, _tail(out)))
        return r
    finally:
        if not keep:
            shutil.rmtree(work, ignore_errors=True)


def _tail(out, n=60):
    lines = [l for l in out.splitlines() if not l.startswith('"EMIT') and not l.startswith('   "')]
    errs = []
    for i, l in enumerate(lines):
        if l.startswith("Error:") or "Exception" in l:
            errs += [x[:300] for x in lines[i:i + 4]]
    return "\n".join(errs[:24] + ["..."] + [x[:300] for x in lines[-n:]])


def _parse(r, out):
    m = None
    for m in _RE_STATES.finditer(out):
        pass
    if m:
        r.generated, r.distinct = int(m.group(1)), int(m.group(2))
    m = _RE_DEPTH.search(out)
    if m:
        r.depth = int(m.group(1))
    r.ok = ("Model checking completed. No error has been found." in out
            or "Finished in" in out and "Error:" not in out)
    m = _RE_INV.search(out)
    if m:
        r.violated = m.group(1)
    elif "is violated" in out or "was violated" in out:
        m2 = re.search(r"Error: (.*(?:violated).*)", out)
        r.violated = m2.group(1) if m2 else "property"
    elif "Deadlock reached" in out:
        r.violated = "deadlock"
    elif "The first argument of Assert evaluated to FALSE" in out:
        r.violated = "assert"
    elif "Temporal properties were violated" in out:
        r.violated = "temporal"
    if "POSTCONDITION" in out and ("violated" in out or "evaluated to FALSE" in out or "false" in out.lower()):
        if re.search(r"[Pp]ost ?condition.*(false|FALSE|violated)", out):
            r.postcondition_failed = True
    if r.violated:
        r.ok = False
        r.trace = re.findall(r"^State \d+:.*?(?=^State \d+:|^\d+ states generated|\Z)", out, re.M | re.S)
    for line in out.splitlines():
        if line.startswith('"EMIT'):
            try:
                s = json.loads(line)
                r.emitted.append(json.loads(s[4:]))
            except ValueError:
                raise MachineryError("undecodable EMIT line: %r" % line[:200])
    for m in _RE_COV.finditer(out):
        r.coverage[m.group(1)] = (int(m.group(3)), int(m.group(4)))


def sany(spec):
    """Parse-check a module; raises MachineryError when SANY reports errors."""
    work = scratch_dir("sany-")
    try:
        for f in os.listdir(SPECS):
            if f.endswith(".tla"):
                shutil.copy(os.path.join(SPECS, f), work)
        p = subprocess.run(["java", "-cp", JAR, "tla2sany.SANY", spec + ".tla"], cwd=work,
                           stdout=subprocess.PIPE, stderr=subprocess.STDOUT, timeout=120)
        out = p.stdout.decode()
        if "Semantic errors" in out or "Parse Error" in out or "Fatal errors" in out or "*** Errors" in out:
            raise MachineryError("SANY: " + out[-2000:])
        return True
    finally:
        shutil.rmtree(work, ignore_errors=True)


def tla_value(v):
    """Render a Python value as a TLA+ expression (for generated MC_* modules)."""
    if v is None:
        return '"None"'
    if isinstance(v, bool):
        return "TRUE" if v else "FALSE"
    if isinstance(v, int):
        return str(v)
    if isinstance(v, str):
        return json.dumps(v)
    if isinstance(v, (list, tuple)):
        return "<<" + ", ".join(tla_value(x) for x in v) + ">>"
    if isinstance(v, (set, frozenset)):
        return "{" + ", ".join(tla_value(x) for x in sorted(v, key=repr)) + "}"
    if isinstance(v, dict):
        if not v:
            return "<<>>"
        return "[" + ", ".join("%s |-> %s" % (k, tla_value(x)) for k, x in v.items()) + "]"
    raise TypeError("cannot render %r as TLA+" % (v,))
