"""Shared plumbing of the checks: repo import, verdicts, evidence, known findings, replays."""
import hashlib
import importlib
import io
import json
import os
import signal
import sys
import time
import contextlib

ROOT = os.path.dirname(os.path.dirname(os.path.abspath(__file__)))
REPO = os.environ.get("VERIF_REPO", "/repo")
# evidence is only ever written for runs against /repo itself; runs against a scratch copy
# (VERIF_REPO=...) used for mutation experiments write under .scratch/
_real = os.path.abspath(REPO) == "/repo"
EVIDENCE = os.path.join(ROOT, "evidence") if _real else os.path.join(ROOT, ".scratch", "evidence")
REPLAYS = os.path.join(ROOT, "replays") if _real else os.path.join(ROOT, ".scratch", "replays")
GUARD = "PYTOUGH_VERIF"

os.environ[GUARD] = "1"
os.environ.setdefault("PYTHONHASHSEED", "0")


def seed():
    try:
        return int(os.environ.get("VERIF_SEED", "0"))
    except ValueError:
        return 0


def repo_modules(*names):
    """Import modules from /repo's *working tree* (never an installed copy)."""
    if REPO not in sys.path:
        sys.path.insert(0, REPO)
    mods = []
    for n in names:
        m = importlib.import_module(n)
        f = os.path.abspath(getattr(m, "__file__", ""))
        if not f.startswith(os.path.abspath(REPO) + os.sep):
            raise RuntimeError("module %s imported from %s, not from %s" % (n, f, REPO))
        mods.append(m)
    return mods[0] if len(mods) == 1 else mods


@contextlib.contextmanager
def quiet():
    """Swallow the library's print() chatter."""
    old = sys.stdout
    sys.stdout = io.StringIO()
    try:
        yield
    finally:
        sys.stdout = old


class Hang(Exception):
    pass


@contextlib.contextmanager
def watchdog(seconds):
    """Raise Hang in the main thread if the body runs longer than `seconds`."""
    def onalarm(signum, frame):
        raise Hang("call exceeded %ss" % seconds)
    old = signal.signal(signal.SIGALRM, onalarm)
    signal.setitimer(signal.ITIMER_REAL, seconds)
    try:
        yield
    finally:
        signal.setitimer(signal.ITIMER_REAL, 0)
        signal.signal(signal.SIGALRM, old)


class Findings(object):
    """known_findings.json: committed, read-only at run time.

    entries: {"status": "known"|"fixed", "property": id, "key": <string the check
    computes for a failing case>, "what": text, "commit": sha (fixed only)}
    A violation whose key equals a *known* entry's key is reported as
    KNOWN-FINDING; fixed entries suppress nothing.
    """

    def __init__(self):
        p = os.path.join(ROOT, "known_findings.json")
        self.entries = json.load(open(p)) if os.path.exists(p) else []

    def match(self, pid, key):
        for e in self.entries:
            if e.get("status") == "known" and e["property"] == pid and e["key"] == key:
                return e
        return None


class Report(object):
    """Collects what one check run did; writes evidence; prints verdict lines."""

    def __init__(self, pid, tier, level="model_checking"):
        self.pid = pid
        self.tier = tier
        self.level = level
        self.t0 = time.time()
        self.findings = Findings()
        self.violations = []       # (key, clause, detail)
        self.known = {}            # key -> count
        self.drift = []
        self.states = 0
        self.transitions = 0
        self.tlc_runs = []
        self.traces = 0            # executions of the real code validated against / driven by the spec
        self.evaluations = 0
        self.distinct = set()
        self.samples = []
        self.leaves = []
        self.assumptions = []
        self.extra = {}
        self.exhaustive = None
        self.rule = ""
        self.explanation = ""

    # -- TLC bookkeeping
    def add_tlc(self, name, r, note=""):
        self.states += r.distinct
        self.transitions += r.generated
        d = {"config": name, "distinct_states": r.distinct, "states_generated": r.generated,
             "depth": r.depth, "wall_s": round(r.wall_s, 2)}
        if r.coverage:
            d["actions_covered"] = {k: v[0] for k, v in sorted(r.coverage.items())}
        if note:
            d["note"] = note
        self.tlc_runs.append(d)

    # -- cases
    def case(self, key=None, nontrivial=True):
        self.evaluations += 1
        if key is not None and nontrivial:
            self.distinct.add(key if isinstance(key, (str, int, tuple)) else json.dumps(key, sort_keys=True, default=str))

    def sample(self, s, limit=6):
        if len(self.samples) < limit:
            self.samples.append(s)

    def drifted(self, what):
        if len(self.drift) < 50:
            self.drift.append(what)
        print("SPEC-DRIFT property=%s %s" % (self.pid, what))

    def violation(self, key, clause, detail):
        """Record a property violation observed on the real code.

        key identifies the failing input / call site / history for the
        known-findings file; detail is any JSON-able replay description."""
        e = self.findings.match(self.pid, key)
        if e is not None:
            if key not in self.known:
                print("KNOWN-FINDING: property=%s %s [%s]" % (self.pid, e["what"], key))
            self.known[key] = self.known.get(key, 0) + 1
            return False
        if len(self.violations) < 200:
            self.violations.append((key, clause, detail))
        return True

    def finish(self):
        os.makedirs(EVIDENCE, exist_ok=True)
        wall = time.time() - self.t0
        cov = {
            "states": self.states, "transitions": self.transitions,
            "traces_validated_against_impl": self.traces,
            "evaluations": self.evaluations, "distinct_nontrivial": len(self.distinct),
            "rule": self.rule, "samples": self.samples or ["(no samples recorded)"],
            "tlc_runs": self.tlc_runs, "harness_leaves": self.leaves,
            "spec_drift": self.drift, "known_findings_hit": self.known,
        }
        if self.exhaustive is not None:
            cov["exhaustive"] = self.exhaustive
        if self.explanation:
            cov["explanation"] = self.explanation
        cov.update(self.extra)
        ev = {"property_id": self.pid, "tier": self.tier, "seed": seed(), "level": self.level,
              "coverage": cov, "assumptions": self.assumptions, "wall_s": round(wall, 2),
              "violations": len(self.violations)}
        with open(os.path.join(EVIDENCE, self.pid + ".json"), "w") as fh:
            json.dump(ev, fh, indent=1, sort_keys=True, default=str)
        if self.violations:
            os.makedirs(os.path.join(REPLAYS, self.pid), exist_ok=True)
            seen = set()
            for key, clause, detail in self.violations:
                if key in seen:
                    continue
                seen.add(key)
                blob = json.dumps({"property": self.pid, "key": key, "clause": clause, "detail": detail},
                                  indent=1, sort_keys=True, default=str)
                h = hashlib.sha1(blob.encode()).hexdigest()[:12]
                path = os.path.join(REPLAYS, self.pid, h + ".json")
                with open(path, "w") as fh:
                    fh.write(blob)
                print("VIOLATION property=%s replay=%s clause=%s key=%s" % (self.pid, path, clause, key))
            return 1
        print("OK property=%s tier=%s states=%d traces=%d evaluations=%d wall=%.1fs"
              % (self.pid, self.tier, self.states, self.traces, self.evaluations, wall))
        return 0
