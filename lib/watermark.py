"""Watermarking of listing files (C05): learn, without a second parser, which printed number ended
up in which table cell.  See DESIGN.md section 3 (C05)."""
import os
import random
import re

import numpy as np

from . import core, tlc, listing

# exponent: two digits, a third only when it cannot be the leading digit of the next (adjacent) number
REAL = re.compile(r'[-+]?\d*\.\d+(?:[EeDd][-+]?\d{2}(?:\d(?![\d.]))?|[-+]\d{3})?')


class LineRecorder(object):
    """Class-level wrappers (guarded by PYTOUGH_VERIF) around read_table_line_* recording, per table,
    the file offset and text of every line the reader consumes as a table row."""

    def __init__(self, t2listing_mod):
        self.cls = t2listing_mod.t2listing
        self.records = None
        self.installed = False

    def install(self):
        if self.installed or os.environ.get(core.GUARD) != "1":
            return
        rec = self
        cls = self.cls
        self.orig = {}
        for name in ("read_table_line_TOUGH2", "read_table_line_AUTOUGH2"):
            orig = getattr(cls, name)
            self.orig[name] = orig

            def make(orig):
                def wrapped(self_, line, *a, **k):
                    r = orig(self_, line, *a, **k)
                    if rec.records is not None and getattr(self_, "_verif_table", None):
                        end = self_._file.tell()
                        rec.records.setdefault(self_._verif_table, []).append(
                            (end - len(line.encode(self_.encoding)), line))
                    return r
                return wrapped
            setattr(cls, name, make(orig))
        self.installed = True

    def uninstall(self):
        if self.installed:
            for name, orig in self.orig.items():
                setattr(self.cls, name, orig)
            self.installed = False

    def attach(self, lst):
        """Instance-level: note which table is being read."""
        orig = lst.read_table

        def read_table(tablename):
            lst._verif_table = tablename
            try:
                return orig(tablename)
            finally:
                lst._verif_table = None
        lst.read_table = read_table

    def read_at(self, lst, i):
        self.records = {}
        with core.watchdog(60), core.quiet():
            lst.index = i
        out, self.records = self.records, None
        return out


def mark_token(tok, rng, form="same"):
    """A token of the same width and printed form with pseudo-random mantissa digits; other forms:
    zero, neg (-.ddd for 0.ddd), exp3 (letter dropped, 3-digit exponent), exp3E (d.dddE+1dd for 0.ddddE+dd)."""
    m = re.match(r'^([-+]?)(\d*)\.(\d+)(.*)$', tok)
    sign, ip, fp, rest = m.groups()
    if form == "zero":
        z = "0" * len(ip) + "." + "0" * len(fp) + re.sub(r'\d', '0', rest).replace('-', '+')
        return (" " * len(sign)) + z
    nip = "".join(rng.choice("123456789") if k == 0 and ip != "0" else rng.choice("0123456789") for k in range(len(ip)))
    if ip == "0":
        nip = "0"
    nfp = rng.choice("123456789") + "".join(rng.choice("0123456789") for _ in range(len(fp) - 1))
    if form == "neg" and not sign and ip == "0":
        return "-." + nfp + rest                       # Fortran drops the zero to make room for the sign
    if form == "exp3" and re.match(r'^[EeDd][-+]\d\d$', rest):
        return sign + nip + "." + nfp + rest[1] + "1" + rest[2:]        # E+07 -> +107 : letter dropped, 3 digits
    if form == "exp3E" and re.match(r'^[EeDd][-+]\d\d$', rest) and ip == "0" and len(fp) >= 2:
        return sign + nfp[0] + "." + nfp[1:] + rest[:2] + "1" + rest[2:]   # 0.12409E+03 -> 1.2409E+103
    return sign + nip + "." + nfp + rest


def start_guard(line, b):
    """Leftmost column a widened first value may use: one blank must remain after the index / key area."""
    j = b - 1
    while j >= 0 and line[j] == ' ':
        j -= 1
    return j + 2


def value_tokens(line, start):
    """Real-number tokens of a row line at or right of column `start`: (begin, end, text)."""
    return [(start + m.start(), start + m.end(), m.group()) for m in REAL.finditer(line[start:])]


def build_copies(path, used_by_index, starts, workdir, seed):
    """used_by_index: {index: {table: [(offset, line), ...]}}; starts: {table: first value column}.
    Writes copies A, B (random digits) and C (value forms) and returns their paths plus the token map
    {(offset, ordinal): (tokA, tokB, tokC, form)}."""
    data = bytearray(open(path, "rb").read())
    bufs = {"A": bytearray(data), "B": bytearray(data), "C": bytearray(data)}
    rngs = {"A": random.Random(seed * 3 + 1), "B": random.Random(seed * 3 + 2), "C": random.Random(seed * 3 + 3)}
    tokmap, done = {}, set()
    for idx in sorted(used_by_index):
        for table, recs in used_by_index[idx].items():
            for rownum, (off, line) in enumerate(recs):
                if off in done:
                    continue
                done.add(off)
                toks = value_tokens(line, starts[table])
                for k, (b, e, text) in enumerate(toks):
                    form = "same"
                    body = line.rstrip('\r\n')
                    after_space = e >= len(body) or line[e] == ' '
                    before_space = b > 0 and line[b - 1] == ' '
                    if after_space and before_space:
                        form = rngs["C"].choice(["same", "same", "zero", "neg", "exp3", "exp3E", "wider"])
                    new = {"A": mark_token(text, rngs["A"]), "B": mark_token(text, rngs["B"]),
                           "C": mark_token(text, rngs["C"], form if form != "wider" else "same")}
                    for c in "ABC":
                        if len(new[c]) != len(text):
                            new[c] = mark_token(text, rngs[c])
                    bb = b
                    if form == "wider":
                        # a right-aligned number may use the blanks to its left: one more leading digit, or a sign
                        m = re.match(r'^(\d+)\.(\d+)$', new["C"])
                        room = b >= 2 and line[b - 2:b] == "  " and (k > 0 or b - 2 >= start_guard(line, b))
                        if m and room:
                            new["C"] = rngs["C"].choice(["-", "1", "7"]) + new["C"]
                            bb = b - 1
                        else:
                            form = "same"
                    for c in "AB":
                        bufs[c][off + b: off + e] = new[c].encode("latin-1")
                    bufs["C"][off + bb: off + e] = new["C"].encode("latin-1")
                    tokmap[(off, k)] = (new["A"], new["B"], new["C"], form, text)
    paths = {}
    for c in "ABC":
        d = os.path.join(workdir, "wm_" + c)
        os.makedirs(d, exist_ok=True)
        paths[c] = os.path.join(d, os.path.basename(path))
        with open(paths[c], "wb") as fh:
            fh.write(bytes(bufs[c]))
    return paths, tokmap


def classify_page(lines, table, lst, start):
    """Tags for the physical lines of a table region, independent of the reader's layout logic:
    H header (all column names present), D data row (a real-number token right of the key area and an
    integer in the index area or a key at the key position), B blank, S separator, U anything else."""
    tags = []
    for ln in lines:
        s = ln.strip()
        if not s:
            tags.append("B")
        elif len(s) > 30 and len(set(s)) == 1:
            tags.append("S")
        elif table.is_header(ln):
            tags.append("H")
        elif value_tokens(ln, start) and re.search(r'\d', ln[:start]) and not re.search(r'[(){}=]', ln[:start]):
            tags.append("D")
        else:
            tags.append("U")
    return tags
