"""Beyond the listed properties: the navigation state machine of specs/ListingNav.tla bound to a second implementation
of it, toughreact_tecplot (t2listing.py), which has the same index/time/first/last/next/prev/history interface over
Tecplot files.  The files are synthetic (none is shipped); what is found is printed as OBSERVATION lines and recorded in
the evidence of C07 (extra.beyond_properties); it never changes a verdict."""
import os

import numpy as np

from lib import core

COLS = ["X(m)", "Y(m)", "Z(m)", "P(bar)", "T(C)"]
BLOCKS = ["  a 1", "  b 1", "  c 1"]
TIMES = [0.5, 2.0, 7.0, 7.5]


def value(i, b, c):
    return float((i + 1) * 100 + b * 10 + c) + 0.25


def write_file(path, n, style):
    """A Tecplot file with n zones; style varies the keyword case and the separators of the VARIABLES line."""
    kw_v, kw_z = [("VARIABLES", "ZONE"), ("Variables", "Zone"), ("variables", "zone")][style % 3]
    with open(path, "w") as f:
        if style % 2 == 0:
            f.write('%s = %s\n' % (kw_v, ", ".join('"%s"' % c for c in COLS)))
        else:
            f.write('%s =%s\n' % (kw_v, " ".join('"%s"' % c for c in COLS)))
        for i in range(n):
            f.write('%s T="%.4E yr"  F=POINT\n' % (kw_z, TIMES[i]))
            for b in range(len(BLOCKS)):
                f.write(" ".join("%.6E" % value(i, b, c) for c in range(len(COLS))) + "\n")


def expected_table(i):
    return np.array([[value(i, b, c) for c in range(len(COLS))] for b in range(len(BLOCKS))])


def selection(k, cols):
    """Selections by the column names as the reader reports them (cols)."""
    if k == 1:
        return [(BLOCKS[0], cols[0])]
    if k == 2:
        return [(BLOCKS[-1], cols[-1]), (0, cols[-1]), (BLOCKS[-1], cols[1])]
    return [("~none", cols[0])]


def run(rep, behs, work, limit):
    t2listing = core.repo_modules("t2listing")
    obs = {}

    def note(k):
        obs[k] = obs.get(k, 0) + 1

    replayed = 0
    for n in (1, 2, 3, 4):
        for style in range(3):
            path = os.path.join(work, "tec_%d_%d.dat" % (n, style))
            write_file(path, n, style)
            try:
                with core.quiet():
                    tp = t2listing.toughreact_tecplot(path, list(BLOCKS))
            except Exception as e:
                note("open raises (%d zones, style %d): %r" % (n, style, e))
                continue
            if tp.num_times != n or [float(t) for t in tp.times] != TIMES[:n]:
                note("times read %r, written %r" % (list(tp.times), TIMES[:n]))
                tp.close()
                continue
            if list(tp.element.column_name) != COLS:
                note("column names read %r from a VARIABLES line with quoted, comma-and-blank separated names"
                     % (list(tp.element.column_name),))
            todo = list(behs[n]) + list(behs.get((n, "long"), []))
            for beh in todo[:limit]:
                replayed += 1
                try:
                    with core.watchdog(20), core.quiet():
                        tp.first()
                except Exception as e:
                    note("first raises: %r" % (e,))
                    break
                for r in beh:
                    act, arg = r["act"], r["arg"]
                    ret, amb = None, False
                    try:
                        with core.watchdog(20), core.quiet():
                            if act == "first":
                                tp.first()
                            elif act == "last":
                                tp.last()
                            elif act == "next":
                                ret = tp.next()
                            elif act == "prev":
                                ret = tp.prev()
                            elif act == "index":
                                tp.index = arg
                            elif act in ("time", "step"):       # (no step axis in a Tecplot file: both probe the time axis)
                                if arg < 0:
                                    tv = TIMES[0] - 1.0
                                elif arg > 4 * (n - 1):
                                    tv = TIMES[n - 1] + 1.0
                                else:
                                    i, d = divmod(arg, 4)
                                    tv = TIMES[i] if d == 0 else TIMES[i] + (TIMES[i + 1] - TIMES[i]) * d / 4.0
                                    amb = d == 2
                                tp.time = tv
                            elif act == "history":
                                cols_read = list(tp.element.column_name)
                                h = tp.history(selection(arg, cols_read))
                                if arg == 3:
                                    if h is not None:
                                        note("history of a selection matching nothing returns %r" % (type(h),))
                                else:
                                    hs = [h] if isinstance(h, tuple) else h
                                    for (key, col), (ts, vs) in zip(selection(arg, cols_read), hs):
                                        b = key if isinstance(key, int) else BLOCKS.index(key)
                                        want = [value(i, b, cols_read.index(col)) for i in range(n)]
                                        if [float(x) for x in ts] != TIMES[:n] or [float(x) for x in vs] != want:
                                            note("history(%r) differs from the file" % ((key, col),))
                    except Exception as e:
                        note("%s raises: %r" % (act, e))
                        break
                    want = r["idx"]
                    if amb and tp.index != want and tp.index in (arg // 4, arg // 4 + 1):
                        break
                    if tp.index != want:
                        note("%s(%r): index %r, the specification says %r" % (act, arg, tp.index, want))
                        break
                    if act in ("next", "prev") and bool(ret) != r["ret"]:
                        note("%s returns %r, the specification says %r" % (act, ret, r["ret"]))
                        break
                    if not np.array_equal(np.asarray(tp.element._data, dtype=float), expected_table(want)):
                        note("after %s the table shown is not that of index %d" % (act, want))
                        break
                    if float(tp.time) != TIMES[want]:
                        note("after %s the time shown is not that of index %d" % (act, want))
                        break
            tp.close()
    for k in sorted(obs):
        print("OBSERVATION beyond-properties (toughreact_tecplot navigation, not a verdict on %s): %s x%d" % (rep.pid, k, obs[k]))
    rep.extra["beyond_properties"] = {"module": "ListingNav.tla bound to toughreact_tecplot", "behaviours_replayed": replayed,
                                      "observations": obs}
