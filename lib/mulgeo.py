"""Small MULgraph geometries built through the public API for the file-protocol check (C03)
and shared geometry helpers."""
import itertools

import numpy as np

from . import core


def strip_geometry(shapes, cs, nlayers, surf, wells, conv=0, atm=0, unit='', order=None, angle=0.0,
                   upper=False, x0=1000.0, dx=10.0):
    """Columns side by side in strips: shapes[c] in {3,4,5} nodes, cs[c] centre specified?,
    nlayers layers below the atmosphere layer, surf = {column index: elevation drop}, wells = list of point counts."""
    m = core.repo_modules("mulgrids")
    geo = m.mulgrid(convention=conv, atmos_type=atm, unit_type=unit, permeability_angle=angle, block_order=order)
    L = geo.colname_length
    chars = "abcdefghijklmnopqrstuvwxyz"
    if upper:
        chars = chars.upper()

    def nm(i):
        return chars[i % 26].rjust(L) if i < 26 else (chars[i // 26 - 1] + chars[i % 26]).rjust(L)
    nodes = {}

    def nd(p):
        if p not in nodes:
            n = m.node(nm(len(nodes)), np.array(p, dtype=float))
            nodes[p] = n
            geo.add_node(n)
        return nodes[p]
    cols = []
    for c, s in enumerate(shapes):
        xa, xb = x0 + c * dx, x0 + (c + 1) * dx
        pts = [(xa, 0.0), (xb, 0.0), (xb, dx)]
        if s == 5:
            pts.append((xa + dx / 2, dx * 1.5))
        if s >= 4:
            pts.append((xa, dx))
        cn = [nd(p) for p in pts]
        centre = np.array([xa + dx * 0.625, dx * 0.375]) if cs[c] else None
        col = m.column(nm(c + 30) if False else nm(c), cn, centre)
        geo.add_column(col)
        cols.append(col)
    for c in range(len(cols) - 1):
        if len(set(cols[c].node) & set(cols[c + 1].node)) > 1:
            geo.add_connection(m.connection([cols[c], cols[c + 1]]))
    with core.quiet():
        geo.add_layers([25.0 * (k + 1) for k in range(nlayers)], 100.0)
    geo.set_default_surface()
    for c, drop in surf.items():
        cols[c].surface = 100.0 - drop
        geo.set_column_num_layers(cols[c])
    for w, npts in enumerate(wells):
        pts = [np.array([x0 + 2.5 + w, 2.5, 100.0 - 30.0 * k]) for k in range(npts)]
        geo.add_well(m.well("w%4d" % (w + 1), pts))
    geo.identify_neighbours()
    geo.setup_block_name_index()
    geo.setup_block_connection_name_index()
    return geo


def abstract_body(geo):
    return {"nodes": geo.num_nodes,
            "cols": [{"nn": c.num_nodes, "cs": bool(c.centre_specified)} for c in geo.columnlist],
            "conns": len(geo.connectionlist), "layers": geo.num_layers,
            "surf": sorted(i + 1 for i, c in enumerate(geo.columnlist) if not c.default_surface),
            "wells": [len(w.pos) for w in geo.welllist]}


def body_family(quick):
    fam = []
    shapesets = [(4,), (3, 4), (4, 5), (4, 3, 5), (5, 4, 4)] if quick else \
        [s for n in (1, 2, 3) for s in itertools.product((3, 4, 5), repeat=n)]
    for shapes in shapesets:
        n = len(shapes)
        for cs in ([tuple([False] * n), tuple([True] + [False] * (n - 1))] if quick else itertools.product((False, True), repeat=n)):
            for nl in (1, 3):
                for surf in ({}, {0: 30.0}, dict((c, 20.0 + 30.0 * c) for c in range(n))):
                    for wells in ([], [2], [2, 3]):
                        if quick and (len(wells) == 2) != (n == 3):
                            continue
                        fam.append((shapes, cs, nl, surf, wells))
    return fam
