import argparse
import importlib
import os
import sys
import traceback

sys.path.insert(0, os.path.dirname(os.path.abspath(__file__)))
sys.path.insert(0, os.path.dirname(os.path.dirname(os.path.abspath(__file__))))


def main():
    ap = argparse.ArgumentParser()
    ap.add_argument("pid")
    ap.add_argument("--tier", default=os.environ.get("VERIF_TIER", "quick"), choices=["quick", "thorough"])
    ap.add_argument("--replay", default=None)
    a = ap.parse_args()
    from lib import tlc
    try:
        mod = importlib.import_module("checks." + a.pid.lower())
        if a.replay:
            rc = mod.replay(a.replay)
        else:
            rc = mod.run(a.tier)
    except tlc.MachineryError as e:
        print("MACHINERY-FAILURE property=%s %s" % (a.pid, e))
        sys.exit(2)
    except Exception:
        traceback.print_exc()
        print("MACHINERY-FAILURE property=%s unexpected exception in harness" % a.pid)
        sys.exit(2)
    sys.exit(rc)


main()
