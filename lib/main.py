import argparse
import importlib
import os
import sys
import traceback

sys.path.insert(0, os.path.dirname(os.path.abspath(__file__)))
sys.path.insert(0, os.path.dirname(os.path.dirname(os.path.abspath(__file__))))


def main():
    ap = argparse.ArgumentParser()
    ap.add_argument("pid")
    ap.add_argument("--tier", default=os.environ.get("VERIF_TIER", "quick"), choices=["quick", "thorough"])
    ap.add_argument("--replay", default=None)
    a = ap.parse_args()
    from lib import tlc
    try:
        mod = importlib.import_module("checks." + a.pid.lower())
        if a.replay:
            rc = mod.replay(a.replay)
        else:
            rc = mod.run(a.tier)
    except tlc.MachineryError as e:
        print("MACHINERY-FAILURE property=%s %s" % (a.pid, e))
        sys.exit(2)
    except Exception as e:
        traceback.print_exc()
        # An exception that escaped a check: if it was raised INSIDE the library under test (innermost frame in the repository),
        # the library failed on an input the harness holds to be in the property's domain - that is a violation with a replay,
        # not a broken check.  Anything raised in the machinery itself stays a machinery failure.
        from lib import core
        import hashlib
        import json
        tb = traceback.extract_tb(e.__traceback__)
        inner = tb[-1].filename if tb else ""
        if not a.replay and os.path.abspath(inner).startswith(os.path.abspath(core.REPO) + os.sep):
            blob = json.dumps({"property": a.pid, "key": "uncaught:%s:%s" % (os.path.basename(inner), tb[-1].name), "clause": "library_raised_unexpectedly",
                               "detail": {"error": repr(e), "traceback": traceback.format_exception(type(e), e, e.__traceback__)[-12:]}}, indent=1)
            d = os.path.join(core.REPLAYS, a.pid)
            os.makedirs(d, exist_ok=True)
            path = os.path.join(d, hashlib.sha1(blob.encode()).hexdigest()[:12] + ".json")
            with open(path, "w") as fh:
                fh.write(blob)
            print("VIOLATION property=%s replay=%s clause=library_raised_unexpectedly key=uncaught:%s:%s"
                  % (a.pid, path, os.path.basename(inner), tb[-1].name))
            sys.exit(1)
        print("MACHINERY-FAILURE property=%s unexpected exception in harness" % a.pid)
        sys.exit(2)
    sys.exit(rc)


main()
