"""Beyond the listed properties: the name-keyed parts of a t2data object (initial conditions, generator container, print
block, history requests) under random edit sequences, validated against specs/T2DataADT.tla.  What this finds is reported
as OBSERVATION lines and in the evidence of C08 (extra.beyond_properties); it never changes a verdict."""
import json
import os
import shutil

from . import core, tlc

NAMES = ["a", "b", "c", "d", "e"]
GEN = ["g", "h"]


def real(n):
    return "bl%s 1" % n


def absn(s):
    return s[2] if isinstance(s, str) and len(s) == 5 and s.startswith("bl") and s.endswith(" 1") else "?" + str(s)


def build():
    t2data, t2grids = core.repo_modules("t2data", "t2grids")
    dat = t2data.t2data()
    g = t2grids.t2grid()
    g.add_rocktype(t2grids.rocktype("rock1"))
    for n in NAMES:
        g.add_block(t2grids.t2block(real(n), 1000.0, g.rocktype["rock1"]))
    for a, b in zip(NAMES, NAMES[1:]):
        g.add_connection(t2grids.t2connection([g.block[real(a)], g.block[real(b)]], 1, [5.0, 5.0], 10.0, 0.0))
    dat.grid = g
    return dat


class Reg(object):
    def __init__(self):
        self.ids = {}

    def vid(self, o):
        if id(o) not in self.ids:
            self.ids[id(o)] = (len(self.ids) + 1, o)
        return self.ids[id(o)][0]


def project(dat, reg):
    gens = [{"id": reg.vid(g), "block": absn(g.block), "name": g.name.strip()} for g in dat.generatorlist]
    return {"grid": sorted(absn(b.name) for b in dat.grid.blocklist),
            "incon": sorted([absn(k), int(v[1][0])] for k, v in dat.incon.items()),
            "gens": gens,
            "genDict": sorted([absn(k[0]), k[1].strip(), reg.vid(v)] for k, v in dat.generator.items()),
            "printBlock": absn(dat.parameter["print_block"]) if dat.parameter["print_block"] else "none",
            "hist": {"b": [absn(x if isinstance(x, str) else x.name) for x in dat.history_block],
                     "c": [[absn(x[0] if isinstance(x[0], str) else x[0].name), absn(x[1] if isinstance(x[1], str) else x[1].name)]
                           if isinstance(x, tuple) else [absn(x.block[0].name), absn(x.block[1].name)] for x in dat.history_connection],
                     "g": [absn(x if isinstance(x, str) else x.name) for x in dat.history_generator]}}


def random_traces(rng, n, length):
    t2data = core.repo_modules("t2data")
    out = []
    for _ in range(n):
        dat, reg = build(), Reg()
        live = list(NAMES)
        allnames = list(NAMES) + ["p", "q"]
        # requests by name, as a data file read without its mesh gives them
        dat.history_block = [real(x) for x in rng.sample(live, 2)]
        dat.history_connection = [(real(live[0]), real(live[1]))]
        dat.history_generator = [real(rng.choice(live))]
        dat.parameter["print_block"] = real(rng.choice(live))
        tr = [{"act": {"op": "init"}, "state": project(dat, reg)}]
        for _ in range(length):
            op = rng.choice(["add_generator", "add_generator", "delete_generator", "delete_orphan_generators", "delete_block",
                             "set_incon", "set_incon", "rename_blocks", "rename_blocks", "rename_blocks", "clear_generators"])
            a = None
            if op == "add_generator" and live and len(dat.generatorlist) < 4:
                a = {"op": op, "b": rng.choice(live), "n": rng.choice(GEN)}
            elif op == "delete_generator" and dat.generator:
                k = rng.choice(sorted(dat.generator))
                a = {"op": op, "b": absn(k[0]), "n": k[1].strip()}
            elif op == "delete_orphan_generators":
                a = {"op": op}
            elif op == "clear_generators" and rng.random() < 0.3:
                a = {"op": op}
            elif op == "delete_block" and len(live) > 2:
                a = {"op": op, "b": rng.choice(live)}
            elif op == "set_incon" and live:
                a = {"op": op, "b": rng.choice(live), "v": rng.randint(1, 2)}
            elif op == "rename_blocks" and live:
                k = rng.randint(1, len(live))
                src = rng.sample(live, k)
                mode = rng.choice(["cycle", "fresh", "mixed"])
                free = [x for x in allnames if x not in live]
                if mode == "cycle" and k > 1:
                    dst = src[1:] + src[:1]
                elif mode == "mixed" and k > 1 and free:
                    dst = src[1:] + [rng.choice(free)]
                else:
                    if len(free) < k:
                        continue
                    dst = rng.sample(free, k)
                a = {"op": op, "m": sorted([s, d] for s, d in zip(src, dst))}
            if a is None:
                continue
            try:
                with core.quiet():
                    if a["op"] == "add_generator":
                        dat.add_generator(t2data.t2generator(name=(a["n"] + "    ")[:5], block=real(a["b"]), type="MASS", gx=1.0))
                    elif a["op"] == "delete_generator":
                        dat.delete_generator((real(a["b"]), (a["n"] + "    ")[:5]))
                    elif a["op"] == "delete_orphan_generators":
                        dat.delete_orphan_generators()
                    elif a["op"] == "clear_generators":
                        dat.clear_generators()
                    elif a["op"] == "delete_block":
                        dat.grid.delete_block(real(a["b"]))
                        live.remove(a["b"])
                    elif a["op"] == "set_incon":
                        dat.incon[real(a["b"])] = [None, [float(a["v"]), 20.0]]
                    else:
                        m = dict((real(s), real(d)) for s, d in a["m"])
                        dat.rename_blocks(m)
                        live = [dict(a["m"]).get(x, x) for x in live]
            except Exception as e:
                tr.append({"act": a, "state": project(dat, reg), "error": repr(e)})
                break
            tr.append({"act": a, "state": project(dat, reg)})
        out.append(tr)
    return out


CFG = """CONSTANTS
  Names = {"a", "b", "c", "d", "e", "p", "q"}
  GenNames = {"g", "h"}
INIT TraceInit
NEXT TraceNext
CONSTRAINT ReportState
ACTION_CONSTRAINT ReportStep
CHECK_DEADLOCK FALSE
"""
MC_CFG = """CONSTANTS
  Names = {"a", "b", "c"}
  GenNames = {"g"}
INIT Init
NEXT Next
CONSTRAINT Bound
INVARIANT G1_LookupIntoList
PROPERTY Prop_RenameKeeps
CHECK_DEADLOCK FALSE
"""


def observe(rep, rng, quick):
    r = tlc.run_tlc("T2DataADT", None, cfg_text=MC_CFG, workers=8, timeout=900)
    rep.add_tlc("T2DataADT (beyond the listed properties): lookup/list agreement, rename keeps everything", r)
    if r.violated:
        raise tlc.MachineryError("T2DataADT violates " + str(r.violated))
    traces = random_traces(rng, 60 if quick else 600, 12)
    work = tlc.scratch_dir("t2d-")
    try:
        path = os.path.join(work, "tr.json")
        json.dump([[{"act": e["act"], "state": e["state"]} for e in t] for t in traces], open(path, "w"))
        tr = tlc.run_tlc("T2DataADTTrace", None, cfg_text=CFG, workers=1, timeout=900, env={"TRACE_FILE": path}, allow_violation=False)
    finally:
        shutil.rmtree(work, ignore_errors=True)
    rep.add_tlc("T2DataADTTrace (%d recorded traces of the real t2data object)" % len(traces), tr)
    obs = {}
    for e in tr.emitted:
        t = traces[e["tid"] - 1]
        act = t[e["l"] - 1]["act"]
        for c in e["failing"]:
            key = "%s after %s" % (c, act["op"] + (":targets-overlap-sources" if act["op"] == "rename_blocks" and
                                                    set(s for s, d in act["m"]) & set(d for s, d in act["m"]) else ""))
            obs[key] = obs.get(key, 0) + 1
    for t in traces:
        if "error" in t[-1]:
            key = "%s raises %s" % (t[-1]["act"]["op"], t[-1]["error"].split("(")[0])
            obs[key] = obs.get(key, 0) + 1
    for k in sorted(obs):
        print("OBSERVATION beyond-properties (t2data container, not a verdict on %s): %s x%d" % (rep.pid, k, obs[k]))
    rep.extra["beyond_properties"] = {"module": "T2DataADT.tla", "recorded_traces": len(traces), "observations": obs}
