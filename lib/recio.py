"""Record-level tracing of fixed_format_file (used by C13, C03, C01): run-time wrappers, installed only
under the PYTOUGH_VERIF guard, that log one event per record written or read."""
import os

from . import core


class RecordTracer(object):
    def __init__(self):
        self.fff = core.repo_modules("fixed_format_file")
        self.events = None
        self.depth = 0
        self.installed = False

    def install(self):
        if self.installed or os.environ.get(core.GUARD) != "1":
            return
        cls = self.fff.fixed_format_file
        tr = self
        self.orig = dict((n, getattr(cls, n)) for n in ("write_values", "write", "read_values", "readline", "parse_string"))

        def write_values(self_, vals, linetype):
            tr.depth += 1
            try:
                return tr.orig["write_values"](self_, vals, linetype)
            finally:
                tr.depth -= 1
                if tr.events is not None:
                    tr.events.append({"op": "w", "file": os.path.basename(self_.file.name), "kind": linetype,
                                      "vals": list(vals)})

        def write(self_, s):
            r = tr.orig["write"](self_, s)
            if tr.events is not None and tr.depth == 0:
                tr.events.append({"op": "raw", "file": os.path.basename(self_.file.name), "text": s})
            return r

        def read_values(self_, linetype):
            tr.depth += 1
            try:
                r = tr.orig["read_values"](self_, linetype)
            finally:
                tr.depth -= 1
            if tr.events is not None:
                tr.events.append({"op": "r", "file": os.path.basename(self_.file.name), "kind": linetype, "vals": list(r)})
            return r

        def readline(self_):
            r = tr.orig["readline"](self_)
            if tr.events is not None and tr.depth == 0:
                tr.events.append({"op": "line", "file": os.path.basename(self_.file.name), "text": r})
            return r

        def parse_string(self_, line, linetype):
            r = tr.orig["parse_string"](self_, line, linetype)
            if tr.events is not None and tr.depth == 0:
                tr.events.append({"op": "p", "file": os.path.basename(self_.file.name), "kind": linetype, "vals": list(r)})
            return r

        cls.write_values, cls.write, cls.read_values, cls.readline, cls.parse_string = \
            write_values, write, read_values, readline, parse_string
        self.installed = True

    def uninstall(self):
        if self.installed:
            cls = self.fff.fixed_format_file
            for n, f in self.orig.items():
                setattr(cls, n, f)
            self.installed = False

    def record(self):
        self.events = []
        return self.events

    def stop(self):
        ev, self.events = self.events, None
        return ev
