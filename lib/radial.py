"""Beyond the listed properties: specs/RadialGrid.tla (what t2grid.radial must produce, pi taken out) evaluated by TLC for
every small (ring widths, layer thicknesses, inner radius, atmosphere type) and compared with the real t2grid().radial.
Printed as OBSERVATION lines and recorded in the evidence of C04 (extra.beyond_properties); never changes a verdict."""
import json
import math

import numpy as np

from lib import core, tlc

GEN = """---- MODULE GEN_RadialGrid ----
EXTENDS RadialGrid, Json
Emit == PrintT("EMIT" \\o ToJson([g |-> g, natm |-> NAtm,
                                  blocks |-> [k \\in DOMAIN Blocks |-> [ring |-> Blocks[k].ring, lay |-> Blocks[k].lay,
                                                                       vol |-> Vol(Blocks[k].ring, Blocks[k].lay),
                                                                       c2r |-> Centre2R(Blocks[k].ring), c2z |-> Centre2Z(Blocks[k].lay)]],
                                  conns |-> Conns(1)]))
====
"""
CFG = ("CONSTANTS Widths = {1, 2, 5}\nThick = {1, 3}\nMaxR = %d\nMaxZ = %d\nRin0s = {0, 2}\nAtmTypes = {0, 1, 2}\nINIT Init\nNEXT Next\n"
       "CONSTRAINT Emit\nINVARIANT R1_TotalVolume\nINVARIANT R2_ConnectionCount\nINVARIANT R3_SharedFace\nINVARIANT R4_Distances\n"
       "CHECK_DEADLOCK FALSE\n")


def observe(rep, quick):
    t2grids = core.repo_modules("t2grids")
    r = tlc.run_tlc("GEN_RadialGrid", None, cfg_text=CFG % ((2, 2) if quick else (3, 3)), workers=4, timeout=900,
                    extra_modules={"GEN_RadialGrid.tla": GEN}, allow_violation=False, heap="6g")
    rep.add_tlc("RadialGrid (beyond the listed properties): expected rings x layers grid for every small case, R1-R4", r)
    if r.violated:
        raise tlc.MachineryError("RadialGrid violates " + str(r.violated))
    obs, seen, n = {}, set(), 0

    def note(k):
        obs[k] = obs.get(k, 0) + 1

    for e in r.emitted:
        key = json.dumps(e["g"], sort_keys=True)
        if key in seen:
            continue
        seen.add(key)
        n += 1
        g = e["g"]
        scale = [10.0, 2.5][n % 2]
        try:
            with core.quiet():
                grid = t2grids.t2grid().radial([scale * x for x in g["dr"]], [scale * x for x in g["dz"]], atmos_type=g["atm"],
                                               origin=[scale * g["r0"], 0.0])
        except Exception as ex:
            note("radial raises %s" % repr(ex)[:60])
            continue
        natm, nr = e["natm"], len(g["dr"])
        blks = grid.blocklist[natm:]
        close = lambda a, b: abs(a - b) <= 1e-9 * max(1.0, abs(a), abs(b))
        if len(grid.blocklist) != natm + len(e["blocks"]):
            note("number of blocks")
            continue
        bad = None
        for b, x in zip(blks, e["blocks"]):
            if not close(b.volume, math.pi * x["vol"] * scale ** 3):
                bad = "block volume is not pi (Rout^2 - Rin^2) dz"
            elif not close(b.centre[0], 0.5 * x["c2r"] * scale) or not close(b.centre[2], 0.5 * x["c2z"] * scale):
                bad = "block centre is not at mid-radius / mid-height"
            if bad:
                break
        if not bad and len(grid.connectionlist) != len(e["conns"]):
            bad = "number of connections"
        if not bad:
            name = lambda ring, lay: blks[(lay - 1) * nr + ring - 1].name
            for c, x in zip(grid.connectionlist, e["conns"]):
                a = c.block[0].name
                if a != name(x["ring"], x["lay"]):
                    bad = "connection order"
                elif x["kind"] == "v":
                    other = c.block[1].name
                    if x["above"] == 0:
                        if other not in [b.name for b in grid.blocklist[:natm]]:
                            bad = "top block not connected to an atmosphere block"
                        elif not close(c.distance[0], 0.5 * x["d1"] * scale):
                            bad = "atmosphere connection distance of the top block"
                    elif other != name(x["ring"], x["above"]) or not close(c.distance[0], 0.5 * x["d1"] * scale) \
                            or not close(c.distance[1], 0.5 * x["d2"] * scale):
                        bad = "vertical connection blocks / distances"
                    if not bad and (not close(c.area, math.pi * x["area"] * scale ** 2) or c.dircos != -1.0 or c.direction != 3):
                        bad = "vertical connection area / direction / gravity cosine"
                else:
                    if c.block[1].name != name(x["ring"] + 1, x["lay"]) or not close(c.area, math.pi * x["area"] * scale ** 2) \
                            or not close(c.distance[0], 0.5 * x["d1"] * scale) or not close(c.distance[1], 0.5 * x["d2"] * scale) \
                            or c.dircos != 0.0:
                        bad = "radial connection blocks / area (2 pi Rout dz) / distances / gravity cosine"
                if bad:
                    break
        if bad:
            note(bad)
    for k in sorted(obs):
        print("OBSERVATION beyond-properties (t2grid.radial, not a verdict on %s): %s x%d" % (rep.pid, k, obs[k]))
    rep.extra["beyond_properties"] = {"module": "RadialGrid.tla bound to t2grid.radial", "cases": n, "observations": obs}
