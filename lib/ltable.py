"""Beyond the listed properties: specs/ListingTable.tla (the listingtable object as an abstract data type) bound to the real
class.  Every behaviour TLC generates up to a length bound is replayed on a real listingtable; after each call every row is
read by index, by key and (two-key tables) by reversed key, and every column by name.  Printed as OBSERVATION lines and
recorded in the evidence of C05 (extra.beyond_properties); it never changes a verdict."""
import json

import numpy as np

from lib import core, tlc

GEN = """---- MODULE GEN_ListingTable ----
EXTENDS ListingTable, Json
KeysDef == %s
ValsDef == {0 - 2, 3}
Emit == Len(hist) < MaxLen \\/ PrintT("EMIT" \\o ToJson(hist))
====
"""
CFG = ("CONSTANTS Keys <- KeysDef\nNCols = 2\nVals <- ValsDef\nMaxLen = %d\nReverse = %s\nINIT Init\nNEXT Next\nCONSTRAINT Emit\n"
       "INVARIANT T1_KeyIsIndex\nINVARIANT T2_ReversedNegated\nINVARIANT T3_ColumnIsSlice\nPROPERTY T4_AddThenSub\nCHECK_DEADLOCK FALSE\n")
SHAPES = [('<<<<"a">>, <<"b">>>>', [("  a 1",), ("  b 1",)], "FALSE", 1),
          ('<<<<"a", "b">>, <<"b", "c">>>>', [("  a 1", "  b 1"), ("  b 1", "  c 1")], "TRUE", 2)]
COLS = ["P", "FLOW(H)"]


def observe(rep, quick):
    t2listing = core.repo_modules("t2listing")
    obs, n = {}, 0

    def note(k):
        obs[k] = obs.get(k, 0) + 1

    for keys_tla, keys, rev, nkeys in SHAPES:
        maxlen = 2 if quick else 3
        r = tlc.run_tlc("GEN_ListingTable", None, cfg_text=CFG % (maxlen, rev), workers=1, timeout=900,
                        extra_modules={"GEN_ListingTable.tla": GEN % keys_tla}, allow_violation=False, heap="6g")
        rep.add_tlc("ListingTable %d-key rows MaxLen=%d (beyond the listed properties): addressing modes agree, + then - restores" % (nkeys, maxlen), r)
        if r.violated:
            raise tlc.MachineryError("ListingTable violates " + str(r.violated))
        rows = [k[0] if nkeys == 1 else k for k in keys]
        seen = set()
        for beh in r.emitted:
            key = json.dumps([(e["op"], e["i"], e["v"]) for e in beh])
            if key in seen:
                continue
            seen.add(key)
            n += 1
            tab = t2listing.listingtable(list(COLS), list(rows), num_keys=nkeys, allow_reverse_keys=(rev == "TRUE"))
            other = t2listing.listingtable(list(COLS), list(rows), num_keys=nkeys, allow_reverse_keys=(rev == "TRUE"))
            for i in range(len(rows)):
                other[i] = np.array([1.0, 1.0])
            for e in beh:
                try:
                    if e["op"] == "set_index":
                        tab[e["i"] - 1] = np.array([float(x) for x in e["v"]])
                    elif e["op"] == "set_key":
                        tab[rows[e["i"] - 1]] = np.array([float(x) for x in e["v"]])
                    elif e["op"] == "add":
                        tab = tab + other
                    else:
                        tab = tab - other
                except Exception as ex:
                    note("%s raises %s" % (e["op"], repr(ex)[:60]))
                    break
                want = [[float(x) for x in row] for row in e["t"]]
                bad = None
                for i, rk in enumerate(rows):
                    by_i, by_k = tab[i], tab[rk]
                    if [by_i[c] for c in COLS] != want[i] or by_i["key"] != rk:
                        bad = "row by index"
                    elif by_k is None or [by_k[c] for c in COLS] != want[i] or by_k["key"] != rk:
                        bad = "row by key"
                    elif nkeys == 2 and rk[::-1] not in rows:
                        by_r = tab[rk[::-1]]
                        if by_r is None or [by_r[c] for c in COLS] != [-x for x in want[i]] or by_r["key"] != rk[::-1]:
                            bad = "row by reversed key (negated)"
                    if bad:
                        break
                if not bad:
                    for c, cn in enumerate(COLS):
                        if [float(x) for x in tab[cn]] != [w[c] for w in want]:
                            bad = "column by name"
                if not bad and (tab.num_rows != len(rows) or tab.num_columns != len(COLS)):
                    bad = "shape"
                if bad:
                    note("after %s: %s differs from the specification's" % (e["op"], bad))
                    break
    # outside the specified domain: a key that is in neither direction
    tab = t2listing.listingtable(list(COLS), [("  a 1", "  b 1")], num_keys=2, allow_reverse_keys=True)
    try:
        if tab[("  x 1", "  y 1")] is not None:
            note("a key in neither direction returns a row")
    except Exception as ex:
        note("a key in neither direction raises %s" % repr(ex)[:50])
    for k in sorted(obs):
        print("OBSERVATION beyond-properties (listingtable, not a verdict on %s): %s x%d" % (rep.pid, k, obs[k]))
    rep.extra["beyond_properties"] = {"module": "ListingTable.tla bound to listingtable", "behaviours_replayed": n, "observations": obs}
