"""Beyond the listed properties: specs/InconADT.tla (the t2incon object as a container) bound to the real t2incon.  Every
behaviour TLC generates up to a length bound is replayed on a real object and the ordered names, the values and the lookup
compared after each call.  Printed as OBSERVATION lines and recorded in the evidence of C13 (extra.beyond_properties); it
never changes a verdict."""
import json

from lib import core, tlc

GEN = """---- MODULE GEN_InconADT ----
EXTENDS InconADT, Json
Emit == Len(hist) < MaxLen \\/ PrintT("EMIT" \\o ToJson(hist))
====
"""
CFG = ("CONSTANTS Names = {\"a\", \"b\", \"c\"}\nMaxLen = %d\nINIT Init\nNEXT Next\nCONSTRAINT Emit\nINVARIANT A1_ViewsAgree\n"
       "PROPERTY A2_OrderStable\nCHECK_DEADLOCK FALSE\n")
REAL = {"a": "  a 1", "b": "AB105", "c": "zz 99"}


def observe(rep, quick):
    t2incons = core.repo_modules("t2incons")
    r = tlc.run_tlc("GEN_InconADT", None, cfg_text=CFG % (3 if quick else 4), workers=1, timeout=900,
                    extra_modules={"GEN_InconADT.tla": GEN}, allow_violation=False, heap="6g")
    rep.add_tlc("InconADT MaxLen=%d (beyond the listed properties): views agree, order stable (+ behaviours exported)" % (3 if quick else 4), r)
    if r.violated:
        raise tlc.MachineryError("InconADT violates " + str(r.violated))
    obs, seen, n = {}, set(), 0

    def note(k):
        obs[k] = obs.get(k, 0) + 1

    for beh in r.emitted:
        key = json.dumps([(e["op"], e["n"], e["i"]) for e in beh])
        if key in seen:
            continue
        seen.add(key)
        n += 1
        inc = t2incons.t2incon()
        val = 0
        for e in beh:
            name = REAL[e["n"]]
            try:
                with core.quiet():
                    if e["op"] == "set":
                        val += 1
                        if val % 2:
                            inc[name] = [float(val), 20.0]                                  # a list of values ...
                        else:
                            inc[name] = t2incons.t2blockincon([float(val), 20.0], "other")  # ... or a state object made for another name
                    elif e["op"] == "insert":
                        val += 1
                        inc.insert_incon(e["i"], t2incons.t2blockincon([float(val), 20.0], name))
                    else:
                        inc.delete_incon(name)
            except Exception as ex:
                note("%s raises %s" % (e["op"], repr(ex)[:60]))
                break
            want_names = [REAL[x] for x in e["names"]]
            want_vals = [float(v) for v in e["vals"]]
            if list(inc.blocklist) != want_names or [b.block for b in inc] != want_names:
                note("after %s the ordered names differ from the specification's" % e["op"])
                break
            if [float(b.variable[0]) for b in inc] != want_vals:
                note("after %s a state is not the one last stored under its name" % e["op"])
                break
            if sorted(inc._block) != sorted(want_names) or any(inc[nm] is not inc[i] for i, nm in enumerate(want_names)) \
                    or inc.num_blocks != len(want_names):
                note("after %s the lookup and the list disagree" % e["op"])
                break
    # outside the specified domain: inserting a state for a block that is already present
    inc = t2incons.t2incon()
    inc["  a 1"] = [1.0, 2.0]
    inc.insert_incon(0, t2incons.t2blockincon([3.0, 4.0], "  a 1"))
    if inc.num_blocks != len(inc._block):
        note("insert_incon of a name already present leaves %d list entries for %d names (outside the specified domain)" % (inc.num_blocks, len(inc._block)))
    for k in sorted(obs):
        print("OBSERVATION beyond-properties (t2incon container, not a verdict on %s): %s x%d" % (rep.pid, k, obs[k]))
    rep.extra["beyond_properties"] = {"module": "InconADT.tla bound to t2incon", "behaviours_replayed": n, "observations": obs}
