"""Runs the T2Grid pipeline (MC, S2C, C2S) and reports the clauses of C08 or C09."""
import json
import os
import random

from . import core, tlc, gridmodel

CLAUSES = {
    "C08": {"P1_ViewsAgree", "P2_ConnectionsJoinBlocks", "P3_BackRefs", "P4_RocksRegistered",
            "C08_RenameKeeps", "raised"},
    "C09": {"C09_PhysUnchanged", "C09_Minc", "C09_Embed"},
}
INVARIANTS = ["P1_ViewsAgree", "P2_ConnectionsJoinBlocks", "P3_BackRefs", "P4_RocksRegistered"]
PROPS = ["Prop_C08_RenameKeeps", "Prop_C09_PhysUnchanged", "Prop_C09_Minc", "Prop_C09_Embed"]

MC_CFG = """CONSTANTS
  Base = %(base)s
  RockBase = {"p", "q"}
  Kinds = {"v", "s"}
  Fracs <- MCFracs
  MaxBlocks = %(maxblocks)d
  AtmVol = 100000
INIT Init
NEXT Next
VIEW View
CONSTRAINT MCDepth
%(checks)s
CHECK_DEADLOCK FALSE
"""
MC_MODULE = """---- MODULE MC_T2Grid ----
EXTENDS T2Grid
MCFracs == {<<10, 90>>, <<10, 40, 50>>}
MCDepth == TLCGet("level") <= %d /\\ Bound
====
"""


def action_key(act):
    """Identifies *what kind of call* fails, for known_findings.json."""
    op = act.get("op")
    if op == "rename_blocks":
        m = act["m"]
        overlap = bool(set(m.keys()) & set(m.values()) - set(k for k, v in m.items() if k == v))
        return "rename_blocks:" + ("targets-overlap-sources" if overlap else "disjoint")
    if op == "reorder":
        return "reorder:" + ("with-reversed-connection" if act.get("rev") else "plain")
    if op == "refused":
        return "refused:" + act.get("call", "?")
    if op == "demote_block":
        return "demote_block:" + ("repeated-name" if len(set(act["names"])) < len(act["names"]) else "distinct")
    return op


def run(pid, tier):
    t2grids = core.repo_modules("t2grids")
    rep = core.Report(pid, tier, "model_checking")
    rng = random.Random(core.seed() * 7919 + 17)
    quick = tier == "quick"
    mine = CLAUSES[pid]

    # ---- MC: the properties are consequences of the specified behaviour
    depth, base, maxb = (5, ["a", "b", "c"], 6) if quick else (6, ["a", "b", "c", "d"], 6)
    checks = "\n".join("INVARIANT " + i for i in INVARIANTS) + "\n" + "\n".join("PROPERTY " + p for p in PROPS)
    bs = "{" + ", ".join(json.dumps(b) for b in base) + "}"
    r = tlc.run_tlc("MC_T2Grid", None, workers=16, coverage=True, timeout=3000,
                    extra_modules={"MC_T2Grid.tla": MC_MODULE % depth},
                    cfg_text=MC_CFG % {"base": bs, "maxblocks": maxb, "checks": checks}, heap="16g")
    rep.add_tlc("MC_T2Grid depth<=%d base=%s invariants+action properties" % (depth, "".join(base)), r)
    if r.violated:
        raise tlc.MachineryError("the specification itself violates %s:\n%s" % (r.violated, "".join(r.trace[-3:])))

    # ---- S2C: all transitions of the bounded graph replayed on the real grid
    sdepth, sbase = (5, ["a", "b", "c"]) if quick else (6, ["a", "b", "c"])
    mism, errors = gridmodel.s2c(t2grids, rep, sdepth, sbase, ["p", "q"], ["v", "s"],
                                 [(10, 90), (10, 40, 50)], 6)
    traces = [m["trace"] for m in mism]
    meta = [("s2c", m) for m in mism]

    # ---- C2S: random edit sequences on the real grid (4..8 names), every state validated
    nrand, length = (150, 40) if quick else (1500, 60)
    base2 = ["a", "b", "c", "d", "e", "f", "g", "h", "ya", "yb", "yc"]
    rtr = gridmodel.random_traces(t2grids, rng, nrand, length, base2, ["p", "q", "r"], ["v", "h", "s"],
                                  [(10, 90), (10, 40, 50), (5, 15, 30, 50), (20, 20, 20, 20, 20), (10, 10, 20, 20, 20, 20)])
    for t in rtr:
        traces.append([{"act": e["act"], "state": e["state"]} for e in t])
        meta.append(("c2s", t))
    rep.traces += len(rtr)
    rep.extra["c2s_random_traces"] = len(rtr)
    rep.extra["c2s_recorded_steps"] = sum(len(t) - 1 for t in rtr)
    for t in rtr[:2]:
        rep.sample({"c2s_trace_actions": [e["act"] for e in t[1:8]]})
    for t in rtr:
        for e in t[1:]:
            rep.case(("c2s", json.dumps(e["act"], sort_keys=True)))

    # ---- geometry-built grids (up to ~200 blocks): reorder / rename / minc drivers
    leaves = []
    recomputed = []
    big = big_grid_traces(t2grids, rng, 6 if quick else 40, leaves, recomputed)
    if "C09_PhysUnchanged" in mine:
        for r_ in recomputed:
            rep.violation("calculate_block_centres", "C09_PhysUnchanged", r_)
    for t in big:
        traces.append([{"act": e["act"], "state": e["state"]} for e in t])
        meta.append(("c2s-geo", t))
    rep.traces += len(big)
    rep.extra["c2s_geometry_grid_traces"] = len(big)

    found, tr = gridmodel.validate_traces(traces)
    if tr is not None:
        rep.add_tlc("T2GridTrace (batched validation of %d traces)" % len(traces), tr)

    ndrift = 0
    by_tid = {}
    for f in found:
        by_tid.setdefault(f["tid"], []).append(f)
    failing_tids = set()
    for tid in sorted(by_tid):
        kind, m = meta[tid]
        trace = traces[tid]
        # Once a recorded state is inconsistent everything after it is suspect: only the first
        # failing state of a trace is charged, to the action that produced it.  Step clauses are
        # evaluated by TLC only from consistent pre-states, so all of those before it count.
        fs = sorted(by_tid[tid], key=lambda f: (f["l"], f["kind"] != "step"))
        first_bad_state = min([f["l"] for f in fs if f["kind"] == "state" and f["failing"]] or [10 ** 9])
        for f in fs:
            if f["l"] > first_bad_state:
                break
            act = trace[f["l"]]["act"]
            if f["failing"]:
                failing_tids.add(tid)
            bad = [c for c in f["failing"] if c in mine]
            if bad:
                prefix = [e["act"] for e in trace[:f["l"] + 1]]
                rep.violation(action_key(act), ",".join(bad),
                              {"source": kind, "actions": prefix, "state": trace[f["l"]]["state"],
                               "pre_state": trace[max(0, f["l"] - 1)]["state"]})
            elif f["drift"] and not f["failing"] and f["l"] < first_bad_state \
                    and not any(g["l"] == f["l"] and g["failing"] for g in fs):
                ndrift += 1
                if ndrift <= 5:
                    rep.drifted("%s step %s not explained by the specification (all property clauses hold)"
                                % (kind, json.dumps(act, sort_keys=True)[:200]))
    # the leaves are only meaningful on grids whose recorded states were all consistent
    big_tids = [tid for tid, (kind, t) in enumerate(meta) if kind == "c2s-geo"]
    if not any(tid in failing_tids for tid in big_tids):
        big_grid_leaves(rep, t2grids, leaves, rng, mine)
    for e in errors:
        if "raised" in mine:
            rep.violation(action_key(e["act"]) + ":raises", "raised", e)
    for tid, (kind, t) in enumerate(meta):
        # an exception is charged to the call only when every earlier state was consistent
        if kind != "s2c" and "error" in t[-1] and "raised" in mine and tid not in failing_tids:
            rep.violation(action_key(t[-1]["act"]) + ":raises", "raised",
                          {"actions": [e["act"] for e in t], "error": t[-1]["error"]})
    rep.extra["spec_drift_steps"] = ndrift
    rep.extra["s2c_mismatching_transitions"] = len(mism)
    if pid == "C08":
        from . import datamodel
        datamodel.observe(rep, rng, quick)
    rep.rule = ("S2C: every transition TLC generates for T2Grid (depth<=%d, names %s) replayed on the real t2grid, "
                "distinct = (pre-state, action); C2S: seeded random in-domain edit sequences, distinct = action with "
                "arguments; a case is non-trivial when the action changes the grid" % (sdepth, "".join(sbase)))
    rep.leaves = ["MINC volumes: real float volume compared with the spec's integer volume after rounding at 1e-6 relative",
                  "MINC connection distances/areas are not specified (token 0)"]
    rep.assumptions = ["projection covers blocklist/block/connectionlist/connection/connection_name/rocktypelist/rocktype, "
                       "volume, centre, distance, area, direction, dircos; nseq/nad*/ahtx/pmx are not observed",
                       "edit arguments are inside the property's domain (fresh names for additions, unused rock types "
                       "for replacement/deletion, collision-free rename maps, permutations for reorder)"]
    rep.exhaustive = False
    return rep.finish()


def big_grid_traces(t2grids, rng, n, leaves, recomputed):
    """Grids built from rectangular geometries (up to ~200 blocks), abstracted onto
    the spec's name space by numbering blocks; rename/reorder/minc sequences."""
    import numpy as np
    mulgrids = core.repo_modules("mulgrids")
    out = []
    for _ in range(n):
        nx, ny, nz = rng.randint(2, 6), rng.randint(1, 5), rng.randint(2, 6)
        with core.quiet():
            geo = mulgrids.mulgrid().rectangular([10.0 * (i + 1) for i in range(nx)],
                                                 [7.0 * (i + 2) for i in range(ny)],
                                                 [3.0 * (i + 1) for i in range(nz)],
                                                 atmos_type=rng.choice([0, 1, 2]))
            if rng.random() < 0.5:
                geo.gdcx, geo.gdcy = rng.choice([0.1, 0.0, -0.2]), rng.choice([0.2, 0.05])      # a tilted model: horizontal connections feel gravity
            if rng.random() < 0.5:
                for c_ in geo.columnlist[::3]:                                                     # topography
                    c_.surface = geo.layerlist[0].bottom - 0.75 * geo.layerlist[1].thickness
                    geo.set_column_num_layers(c_)
                geo.setup_block_name_index()
                geo.setup_block_connection_name_index()
            grid = t2grids.t2grid().fromgeo(geo)
            # recomputing the block centres from the geometry gives the centres the grid was built with
            c0 = dict((b.name, None if b.centre is None else [float(x) for x in b.centre]) for b in grid.blocklist)
            grid.calculate_block_centres(geo)
            c1 = dict((b.name, None if b.centre is None else [float(x) for x in b.centre]) for b in grid.blocklist)
            if c0 != c1:
                recomputed.append({"atmosphere_type": geo.atmosphere_type, "blocks": len(c0),
                                   "first_difference": next([n_, c0[n_], c1[n_]] for n_ in c0 if c0[n_] != c1[n_])})
        ad = BigAdapter(t2grids, grid)
        tr = [{"act": {"op": "init"}, "state": ad.project()}]
        ok = True
        for _ in range(rng.randint(3, 8)):
            a = ad.random_action(rng)
            try:
                ad.apply(a)
            except Exception as e:
                tr.append({"act": a, "state": ad.project(), "error": repr(e)})
                ok = False
                break
            tr.append({"act": a, "state": ad.project()})
        out.append(tr)
        if ok:
            leaves.append((ad.grid, geo))
    return out


def phys(grid):
    """What the grid describes, by name: per block (volume, rock type, centre), per connected pair (area, direction,
    each block's own distance, sign of the gravity cosine as seen from the first block of the pair)."""
    blocks = dict((b.name, (float(b.volume), b.rocktype.name, None if b.centre is None else [float(x) for x in b.centre]))
                  for b in grid.blocklist)
    conns = {}
    for c in grid.connectionlist:
        a, b = c.block[0].name, c.block[1].name
        s = 0 if not c.dircos else (1 if c.dircos > 0 else -1)
        d = {a: float(c.distance[0]), b: float(c.distance[1])}
        conns[frozenset((a, b))] = (float(c.area), int(c.direction), d, {a: s, b: -s})
    return blocks, conns


def phys_difference(p0, p1, tol):
    b0, c0 = p0
    b1, c1 = p1
    if sorted(b0) != sorted(b1):
        return "block names differ"
    close = lambda x, y: abs(x - y) <= tol * max(abs(x), abs(y), 1e-300)
    for n in b0:
        v0, r0, x0 = b0[n]
        v1, r1, x1 = b1[n]
        if not close(v0, v1) or r0 != r1:
            return "block %s: volume / rock type %r %s -> %r %s" % (n, v0, r0, v1, r1)
        if (x0 is None) != (x1 is None) or (x0 is not None and any(abs(p - q) > tol * max(1.0, abs(p)) for p, q in zip(x0, x1))):
            return "block %s: centre %r -> %r" % (n, x0, x1)
    if set(c0) != set(c1):
        return "connected pairs differ"
    for k in c0:
        a0, d0, ds0, s0 = c0[k]
        a1, d1, ds1, s1 = c1[k]
        if not close(a0, a1) or d0 != d1 or any(not close(ds0[n], ds1[n]) for n in ds0) or any(s0[n] != s1[n] for n in s0):
            return "connection %s: %r -> %r" % (sorted(k), c0[k], c1[k])
    return None


def big_grid_leaves(rep, t2grids, leaves, rng, mine):
    """On the geometry-built grids after their edit sequences: (a) a write / read of the data file keeps the physics (to the
    digits the file carries); (b) MINC with 2..6 fractions, 1..3 plane sets, any spacing, full or partial selection (atmosphere
    and boundary blocks included in the selection are skipped) keeps every original block's total volume, split as requested
    and chained fracture -> innermost matrix."""
    import numpy as np
    import shutil
    t2data = core.repo_modules("t2data")
    work = tlc.scratch_dir("c09-")
    try:
        if "C09_PhysUnchanged" in mine:
            # a rename map given in the simulator's print form ('ab1 5' for 'ab105', as a listing shows names): the default
            # fix_blocknames=True reads it as the names it stands for, and the network is unchanged under the new names
            with core.quiet():
                g = t2grids.t2grid()
                g.add_rocktype(t2grids.rocktype("rk  1"))
                for nm_ in ("ab105", "ab106", "ab 17"):
                    g.add_block(t2grids.t2block(nm_, 10.0, g.rocktypelist[0], centre=np.array([1.0, 2.0, 3.0])))
                g.add_connection(t2grids.t2connection([g.block["ab105"], g.block["ab106"]], 1, [1.0, 2.0], 5.0, 0.0))
                g.add_connection(t2grids.t2connection([g.block["ab106"], g.block["ab 17"]], 3, [1.0, 1.0], 4.0, -1.0))
                p0 = phys(g)
                m_ = {"ab1 5": "cd2 7", "ab106": "cd208"}
                try:
                    g.rename_blocks(dict(m_))
                    want = {"ab105": "cd207", "ab106": "cd208"}
                    ren = lambda n: want.get(n, n)
                    exp_b = dict((ren(n), v) for n, v in p0[0].items())
                    exp_c = dict((frozenset(ren(n) for n in k_), (v[0], v[1], dict((ren(n), x) for n, x in v[2].items()),
                                                                 dict((ren(n), x) for n, x in v[3].items()))) for k_, v in p0[1].items())
                    bad = phys_difference((exp_b, exp_c), phys(g), 1e-12)
                    if not bad and (sorted(g.block) != sorted(b.name for b in g.blocklist) or
                                    sorted(g.connection) != sorted(tuple(b.name for b in c.block) for c in g.connectionlist)):
                        bad = "lookups and lists disagree after the rename"
                except Exception as ex:
                    bad = "rename_blocks raised %r" % ex
            rep.case(("rename-print-form",))
            rep.traces += 1
            if bad:
                rep.violation("rename-map-in-print-form", "C09_PhysUnchanged", {"map": m_, "difference": bad})
        if "C09_PhysUnchanged" in mine:
            # a fixed case for the file cycle: a model symmetric about its origin (block centres with coordinates of exactly 0.0),
            # one atmosphere block without a centre, reordered so that this block is no longer the first, then written and read
            mulgrids = core.repo_modules("mulgrids")
            try:
                with core.quiet(), core.watchdog(120):
                    geo0 = mulgrids.mulgrid().rectangular([10.0, 10.0], [10.0], [10.0, 10.0], origin=[-5.0, -5.0, 5.0], atmos_type=0)
                    g = t2grids.t2grid().fromgeo(geo0)
                    names_ = [b.name for b in g.blocklist]
                    g.reorder(names_[1:] + names_[:1])
                    p0 = phys(g)
                    dat = t2data.t2data()
                    dat.grid = g
                    f = os.path.join(work, "sym.dat")
                    dat.write(f)
                    bad = phys_difference(p0, phys(t2data.t2data(f).grid), 2e-4)
            except Exception as ex:
                bad = "write / read raised %r" % ex
            rep.case(("file-cycle-symmetric",))
            rep.traces += 1
            if bad:
                rep.violation("file-cycle-symmetric-reordered", "C09_PhysUnchanged",
                              {"grid": "2 x 1 x 2 blocks about the origin, atmosphere block moved to the end", "difference": bad})
        for k, (grid, geo) in enumerate(leaves):
            det = {"grid": "rectangular %d blocks, atmosphere type %d" % (grid.num_blocks, geo.atmosphere_type)}
            if "C09_PhysUnchanged" in mine:
                if k % 2 == 0 and grid.num_blocks >= 3:
                    # rock types whose names are numbers (other than their place in the list): a name is a name
                    with core.quiet():
                        for j_, nm_ in enumerate(("    2", "    1")):
                            if nm_ not in grid.rocktype:
                                grid.add_rocktype(t2grids.rocktype(nm_, permeability=[1e-15 * (j_ + 2)] * 3))
                                grid.blocklist[-1 - j_].rocktype = grid.rocktype[nm_]
                p0 = phys(grid)
                try:
                    with core.quiet(), core.watchdog(120):
                        dat = t2data.t2data()
                        dat.grid = grid
                        f = os.path.join(work, "g%d.dat" % k)
                        dat.write(f)
                        g2 = t2data.t2data(f).grid
                        bad = phys_difference(p0, phys(g2), 2e-4)
                        if not bad and k % 3 == 1:
                            # once more with AUTOUGH2's extra-precision companion file, which carries centres and gravity cosines in full
                            dat.simulator = "AUTOUGH2.2"
                            f = os.path.join(work, "x%d.dat" % k)
                            dat.write(f, extra_precision=True)
                            g2 = t2data.t2data(f).grid
                            bad = phys_difference(p0, phys(g2), 2e-4)
                except Exception as ex:
                    bad = "write / read raised %r" % ex
                rep.case(("file-cycle", k))
                rep.traces += 1
                if bad:
                    det["difference"] = bad
                    rep.violation("file-cycle-after-edits", "C09_PhysUnchanged", det)
            if "C09_Minc" in mine:
                nf = rng.randint(2, 6)
                w = [rng.uniform(0.05, 1.0) for _ in range(nf)]
                fr = [x / sum(w) for x in w]
                scale = rng.choice([1.0, 100.0, 0.37])
                names = [b.name for b in grid.blocklist]
                sel = None if rng.random() < 0.4 else rng.sample(names, rng.randint(1, len(names)))
                natm = geo.num_atmosphere_blocks
                if sel is not None and natm and rng.random() < 0.7:
                    sel = sorted(set(sel) | set(names_atm(grid)))
                before = dict((b.name, float(b.volume)) for b in grid.blocklist)
                nplanes = rng.randint(1, 3)
                try:
                    with core.quiet(), core.watchdog(120):
                        idx = grid.minc([x * scale for x in fr], spacing=rng.choice([50.0, 3.0, [40.0, 20.0, 10.0][:nplanes]]),
                                        num_fracture_planes=nplanes, blocks=sel)
                except Exception as ex:
                    det["error"] = repr(ex)
                    rep.violation("minc-on-geometry-grid:raises", "C09_Minc", det)
                    continue
                rep.case(("minc-big", k, nf, nplanes, sel is None))
                rep.traces += 1
                bad = None
                target = set(names if sel is None else sel)
                for j, n in enumerate(names):
                    v0 = before[n]
                    applies = n in target and 0.0 < v0 < 1.0e25
                    if not applies:
                        if abs(grid.block[n].volume - v0) > 1e-9 * max(1.0, v0):
                            bad = "block %s is not MINCed (volume %r) but its volume became %r" % (n, v0, grid.block[n].volume)
                            break
                        continue
                    chain = [grid.block[n]]
                    for lev in range(1, nf):
                        mname = str(lev) + n[len(str(lev)):]
                        if mname not in grid.block or (chain[-1].name, mname) not in grid.connection:
                            bad = "block %s: level %d matrix block / chain connection missing" % (n, lev)
                            break
                        chain.append(grid.block[mname])
                    if bad:
                        break
                    vols = [b.volume for b in chain]
                    if abs(sum(vols) - v0) > 1e-9 * v0 or any(abs(v - f * v0) > 1e-9 * v0 for v, f in zip(vols, fr)):
                        bad = "block %s: volume %r split into %r, fractions %r" % (n, v0, vols, fr)
                        break
                if bad:
                    det.update(difference=bad, fractions=fr, selection="all" if sel is None else len(sel))
                    rep.violation("minc-on-geometry-grid", "C09_Minc", det)
    finally:
        shutil.rmtree(work, ignore_errors=True)


def names_atm(grid):
    return [b.name for b in grid.blocklist if not (0.0 < b.volume < 1.0e25)]


class BigAdapter(gridmodel.Adapter):
    """Geometry-built grid: names are abstracted as n<k>, numbers interned as tokens."""

    def __init__(self, t2grids, grid):
        self.m = t2grids
        self.grid = grid
        self.reg = {}
        self.names = {}
        self.rnames = {}
        self.tokens = {}
        self.tag_all()

    def an(self, real):
        if real not in self.names:
            self.names[real] = "n%d" % (len(self.names) + 1)
            self.rnames[self.names[real]] = real
        return self.names[real]

    def tok(self, x):
        if x is None:
            return 0
        x = round(float(x), 9)
        if x not in self.tokens:
            self.tokens[x] = len(self.tokens) + 1
        return self.tokens[x]

    def project(self):
        g = self.grid
        self.tag_all()
        blocks = [{"id": self.vid(b), "name": self.an(b.name), "rock": b.rocktype.name,
                   "vol": self.tok(b.volume),
                   "ctr": self.tok(None if b.centre is None else float(np_dot(b.centre)))} for b in g.blocklist]
        blockDict = sorted([self.an(k), self.vid(v)] for k, v in g.block.items())
        conns = []
        for c in g.connectionlist:
            minc = c.dircos is None
            s = 0 if not c.dircos else (1 if c.dircos > 0 else -1)
            conns.append({"id": self.vid(c), "b1": (self.vid(c.block[0]) or 0), "b2": (self.vid(c.block[1]) or 0),
                          "d1": self.tok(c.distance[0]), "d2": self.tok(c.distance[1]), "area": self.tok(c.area),
                          "dir": int(c.direction), "cos": gridmodel.NOCOS if minc else s})
        connDict = sorted([self.an(k[0]), self.an(k[1]), self.vid(v)] for k, v in g.connection.items())
        seen, connNames = set(), []
        for b in list(g.blocklist) + list(g.block.values()):
            if id(b) in seen:
                continue
            seen.add(id(b))
            connNames.append([self.vid(b), sorted([self.an(k[0]), self.an(k[1])] for k in b.connection_name)])
        connNames.sort()
        rocks = [{"id": self.vid(r), "name": r.name} for r in g.rocktypelist]
        rockDict = sorted([k, self.vid(v)] for k, v in g.rocktype.items())
        return {"blocks": blocks, "blockDict": blockDict, "conns": conns, "connDict": connDict,
                "connNames": connNames, "rocks": rocks, "rockDict": rockDict}

    def random_action(self, rng):
        g = self.grid
        op = rng.choice(["reorder", "reorder", "rename_blocks", "rename_blocks", "demote_block"])
        if op == "reorder":
            bp = list(range(1, len(g.blocklist) + 1))
            cp = list(range(1, len(g.connectionlist) + 1))
            rng.shuffle(bp)
            rng.shuffle(cp)
            rev = sorted(self.vid(c) for c in g.connectionlist if rng.random() < 0.3)
            return {"op": "reorder", "bp": bp, "cp": cp, "rev": rev}
        if op == "demote_block":
            k = rng.randint(1, 3)
            return {"op": "demote_block", "names": [self.an(b.name) for b in rng.sample(g.blocklist, k)]}
        names = [b.name for b in g.blocklist]
        k = rng.randint(2, min(12, len(names)))
        src = rng.sample(names, k)
        mode = rng.choice(["cycle", "fresh", "mixed"])
        if mode == "cycle":
            dst = src[1:] + src[:1]
        elif mode == "fresh":
            dst = ["%s%3d" % (rng.choice(["zz", "yy", "+z", "#y", "-a"]), i) for i in rng.sample(range(100, 999), k)]     # punctuation is legal in the first three characters
        else:
            dst = src[1:] + ["ww%3d" % rng.randint(100, 999)]
        return {"op": "rename_blocks", "m": dict((self.an(s), self.an(d)) for s, d in zip(src, dst))}

    def apply(self, a):
        g = self.grid
        with core.quiet():
            if a["op"] == "reorder":
                bn = [g.blocklist[i - 1].name for i in a["bp"]]
                cn = []
                for i in a["cp"]:
                    c = g.connectionlist[i - 1]
                    names = tuple(b.name for b in c.block)
                    cn.append(names[::-1] if self.vid(c) in a["rev"] else names)
                g.reorder(bn, cn)
            elif a["op"] == "demote_block":
                g.demote_block([self.rnames[n] for n in a["names"]])
            elif a["op"] == "rename_blocks":
                g.rename_blocks(dict((self.rnames[k], self.rnames[v]) for k, v in a["m"].items()))
        self.tag_all()


def np_dot(c):
    # a scalar that identifies a centre (x + 1000 y + 1e6 z is injective on the lattice used)
    return c[0] + 1.0e3 * c[1] + 1.0e6 * c[2]


def replay(pid, path):
    """Re-execute a recorded violating action sequence on the working tree."""
    t2grids = core.repo_modules("t2grids")
    d = json.load(open(path))
    det = d["detail"]
    acts = det.get("actions") or []
    if det.get("source") == "s2c" or not acts:
        print("replay: pre-state + action recorded in", path)
        print(json.dumps(det, indent=1)[:4000])
        return 0
    ad = gridmodel.Adapter(t2grids)
    tr = [{"act": {"op": "init"}, "state": ad.project()}]
    for a in acts[1:]:
        ad.apply(a)
        tr.append({"act": a, "state": ad.project()})
    found, _ = gridmodel.validate_traces([tr])
    bad = [f for f in found if set(f["failing"]) & CLAUSES[pid]]
    for f in bad:
        print("VIOLATION property=%s replay=%s clause=%s step=%d" % (pid, path, ",".join(f["failing"]), f["l"]))
    return 1 if bad else 0
