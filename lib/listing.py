"""Shared helpers for the listing-file checks (C05, C06, C07): shipped files, truncated copies,
snapshots of what a reader shows, fresh-reader oracle."""
import os
import re
import shutil

import numpy as np

from . import core, tlc


def listing_files():
    root = os.path.join(core.REPO, "tests", "listing")
    out = []
    for d, _, fs in os.walk(root):
        for f in fs:
            if f.endswith(".npy") or f.endswith("~"):
                continue
            out.append(os.path.join(d, f))
    return sorted(out)


def short_name(path):
    return os.path.relpath(path, os.path.join(core.REPO, "tests", "listing"))


def open_listing(path, skip_tables=None, timeout=60):
    t2listing = core.repo_modules("t2listing")
    with core.watchdog(timeout), core.quiet():
        return t2listing.t2listing(path, skip_tables=skip_tables)


def snapshot(lst, tables=True):
    s = {"index": lst.index, "time": float(lst.time), "step": int(lst.step) if lst.step is not None else None}
    if tables:
        s["tables"] = dict((n, (tuple(lst._table[n].row_name), lst._table[n]._data.copy()))
                           for n in lst.table_names)
    return s


def diff_snapshots(a, b):
    """First difference between two snapshots, or None."""
    for k in ("index", "time", "step"):
        if a[k] != b[k] and not (isinstance(a[k], float) and np.isnan(a[k]) and np.isnan(b[k])):
            return "%s: %r != %r" % (k, a[k], b[k])
    if sorted(a["tables"]) != sorted(b["tables"]):
        return "tables %s != %s" % (sorted(a["tables"]), sorted(b["tables"]))
    for n in a["tables"]:
        ra, da = a["tables"][n]
        rb, db = b["tables"][n]
        if ra != rb:
            return "table %s row names differ" % n
        if da.shape != db.shape:
            return "table %s shape %s != %s" % (n, da.shape, db.shape)
        neq = ~((da == db) | (np.isnan(da) & np.isnan(db)))
        if neq.any():
            i, j = np.argwhere(neq)[0]
            return "table %s row %s col %d: %r != %r" % (n, ra[i], j, da[i, j], db[i, j])
    return None


def header_offsets(path, lst):
    """Byte offsets at which each full result set's header begins (independent of the reader's
    own offsets except as an upper bound): used to cut truncated copies at result-set boundaries."""
    data = open(path, "rb").read()
    offs = []
    for pos in lst._fullpos:
        if lst.simulator == "AUTOUGH2":
            # _fullpos is just after the EEEEE keyword line: the set starts at that line
            k = data.rfind(b"\n", 0, pos - 1)
            offs.append(k + 1)
        else:
            low = data[:pos].lower()
            k = low.rfind(b"output data after")
            if k < 0:
                k = low.rfind(b"output after")
            k = data.rfind(b"\n", 0, k)
            offs.append(k + 1)
    return offs, data


def truncated_copy(path, lst, n, workdir):
    """A copy of the listing holding only its first n full result sets."""
    offs, data = header_offsets(path, lst)
    d = os.path.join(workdir, "trunc_%d_%s" % (n, re.sub(r"[^A-Za-z0-9]", "_", short_name(path))))
    os.makedirs(d, exist_ok=True)
    out = os.path.join(d, os.path.basename(path))
    with open(out, "wb") as fh:
        fh.write(data if n >= len(offs) else data[:offs[n]])
    return out


class FreshOracle(object):
    """What a freshly opened reader positioned directly at index i shows (memoised per file)."""

    def __init__(self, path, skip_tables=None):
        self.path = path
        self.skip = skip_tables
        self.memo = {}

    def at(self, i):
        if i not in self.memo:
            l = open_listing(self.path, self.skip)
            try:
                with core.watchdog(20), core.quiet():
                    l.index = i
                self.memo[i] = snapshot(l)
                self.n = l.num_fulltimes
            finally:
                l.close()
        return self.memo[i]
