"""Binding of specs/FixedRecord.tla to fixed_format_file (C02; record layer of C01/C03/C13)."""
import json
import math
import os
import re
import tempfile

from . import core, tlc


def load_tables():
    """The four real format tables, read from the working tree."""
    t2data, t2incons, mulgrids, fff = core.repo_modules("t2data", "t2incons", "mulgrids", "fixed_format_file")
    return [
        ("t2data", t2data.t2data_format_specification, fff.default_read_function),
        ("t2data_extra", t2data.t2data_extra_precision_format_specification, fff.default_read_function),
        ("t2incon", t2incons.t2incon_format_specification, fff.fortran_read_function),
        ("mulgrid", mulgrids.mulgrid_format_specification, fff.default_read_function),
    ], fff


_FMT = re.compile(r"^(-?)(\d+)(?:\.(\d+))?([a-z])$")


def parse_fmt(f):
    m = _FMT.match(f)
    if not m:
        raise tlc.MachineryError("unrecognised field format %r" % f)
    return {"w": int(m.group(2)), "p": int(m.group(3) or 0), "t": m.group(4), "l": bool(m.group(1))}


def tables_module(tabs):
    """FormatTables.tla generated from the working tree: a changed table changes the model."""
    recs, index = [], []
    for tab, spec, _ in tabs:
        for kind in sorted(spec):
            fields = [parse_fmt(f) for f in spec[kind][1]]
            index.append((tab, kind, fields))
            fs = ", ".join('[w |-> %d, p |-> %d, t |-> "%s", l |-> %s]' % (f["w"], f["p"], f["t"], "TRUE" if f["l"] else "FALSE")
                           for f in fields)
            recs.append('  [tab |-> "%s", kind |-> "%s", fields |-> <<%s>>]' % (tab, kind, fs))
    text = "---- MODULE FormatTables ----\n(* generated from /repo's format dictionaries *)\nTables == <<\n" + ",\n".join(recs) + "\n>>\n====\n"
    return text, index


GEN = """---- MODULE GEN_FixedRecord ----
EXTENDS FixedRecord, Json
Emit == i > 1 \\/ PrintT("EMIT" \\o ToJson([rk |-> rk, focus |-> focus, cls |-> cls, out |-> Outcome(Fields[focus], cls)]))
====
"""
CFG = """CONSTANT Rule = "%s"
INIT Init
NEXT Next
%s
INVARIANT P1_LineLength
INVARIANT P3_NoDisplacement
INVARIANT P0_WidthsPositive
CHECK_DEADLOCK FALSE
"""


def model_check(tabs_text, rule, export):
    mods = {"FormatTables.tla": tabs_text, "GEN_FixedRecord.tla": GEN}
    return tlc.run_tlc("GEN_FixedRecord", None, cfg_text=CFG % (rule, "CONSTRAINT Emit" if export else ""),
                       workers=1 if export else 16, timeout=1800, extra_modules=mods, heap="8g")


# ---------------------------------------------------------------- concretisation
def typical(f, rng, full=True):
    t = f["t"]
    if t == "x":
        return None
    if t == "s":
        n = f["w"] if full else max(1, f["w"] - 1)
        return "".join(rng.choice("abcdefghkmnpqrstuvwz23456789") for _ in range(n))
    if t == "d":
        n = max(1, min(f["w"] - 1, 4))
        return rng.randint(10 ** (n - 1), 10 ** n - 1)
    if t == "e":
        digs = rng.choice("12345678") + "".join(rng.choice("0123456789") for _ in range(max(0, f["p"] - 1))) + rng.choice("123456789")
        digs = digs[:f["p"] + 1]
        return float("%s.%se%+03d" % (digs[0], digs[1:] or "0", rng.randint(-20, 20)))
    if t == "f":
        nint = max(1, min(3, f["w"] - f["p"] - 2))
        ip = rng.randint(10 ** (nint - 1), 10 ** nint - 1)
        fr = "".join(rng.choice("0123456789") for _ in range(f["p"]))
        return float("%d.%s" % (ip, fr or "0"))
    raise tlc.MachineryError("unknown field type " + t)


def concretise(f, k, rng, variant=0):
    c = k["c"]
    if c == "absent":
        return None
    if c == "str":
        t = "".join(rng.choice("ABCDEFGHJKabcdefgh0123456789") for _ in range(k["len"]))
        if variant % 3 == 2 and k["len"] >= 2:
            t = t[:-1] + " "          # a name that ends in a blank ('SAND ') is a name, and comes back exactly
        return t
    if c == "int":
        n = k["nd"]
        v = rng.randint(10 ** (n - 1), 10 ** n - 1) if n > 1 else rng.randint(0, 9)
        if k["neg"]:
            v = -max(v, 1) if n > 1 else -rng.randint(1, 9)
        return v
    if c == "exp":
        p = f["p"]
        if k["up"]:
            # all nines: either beyond every printed digit (carries at full precision) or exactly as many as are printed
            # (no carry at full precision, a carry as soon as one decimal is dropped to make the value fit)
            mant = "9." + "9" * (16 if variant % 2 == 0 else max(p, 1))
            if k["ed"] == 2 and not k["eneg"]:
                e = 99
            elif k["ed"] == 3 and k["eneg"]:
                e = -100
            elif k["ed"] == 2:
                e = -rng.randint(2, 98)
            else:
                e = rng.randint(100, 119)
        else:
            first = rng.choice("12345678")
            pat = variant % 3
            if pat == 0:
                mant = first + ".0"
            elif pat == 1:
                mant = first + "." + "".join(rng.choice("0123456789") for _ in range(max(p - 1, 0))) + rng.choice("1234") \
                    if p > 0 else first + ".2"
                mant = mant[:p + 2] if p > 0 else mant
            else:
                mant = first + "." + rng.choice("123456789") + "0" * 6
            if k["ed"] == 2:
                e = -rng.randint(1, 99) if k["eneg"] else rng.randint(0, 99)
            else:
                e = -rng.randint(100, 120) if k["eneg"] else rng.randint(100, 120)
        v = float("%se%d" % (mant, e))
        return -v if k["neg"] else v
    if c == "fix":
        p, n = f["p"], k["id"]
        if k["up"]:
            s = "9" * n + "." + "9" * (p + 4 if variant % 2 == 0 else max(p, 1))
        else:
            ip = (rng.choice("12345678") + "".join(rng.choice("0123456789") for _ in range(n - 1)))
            s = ip + "." + "".join(rng.choice("0123456789") for _ in range(p)) + rng.choice("01234")
        v = float(s)
        if float("%.*f" % (p, v)) != v and len(s) > 17:
            pass
        return -v if k["neg"] else v
    raise tlc.MachineryError("unknown class %r" % (k,))


def expected_parse(f, v, readfn):
    """What field f must parse to when v was written and fits."""
    if v is None and f["t"] == "s":
        return " " * f["w"]       # an absent name reads as a blank field ("nothing"); None is accepted as well
    if v is None or f["t"] == "x":
        return None
    fmt = "%" + ("-" if f["l"] else "") + str(f["w"]) + (".%d" % f["p"] if f["t"] in "ef" else "") + f["t"]
    text = fmt % v
    if f["t"] == "s":
        return text
    if f["t"] == "d":
        return int(text)
    return float(text)


def same(a, b):
    if isinstance(b, str) and not b.strip() and (a is None or (isinstance(a, str) and not a.strip())):
        return True
    if isinstance(a, float) and isinstance(b, float):
        return a == b or (math.isnan(a) and math.isnan(b))
    return a == b and (a is None) == (b is None)


def reduced_ok(f, v, got):
    """got equals v printed with some smaller number of decimals that fits the field."""
    if not isinstance(got, float):
        return False
    for q in range(f["p"], -1, -1):
        text = ("%%%d.%d%s" % (f["w"], q, f["t"])) % v
        if len(text) <= f["w"] and float(text) == got:
            return True
    return False


class Parser(object):
    """One fixed_format_file per table (the constructor wants a file; a temp file is used)."""

    def __init__(self, fff, spec, readfn):
        fd, self.path = tempfile.mkstemp(prefix="verif-ff-")
        os.close(fd)
        self.p = fff.fixed_format_file(self.path, "w", spec, readfn)

    def close(self):
        try:
            self.p.close()
        finally:
            os.unlink(self.path)
