"""Binding of specs/FortranNum.tla to fixed_format_file.fortran_float / fortran_int (C16)."""
import json
import math
import os
import shutil

from . import core, tlc

OTH = ['*', '#', '$', 'x', 'q', '/', ',', 'z', '?', ':']
PYCHARS = set("infatyINFATY_")
SENT = object()


def concretise(w, rng):
    out = []
    for c in w:
        if c == "DIG":
            out.append(rng.choice("0123456789"))
        elif c == "PT":
            out.append('.')
        elif c == "PLUS":
            out.append('+')
        elif c == "MINUS":
            out.append('-')
        elif c == "E":
            out.append(rng.choice("eE"))
        elif c == "D":
            out.append(rng.choice("dD"))
        elif c == "BL":
            out.append(' ')
        elif c == "STAR":
            out.append('*')
        else:
            out.append(rng.choice(OTH[1:]))
    return "".join(out)


def classify(s):
    w = []
    for ch in s:
        if ch.isdigit() and ch in "0123456789":
            w.append("DIG")
        elif ch == '.':
            w.append("PT")
        elif ch == '+':
            w.append("PLUS")
        elif ch == '-':
            w.append("MINUS")
        elif ch in "eE":
            w.append("E")
        elif ch in "dD":
            w.append("D")
        elif ch == ' ':
            w.append("BL")
        elif ch == '*':
            w.append("STAR")
        elif ch in PYCHARS or ch.isspace() or ord(ch) > 126:
            w.append("PY")          # Python's float/int may strip or accept it: only A/E clauses apply
        else:
            w.append("OTH")
    return w


def canonical(text, expform):
    """The text Fortran's meaning corresponds to: blanks dropped, D->E, sign-only exponent given its letter."""
    s = text.replace(' ', '').lower().replace('d', 'e')
    if expform == "sign":
        k = max(s.rfind('+'), s.rfind('-'))
        s = s[:k] + 'e' + s[k:]
    return s


def observe(fn, text):
    try:
        v = fn(text, SENT)
    except BaseException as e:          # "no text whatsoever makes the readers raise"
        return "raised", repr(e)
    if v is SENT:
        return "blank", None
    if v is None or (isinstance(v, float) and math.isnan(v)):
        return "nan", v
    return "value", v


def py_accepts(conv, text):
    try:
        return True, conv(text)
    except (ValueError, OverflowError):
        return False, None


def same(a, b):
    if isinstance(a, float) and isinstance(b, float) and math.isnan(a) and math.isnan(b):
        return True
    return a == b and type(a) == type(b)


def check_call(rep, fff, which, text, kind, expform, source):
    """Evaluates the clauses of C16 for one call. kind/expform come from TLC."""
    fn = fff.fortran_float if which == "float" else fff.fortran_int
    conv = float if which == "float" else int
    obs, val = observe(fn, text)
    key = None
    if obs == "raised":
        key, clause = "raises", "never_raises"
    else:
        acc, pv = py_accepts(conv, text)
        if acc:
            if not (obs in ("value", "nan") and same(val, pv)):
                key, clause = "python-accepted-differs", "same_as_python"
        elif kind == "blank":
            if obs != "blank":
                key, clause = "blank-field", "blank_gives_blank_value"
        elif kind == "badchar":
            if obs != "nan":
                key, clause = "bad-character", "bad_character_gives_nan"
        elif kind in ("real", "int"):
            if kind == "real" and expform == "sign" and len(canonical(text, "none")) - max(
                    canonical(text, "none").rfind('+'), canonical(text, "none").rfind('-')) - 1 < 3:
                pass        # sign-only exponent with fewer than three digits: no Fortran program prints it
            else:
                exp = conv(canonical(text, expform))
                if not (obs == "value" and same(val, exp)):
                    key, clause = "fortran-rendering:" + (expform or "int"), "fortran_meaning"
    if not key and obs != "raised":
        # the readers are functions of (text, blank value) only: a second caller with another
        # blank value (and the library's own fortran_read_* partials, blank value None) must get
        # its own blank value for a blank field, and the same value otherwise - whatever was read before
        alt = -7.5 if which == "float" else -7
        rd = fff.fortran_read_float if which == "float" else fff.fortran_read_int
        try:
            v2, v3, v4 = fn(text, alt), rd(text), fn(text, SENT)
        except BaseException as e:
            v2 = v3 = v4 = None
            key, clause = "raises", "never_raises"
        else:
            if obs == "blank":
                if not (v2 == alt and type(v2) == type(alt) and v3 is None and v4 is SENT):
                    key, clause = "blank-field:other-caller", "blank_gives_blank_value"
            elif not (same(v2, val) and same(v3, val) and same(v4, val)):
                key, clause = "result-depends-on-caller", "same_result_for_every_caller"
    if key:
        rep.violation("%s:%s" % (which, key), clause,
                      {"function": "fortran_" + which, "text": text, "observed": [obs, repr(val)],
                       "spec_kind": kind, "source": source})
    return obs


EXPORT = """---- MODULE GEN_FortranNum ----
EXTENDS FortranNum, Json
Emit == PrintT("EMIT" \\o ToJson([w |-> str, rk |-> RealKind(str), re |-> Run(str).t.exp, ik |-> IntKind(str)]))
====
"""


def export_fields(maxlen, timeout=1800):
    cfg = "CONSTANT MaxLen = %d\nINIT Init\nNEXT Next\nCONSTRAINT Emit\nCHECK_DEADLOCK FALSE\n" % maxlen
    return tlc.run_tlc("GEN_FortranNum", None, cfg_text=cfg, workers=1, timeout=timeout,
                       extra_modules={"GEN_FortranNum.tla": EXPORT}, allow_violation=False, heap="8g")


def classify_calls(calls, timeout=1800):
    """calls: list of {w, f, obs}; returns list of {kind, ok, exp} in order, plus TLC result."""
    work = tlc.scratch_dir("fnum-")
    try:
        path = os.path.join(work, "calls.json")
        with open(path, "w") as fh:
            json.dump(calls, fh)
        cfg = "CONSTANT MaxLen = 0\nINIT TInit\nNEXT TNext\nCONSTRAINT Report\nCHECK_DEADLOCK FALSE\n"
        r = tlc.run_tlc("FortranNumTrace", None, cfg_text=cfg, workers=1, timeout=timeout,
                        env={"TRACE_FILE": path}, allow_violation=False, heap="8g")
    finally:
        shutil.rmtree(work, ignore_errors=True)
    out = [None] * len(calls)
    for e in r.emitted:
        out[e["i"] - 1] = e
    if any(o is None for o in out):
        raise tlc.MachineryError("FortranNumTrace classified %d of %d calls" % (sum(o is not None for o in out), len(calls)))
    return out, r
