"""Reference transcription of specs/Naming.tla's Fix / Unfix / validity (independent of mulgrids.py),
used wherever a check needs to know the canonical form of a block name."""
import string


def ref_fix(name):
    """Repair of the simulator's (A3, I2) print form: 'xx1 5' -> 'xx105' (blank in 4th column between two digits)."""
    if len(name) == 5 and name[2].isdigit() and name[4].isdigit() and name[3] == ' ':
        return name[:3] + '0' + name[4]
    return name


def ref_unfix(name):
    """The simulator's print form of a name: the last two characters, when both digits, are an I2 number."""
    if len(name) == 5 and name[3:5].isdigit():
        return "%3s%2d" % (name[:3], int(name[3:5]))
    return name


def ref_valid(name):
    ok3 = string.ascii_letters + string.digits + ' ' + string.punctuation
    return len(name) == 5 and all(c in ok3 for c in name[:3]) and name[3] in string.digits + ' ' and name[4] in string.digits


def canonical(name):
    return ref_valid(name) and ref_fix(ref_unfix(name)) == name
