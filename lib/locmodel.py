"""C12: meshes on exact integer coordinates for specs/Locate.tla, exact oracles (Fractions), replay into the real code."""
import math
import random
from fractions import Fraction

import numpy as np

from lib import core, tlc


class OffLattice(Exception):
    pass


# ---------------------------------------------------------------- exact geometry (independent of the library)
def is_left(a, b, p):
    return (b[0] - a[0]) * (p[1] - a[1]) - (p[0] - a[0]) * (b[1] - a[1])


def winding(p, poly):
    w = 0
    n = len(poly)
    for i in range(n):
        a, b = poly[i], poly[(i + 1) % n]
        if a[1] <= p[1]:
            if b[1] > p[1] and is_left(a, b, p) > 0:
                w += 1
        elif b[1] <= p[1] and is_left(a, b, p) < 0:
            w -= 1
    return w


def on_seg(p, a, b):
    return (is_left(a, b, p) == 0 and min(a[0], b[0]) <= p[0] <= max(a[0], b[0])
            and min(a[1], b[1]) <= p[1] <= max(a[1], b[1]))


def on_boundary(p, poly):
    n = len(poly)
    return any(on_seg(p, poly[i], poly[(i + 1) % n]) for i in range(n))


def seg_dist2(p, a, b):
    """squared distance of p from segment ab (floats are enough: used only to exclude points near edges)"""
    ax, ay, bx, by, px, py = map(float, (a[0], a[1], b[0], b[1], p[0], p[1]))
    dx, dy = bx - ax, by - ay
    L = dx * dx + dy * dy
    t = 0.0 if L == 0 else max(0.0, min(1.0, ((px - ax) * dx + (py - ay) * dy) / L))
    return (px - ax - t * dx) ** 2 + (py - ay - t * dy) ** 2


def convex(poly):
    n = len(poly)
    s = [is_left(poly[i], poly[(i + 1) % n], poly[(i + 2) % n]) for i in range(n)]
    return all(x >= 0 for x in s) or all(x <= 0 for x in s)


def clip(poly, p0, p1):
    """Cyrus-Beck: parameters (tin, tout) with tin < tout of the part of p0->p1 in the open convex polygon, or None."""
    n = len(poly)
    s = [is_left(poly[i], poly[(i + 1) % n], poly[(i + 2) % n]) for i in range(n)]
    ori = 1 if all(x >= 0 for x in s) else -1
    tin, tout = Fraction(0), Fraction(1)
    for i in range(n):
        a, b = poly[i], poly[(i + 1) % n]
        n0 = ori * is_left(a, b, p0)
        dd = ori * (is_left(a, b, p1) - is_left(a, b, p0))
        if dd == 0:
            if n0 <= 0:
                return None
        elif dd > 0:
            tin = max(tin, Fraction(-n0, dd))
        else:
            tout = min(tout, Fraction(-n0, dd))
    return (tin, tout) if tin < tout else None


def outer_boundary(polys):
    """The outer boundary loop of a set of polygons (vertex tuples): sides used by one polygon only, walked from the
    lowest-left vertex, straight-through vertices removed."""
    count = {}
    for poly in polys:
        n = len(poly)
        for i in range(n):
            a, b = poly[i], poly[(i + 1) % n]
            count[frozenset((a, b))] = count.get(frozenset((a, b)), 0) + 1
    adj = {}
    for e, k in count.items():
        if k == 1:
            a, b = tuple(e)
            adj.setdefault(a, []).append(b)
            adj.setdefault(b, []).append(a)
    start = min(adj)
    loop = [start]
    prev, cur = None, start
    # leave the lowest-left vertex along the boundary side with the smallest polar angle, keep turning consistently
    nxt = min(adj[start], key=lambda v: math.atan2(v[1] - start[1], v[0] - start[0]))
    while True:
        prev, cur = cur, nxt
        if cur == start:
            break
        loop.append(cur)
        cands = [v for v in adj[cur] if v != prev]
        if not cands:
            raise OffLattice("open boundary")
        if len(cands) == 1:
            nxt = cands[0]
        else:       # pinch vertex: rightmost turn keeps to the outer loop
            def ang(v):
                a0 = math.atan2(prev[1] - cur[1], prev[0] - cur[0])
                a1 = math.atan2(v[1] - cur[1], v[0] - cur[0])
                return (a1 - a0) % (2 * math.pi)
            nxt = min(cands, key=ang)
        if len(loop) > len(adj) + 2:
            raise OffLattice("boundary walk does not close")
    out = []
    n = len(loop)
    for i in range(n):
        if is_left(loop[i - 1], loop[i], loop[(i + 1) % n]) != 0:
            out.append(loop[i])
    return out


# ---------------------------------------------------------------- projection of a real geometry onto integers
class Proj(object):
    pass


def project(geo, sub=4):
    """Integer coordinates in units h = (gcd of the node coordinates) / sub, origin at the lower-left corner of the
    bounding box.  Raises OffLattice when the coordinates are not (decimal) rationals or get too large for TLC."""
    pr = Proj()
    fr = {}
    for n in geo.nodelist:
        xy = []
        for v in n.pos:
            f = Fraction(repr(round(float(v), 6)))
            if abs(float(f) - float(v)) > 1e-9:
                raise OffLattice("node %s" % n.name)
            xy.append(f)
        fr[n.name] = xy
    x0 = min(v[0] for v in fr.values())
    y0 = min(v[1] for v in fr.values())
    rel = [c - o for v in fr.values() for c, o in zip(v, (x0, y0))]
    den = 1
    for r in rel:
        den = den * r.denominator // math.gcd(den, r.denominator)
    g = 0
    for r in rel:
        g = math.gcd(g, int(r * den))
    h = Fraction(g, den) / sub
    pr.h, pr.x0, pr.y0 = h, x0, y0
    pr.node = {k: (int((v[0] - x0) / h), int((v[1] - y0) / h)) for k, v in fr.items()}
    pr.cols = [c.name for c in geo.columnlist]
    pr.poly = [[pr.node[n.name] for n in c.node] for c in geo.columnlist]
    big = max(max(v) for v in pr.node.values())
    if big > 6000:
        raise OffLattice("coordinates up to %d units" % big)
    pr.centre = []
    for c in geo.columnlist:
        cx = (Fraction(repr(round(float(c.centre[0]), 9))) - x0) / h
        cy = (Fraction(repr(round(float(c.centre[1]), 9))) - y0) / h
        cx, cy = cx.limit_denominator(10000), cy.limit_denominator(10000)
        if abs(float(cx) * float(h) + float(x0) - c.centre[0]) > 1e-7 * max(1.0, float(h)):
            raise OffLattice("centre of %s" % c.name)
        d = cx.denominator * cy.denominator // math.gcd(cx.denominator, cy.denominator)
        pr.centre.append((int(cx * d), int(cy * d), d))
    xs = [v[0] for v in pr.node.values()]
    ys = [v[1] for v in pr.node.values()]
    pr.root = (min(xs), min(ys), max(xs), max(ys))
    pr.bpoly = outer_boundary([tuple(p) for p in pr.poly])
    # vertical: quarter metres of the layer structure
    zs = [Fraction(repr(round(float(v), 6))) for lay in geo.layerlist for v in (lay.bottom, lay.top)] + \
         [Fraction(repr(round(float(c.surface), 6))) for c in geo.columnlist]
    den = 1
    for r in zs:
        den = den * r.denominator // math.gcd(den, r.denominator)
    g = 0
    for r in zs:
        g = math.gcd(g, int(r * den))
    pr.hz = Fraction(max(g, 1), den) / 4
    pr.layers = [(int(Fraction(repr(round(float(l.bottom), 6))) / pr.hz), int(Fraction(repr(round(float(l.top), 6))) / pr.hz))
                 for l in geo.layerlist]
    pr.surface = [int(Fraction(repr(round(float(c.surface), 6))) / pr.hz) for c in geo.columnlist]
    return pr


def real_xy(pr, p):
    return np.array([float(pr.x0 + p[0] * pr.h), float(pr.y0 + p[1] * pr.h)])


def coordinate_candidates(vals, dense_limit=70):
    vals = sorted(set(vals))
    lo, hi = vals[0], vals[-1]
    if hi - lo <= dense_limit:
        return list(range(lo - 2, hi + 3))
    out = {lo - 3, lo - 1, hi + 1, hi + 3}
    for a, b in zip(vals, vals[1:]):
        out.update(x for x in (a, a + 1, a + 2, (a + b) // 2, (3 * a + b) // 4, b - 1) if a <= x <= b)
    out.add(hi)
    return sorted(out)


def nbrs(pr):
    edge = {}
    for i, poly in enumerate(pr.poly):
        n = len(poly)
        for k in range(n):
            edge.setdefault(frozenset((poly[k], poly[(k + 1) % n])), []).append(i + 1)
    nb = {i + 1: set() for i in range(len(pr.poly))}
    for cs in edge.values():
        for a in cs:
            for b in cs:
                if a != b:
                    nb[a].add(b)
    return nb


def choose_lines(pr, rng, count):
    """Segments for column_track: end points off every edge, not running along a column side, and with no clip
    whose length is within a factor 3 of the tolerance of the column it clips (1e-3 of its longest side)."""
    xs = coordinate_candidates([v[0] for v in pr.node.values()], 40)
    ys = coordinate_candidates([v[1] for v in pr.node.values()], 40)
    pts = [(x, y) for x in xs for y in ys if not any(on_boundary((x, y), poly) for poly in pr.poly)]
    lines = set()
    tries = 0
    while len(lines) < count and tries < count * 40:
        tries += 1
        a, b = rng.choice(pts), rng.choice(pts)
        if a == b or (a, b) in lines:
            continue
        if line_ok(pr, a, b):
            lines.add((a, b))
    return sorted(lines)


def line_ok(pr, a, b):
    L = math.hypot(b[0] - a[0], b[1] - a[1])
    for poly in pr.poly:
        n = len(poly)
        for k in range(n):
            c, d = poly[k], poly[(k + 1) % n]
            if is_left(a, b, c) == 0 and is_left(a, b, d) == 0:
                # collinear with a side: runs along it when the two overlap in more than a point
                ta = sorted([(c[0] - a[0]) * (b[0] - a[0]) + (c[1] - a[1]) * (b[1] - a[1]),
                             (d[0] - a[0]) * (b[0] - a[0]) + (d[1] - a[1]) * (b[1] - a[1])])
                if max(ta[0], 0) < min(ta[1], L * L):
                    return False
        if convex(poly):
            cl = clip(poly, a, b)
            if cl is not None:
                side = max(math.hypot(poly[k][0] - poly[(k + 1) % n][0], poly[k][1] - poly[(k + 1) % n][1]) for k in range(n))
                if float(cl[1] - cl[0]) * L < 3e-3 * side:
                    return False
    return True


# ---------------------------------------------------------------- the generated model
def tl(v):
    if isinstance(v, (tuple, list)):
        return "<<" + ", ".join(tl(x) for x in v) + ">>"
    if isinstance(v, (set, frozenset)):
        return "{" + ", ".join(tl(x) for x in sorted(v)) + "}"
    if isinstance(v, str):
        return '"%s"' % v
    return str(v)


MC = r"""---- MODULE MC_Locate ----
EXTENDS Locate, Json
MC_NCols == %(n)d
MC_Poly == %(poly)s
MC_Centre == %(centre)s
MC_Root == %(root)s
MC_BPoly == %(bpoly)s
MC_Xs == %(xs)s
MC_Ys == %(ys)s
MC_Layers == %(layers)s
MC_Surface == %(surface)s
MC_Zs == %(zs)s
MC_Lines == %(lines)s
EmitTree == PrintT("EMIT" \o ToJson([k |-> "tree", t |-> Tree(MkNode(Root, AscSeq(AllCols)))]))
Emit == pc # "done" \/ PrintT("EMIT" \o ToJson(
          IF q.kind = "track" THEN [k |-> "track", ln |-> q.line, tr |-> tr.track]
          ELSE [k |-> q.kind, p |-> q.pt, g |-> q.guess, b |-> q.bounds, s |-> q.cols, u |-> q.useq, z |-> q.z, r |-> res, bl |-> blk]))
====
"""
INVS = ["TypeOK", "P1_ReportedContains", "P2_AidsAgree", "P3_OutsideNothing", "P4_UniqueBlock", "L_CrossingIsWinding", "L_AnswerIsExhaustive",
        "L_ConvexSameSide", "L_AtMostOneOwner", "L_BoundaryPolygon", "T1_ExactlyCrossed", "T2_Ordered", "T3_AbutOrGap"]


def run_model(pr, xs, ys, zs, lines, variant="code", guessmode="rnf", waveorder="sorted", export=True, tree=False,
              workers=1, timeout=3000, coverage=False, extra_args=None, heap="4g"):
    mod = MC % dict(n=len(pr.poly), poly=tl(pr.poly), centre=tl(pr.centre), root=tl(pr.root), bpoly=tl(pr.bpoly),
                    xs=tl(set(xs)), ys=tl(set(ys)), layers=tl(pr.layers), surface=tl(pr.surface), zs=tl(set(zs)),
                    lines=tl(set(lines)))
    cfg = ("CONSTANTS NCols <- MC_NCols\n Poly <- MC_Poly\n Centre <- MC_Centre\n Root <- MC_Root\n BPoly <- MC_BPoly\n Xs <- MC_Xs\n"
           " Ys <- MC_Ys\n Layers <- MC_Layers\n Surface <- MC_Surface\n Zs <- MC_Zs\n Lines <- MC_Lines\n"
           ' GuessMode = "%s"\n Variant = "%s"\n WaveOrder = "%s"\nINIT Init\nNEXT Next\nCHECK_DEADLOCK FALSE\n'
           % (guessmode, variant, waveorder))
    cfg += "".join("INVARIANT %s\n" % i for i in INVS)
    if export:
        cfg += "CONSTRAINT Emit\n"
    if tree:
        mod = mod.replace("====", "ASSUME EmitTree\n====")
    return tlc.run_tlc("MC_Locate", None, cfg_text=cfg, workers=workers, timeout=timeout, heap=heap,
                       extra_modules={"MC_Locate.tla": mod}, coverage=coverage, extra_args=extra_args)
