"""Runs the MulgridADT pipeline and reports the clauses of C10 or C11."""
import glob
import json
import numpy as np
import os
import random

from . import core, tlc, mgmodel

CLAUSES = {
    "C10": {"P1_ViewsAgree", "P2_NodeKnowsItsColumns", "P3_ColumnKnowsItsConnections", "P4_ConnectionNodesAreTheSharedEdge",
            "P5_ColumnsWellFormed", "P6_BlockNamesCurrent", "P7_ValidMesh", "P6_names_recomputation", "raised"},
    "C11": {"C11_AreaConserved", "C11_VolumeConserved", "C11_Tiling", "C11_Conforming", "P7_ValidMesh"},
}


def run(pid, tier):
    """The geometry object graph is deeply linked (columns <-> neighbours <-> nodes): copying it needs a deep
    recursion, so the check runs in a thread with a large stack."""
    import sys
    import threading
    out = {}

    def body():
        try:
            out["rc"] = _run(pid, tier)
        except BaseException as e:          # re-raised in the main thread
            out["exc"] = e
    sys.setrecursionlimit(1000000)
    threading.stack_size(1024 * 1024 * 1024)
    th = threading.Thread(target=body)
    th.start()
    th.join()
    if "exc" in out:
        raise out["exc"]
    return out["rc"]


def _run(pid, tier):
    rep = core.Report(pid, tier, "model_checking")
    quick = tier == "quick"
    mine = CLAUSES[pid]
    rng = random.Random(core.seed() + 1010)
    m = core.repo_modules("mulgrids")
    # ---- MC: the exactly specified edits keep every invariant and conservation clause on a small lattice mesh
    depth = 3 if quick else 4
    mcmod = open(os.path.join(tlc.SPECS, "MC_MulgridADT.tla")).read().replace("TLCGet(\"level\") <= 4", "TLCGet(\"level\") <= %d" % depth)
    r = tlc.run_tlc("MC_MulgridADT", "MC_MulgridADT.cfg", workers=16, timeout=3000, extra_modules={"MC_MulgridADT.tla": mcmod})
    rep.add_tlc("MC_MulgridADT depth<=%d (rename/delete/set_surface/split on two squares): P1-P7, conforming, area/volume/tiling" % depth, r)
    if r.violated:
        raise tlc.MachineryError("MulgridADT violates " + str(r.violated))
    traces, meta = [], []
    # ---- S2C: every behaviour of the model (the exactly specified edits on two squares) up to that depth is driven through the
    # real mulgrid; the recorded executions join the traces validated below, so each step is matched against its action
    paths_mod = ("---- MODULE MC_MulgridPaths ----\nEXTENDS MC_MulgridADT, Json\nVARIABLE path\n"
                 "PInit == MCInit /\\ path = <<>>\n"
                 "PNext == Next /\\ path' = Append(path, [op |-> last'.op, args |-> last'.args])\n"
                 "PDepth == TLCGet(\"level\") <= %d\n"
                 "Emit == path = <<>> \\/ PrintT(\"EMIT\" \\o ToJson(path))\n====\n" % depth)
    paths_cfg = ('CONSTANTS AtmType = 0\nAtmCol = "ATM"\nFreshNames = {"  x", "  y"}\nINIT PInit\nNEXT PNext\nCONSTRAINT PDepth\n'
                 'CONSTRAINT Emit\nCHECK_DEADLOCK FALSE\n')
    rp = tlc.run_tlc("MC_MulgridPaths", None, cfg_text=paths_cfg, workers=1, timeout=3000, heap="8g",
                     extra_modules={"MC_MulgridPaths.tla": paths_mod, "MC_MulgridADT.tla": mcmod}, allow_violation=False)
    rep.add_tlc("MC_MulgridPaths depth<=%d: every behaviour of the exactly specified edits exported for replay" % depth, rp)
    seen_paths, todo = set(), []
    for path in rp.emitted:
        k_ = json.dumps(path)
        if k_ not in seen_paths:
            seen_paths.add(k_)
            todo.append(path)
    if len(todo) > 4000:
        short_ = [p_ for p_ in todo if len(p_) < depth - 1]
        long_ = [p_ for p_ in todo if len(p_) >= depth - 1]
        rng.shuffle(long_)
        todo = short_ + long_[:4000 - len(short_)]
    base2 = mgmodel.Adapter(mgmodel.lattice_mesh("2sq"))
    base2.project()
    import copy as _cp
    nreplayed = 0
    for path in todo:
        ad = _cp.deepcopy(base2)
        names = {}                      # the model's fresh column names -> the names the library chose
        t = mgmodel.record(ad, [])
        ok = True
        for a in path:
            args = list(a["args"])
            nm = lambda x: names.get(x, x)
            if a["op"] == "rename_column":
                act = {"op": "rename_column", "args": [nm(args[0]), args[1]]}
                names[args[1]] = args[1]
                if args[0] in names and names[args[0]] != args[0]:
                    pass
            elif a["op"] == "delete_column":
                act = {"op": "delete_column", "args": [nm(args[0])]}
            elif a["op"] == "set_surface":
                act = {"op": "set_surface", "args": [nm(args[0]), int(args[1])]}
            elif a["op"] == "split_column":
                act = {"op": "split_column", "args": [nm(args[0]), args[1]]}
            else:
                ok = False
                break
            if act["op"] == "rename_column" and act["args"][1] in ad.geo.column:
                ok = False              # the library's own choice of a new name already took the model's fresh name
                break
            step = mgmodel.record(ad, [act])[1:]
            t = t + step
            if "error" in step[-1]:
                break
            if a["op"] == "split_column":
                got = step[-1]["act"]
                if got["op"] != "split_column":
                    if "raised" in mine:
                        rep.violation("s2c:split_column:refused", "raised", {"mesh": "2sq", "actions": [x["act"] for x in t],
                                                                            "difference": "the model splits this column, the library refuses"})
                    ok = False
                    break
                names[args[2]] = got["args"][2]
            if a["op"] == "rename_column":
                for k2 in list(names):
                    if names[k2] == act["args"][0]:
                        names[k2] = args[1]
        if ok:
            traces.append(t)
            meta.append(("2sq-s2c", t))
            nreplayed += 1
    rep.extra["s2c_behaviours_replayed"] = nreplayed
    # ---- C2S (a): exhaustive short operation sequences on small lattice meshes
    meshes = ["2x2", "3x2", "mixed", "trap"] if quick else ["2x2", "3x2", "3x3", "mixed", "trap"]
    for kind in meshes:
        import copy
        try:
            base = mgmodel.Adapter(mgmodel.lattice_mesh(kind))
        except Exception as e:
            # building the mesh is itself an in-domain edit sequence (rectangular, split_column, refine)
            if "raised" in mine:
                rep.violation("mesh:%s:raises" % kind, "raised", {"mesh": kind, "error": repr(e),
                                                                     "actions": ["rectangular", "split_column", "refine"]})
            continue
        base.project()
        ops1 = mgmodel.op_alphabet(base.geo, rng, rich=not quick)
        for a in ops1:
            ad = copy.deepcopy(base)
            t1 = mgmodel.record(ad, [a])
            traces.append(t1)
            meta.append((kind, t1))
            if "error" in t1[-1]:
                continue
            ops2 = mgmodel.op_alphabet(ad.geo, rng, rich=False)
            if quick:
                # (a first operation that leaves something for a later one to tidy up is always followed by the operations
                # that promise a valid mesh)
                keep2 = [o for o in ops2 if o["op"] in ("reduce", "check")] if a["op"] in ("delete_column", "add_node", "connect") else []
                ops2 = rng.sample(ops2, min(len(ops2), 5)) + keep2
            for b in ops2:
                ad2 = copy.deepcopy(ad)
                t2 = t1[:-1] + [dict(t1[-1])] + mgmodel.record(ad2, [b])[1:]
                if not quick and "error" not in t2[-1]:
                    c3 = rng.choice(mgmodel.op_alphabet(ad2.geo, rng, rich=False))
                    t2 = t2 + mgmodel.record(ad2, [c3])[1:]
                traces.append(t2)
                meta.append((kind, t2))
    # ---- C2S (a'): the refinement-region lattice: every subset of the columns of a 3x3 mesh (single columns, strips, L- and
    # U-shapes, regions touching the boundary, regions with holes), full refinement and bisections; 4x3 subsets sampled
    import copy as _copy
    import itertools as _it
    base33 = mgmodel.Adapter(mgmodel.lattice_mesh("3x3"))
    base33.project()
    names33 = [c_.name for c_ in base33.geo.columnlist]
    subsets = [list(s_) for k in range(1, 10) for s_ in _it.combinations(names33, k)]
    if quick:
        rng.shuffle(subsets)
        subsets = subsets[:120]
    for sub in subsets:
        mode = rng.choice([False, False, "x", "y", True])
        ad = _copy.deepcopy(base33)
        t = mgmodel.record(ad, [{"op": "refine", "args": [sub, mode, "all" if mode and rng.random() < 0.5 else False]}])
        traces.append(t)
        meta.append(("3x3-subset", t))
    base43 = mgmodel.Adapter(mgmodel.lattice_mesh("4x3"))
    base43.project()
    names43 = [c_.name for c_ in base43.geo.columnlist]
    for _ in range(40 if quick else 1500):
        sub = rng.sample(names43, rng.randint(1, 11))
        ad = _copy.deepcopy(base43)
        t = mgmodel.record(ad, [{"op": "refine", "args": [sub, False, False]}])
        traces.append(t)
        meta.append(("4x3-subset", t))
    # bisection with several edge columns (wide and tall columns side by side)
    basewt = mgmodel.Adapter(mgmodel.lattice_mesh("wt"))
    basewt.project()
    nameswt = [c_.name for c_ in basewt.geo.columnlist]
    for k in range(1, 4):
        for sub in _it.combinations(nameswt, k):
            for mode in (True, "x", "y"):
                for edge in (False, True, "all"):
                    ad = _copy.deepcopy(basewt)
                    t = mgmodel.record(ad, [{"op": "refine", "args": [list(sub), mode, edge]}])
                    traces.append(t)
                    meta.append(("wt", t))
    basewt2 = mgmodel.Adapter(mgmodel.lattice_mesh("wt2"))
    basewt2.project()
    cl = basewt2.geo.columnlist
    pairs = [[cl[5].name, cl[6].name], [cl[5].name], [cl[6].name], [cl[1].name, cl[5].name], [cl[4].name, cl[5].name, cl[6].name]]
    for sub in pairs:
        for mode in (True, "x", "y"):
            for edge in (False, True, "all"):
                ad = _copy.deepcopy(basewt2)
                t = mgmodel.record(ad, [{"op": "refine", "args": [list(sub), mode, edge]}])
                traces.append(t)
                meta.append(("wt2", t))
    # decomposition of 5..8-sided columns with 1..4 straight angles, for every start of the node cycle
    mm = core.repo_modules("mulgrids")
    for k in range(1, 5):
        for sides in _it.combinations(range(4), k):
            for rot in range(4 + k):
                if quick and k < 3 and rot % 3:
                    continue
                geo = mgmodel.poly_mesh(mm, 0, sides, rot)
                ad = mgmodel.Adapter(geo)
                t = mgmodel.record(ad, [{"op": "decompose_columns", "args": [[geo.columnlist[0].name]]}])
                traces.append(t)
                meta.append(("poly%d" % (4 + k), t))
                geo = mgmodel.poly_mesh(mm, 0, sides, rot)
                ad = mgmodel.Adapter(geo)
                t = mgmodel.record(ad, [{"op": "decompose_columns", "args": [[], 0, rot % 2 == 1]}])
                traces.append(t)
                meta.append(("poly%d" % (4 + k), t))
                if rot == 0:
                    # the same with the top of the model above zero and the many-sided column's surface exactly at 0.0
                    geo = mgmodel.poly_mesh(mm, 0, sides, rot)
                    with core.quiet():
                        geo.translate(np.array([0.0, 0.0, 20.0]))
                        geo.columnlist[0].surface = 0.0
                        geo.set_column_num_layers(geo.columnlist[0])
                        geo.setup_block_name_index()
                        geo.setup_block_connection_name_index()
                    ad = mgmodel.Adapter(geo)
                    t = mgmodel.record(ad, [{"op": "decompose_columns", "args": [[geo.columnlist[0].name]]}])
                    traces.append(t)
                    meta.append(("poly%d-surface0" % (4 + k), t))
    # refinement followed by splitting the quadrilaterals the refinement made (the new columns' own bookkeeping is used)
    for kind_ in ("3x2", "3x3") if quick else ("2x2", "3x2", "3x3", "wt"):
        base_ = mgmodel.Adapter(mgmodel.lattice_mesh(kind_))
        base_.project()
        old_names = set(c_.name for c_ in base_.geo.columnlist)
        names_ = [c_.name for c_ in base_.geo.columnlist]
        for sub in ([names_[0], names_[1]], [names_[-1]], names_[:len(names_) // 2]):
            ad = _copy.deepcopy(base_)
            t = mgmodel.record(ad, [{"op": "refine", "args": [sub, False, False]}])
            if "error" in t[-1]:
                traces.append(t)
                meta.append((kind_ + "-refine-split", t))
                continue
            newq = [c_ for c_ in ad.geo.columnlist if c_.name not in old_names and c_.num_nodes == 4]
            for c_ in (rng.sample(newq, min(len(newq), 3 if quick else 8))):
                ad2 = _copy.deepcopy(ad)
                c2 = ad2.geo.column[c_.name]
                t2 = t[:-1] + [dict(t[-1])] + mgmodel.record(ad2, [{"op": "split_column", "args": [c2.name, c2.node[rng.randrange(4)].name]}])[1:]
                traces.append(t2)
                meta.append((kind_ + "-refine-split", t2))
    # snapping a subset of columns in which the column snapped is not the last one listed
    for kind_ in ("2x2", "3x2"):
        base_ = mgmodel.Adapter(mgmodel.lattice_mesh(kind_))
        base_.project()
        nm_ = [c_.name for c_ in base_.geo.columnlist]
        zb = int(round(base_.geo.layerlist[1].bottom / mgmodel.H))       # (the first layer's bottom: the column snaps down one layer)
        for sub in ([nm_[0], nm_[1]], [nm_[0], nm_[-1], nm_[2]], [nm_[2], nm_[0]]):
            ad = _copy.deepcopy(base_)
            t = mgmodel.record(ad, [{"op": "set_surface", "args": [nm_[0], zb + 1]}, {"op": "snap_columns_to_layers", "args": [2, sub]}])
            traces.append(t)
            meta.append((kind_ + "-snap-subset", t))
    # the top of the model above zero, a column surface of exactly 0.0 strictly inside a layer, layers refined (by 4: one of the
    # new layers then lies wholly above that surface)
    for factor in (2, 3, 4):
        geo = mgmodel.lattice_mesh("2x2")
        with core.quiet():
            geo.translate(np.array([0.0, 0.0, 15.0]))
            geo.columnlist[0].surface = 0.0
            geo.set_column_num_layers(geo.columnlist[0])
            geo.setup_block_name_index()
            geo.setup_block_connection_name_index()
        ad = mgmodel.Adapter(geo)
        t = mgmodel.record(ad, [{"op": "refine_layers", "args": [[l_.name for l_ in geo.layerlist[1:]], factor]}])
        traces.append(t)
        meta.append(("2x2-surface0", t))
    # a triangle with two extra nodes on one side (five nodes, two adjacent straight angles), every start of its node cycle
    for rot in range(5):
        for args in ([["  a"]], [[]]):
            geo = mgmodel.tri2_mesh(mm, 0, rot)
            ad = mgmodel.Adapter(geo)
            t = mgmodel.record(ad, [{"op": "decompose_columns", "args": [[geo.columnlist[0].name]] if args[0] else [[]]}])
            traces.append(t)
            meta.append(("tri2", t))
    # ---- C2S (b): random sequences on larger lattice meshes
    for _ in range(3 if quick else 30):
        nx, ny = rng.randint(3, 7 if quick else 12), rng.randint(2, 6 if quick else 12)
        with core.quiet():
            geo = m.mulgrid().rectangular([10.0] * nx, [10.0] * ny, [10.0, 10.0, 20.0], atmos_type=0)
        ad = mgmodel.Adapter(geo)
        seq = []
        tr = [{"act": {"op": "init", "args": []}, "state": ad.project(), "names_ok": ad.names_current(), "totals": mgmodel.totals(ad.geo)}]
        for _ in range(rng.randint(4, 8 if quick else 25)):
            if len(ad.geo.columnlist) > 300:
                break
            a = dict(rng.choice(mgmodel.op_alphabet(ad.geo, rng, rich=True)))
            try:
                ad.apply(a)
            except Exception as e:
                tr.append({"act": a, "state": ad.project(), "error": repr(e), "names_ok": True})
                break
            tr.append({"act": a, "state": ad.project(), "names_ok": ad.names_current(), "totals": mgmodel.totals(ad.geo)})
        traces.append(tr)
        meta.append(("rect%dx%d" % (nx, ny), tr))
    # ---- C2S (c): shipped geometries (off the lattice: topological clauses by TLC, geometric ones as leaves)
    shipped = sorted(glob.glob(os.path.join(core.REPO, "tests", "mulgrid", "g*.dat")))
    for f in shipped:
        try:
            with core.watchdog(120), core.quiet():
                geo = m.mulgrid(f)
        except Exception:
            continue
        if geo.num_columns > (150 if quick else 400) or geo.convention != 0 or geo.atmosphere_type != 0:
            continue
        ad = mgmodel.Adapter(geo, lattice=False)
        tr = [{"act": {"op": "init", "args": []}, "state": ad.project(), "names_ok": ad.names_current(), "totals": mgmodel.totals(ad.geo)}]
        for _ in range(3 if quick else 10):
            ops = [o for o in mgmodel.op_alphabet(ad.geo, rng, rich=True) if o["op"] not in ("set_surface", "translate", "snap_columns_to_layers")]
            a = dict(rng.choice(ops))
            try:
                with core.watchdog(300):
                    ad.apply(a)
            except Exception as e:
                tr.append({"act": a, "state": ad.project(), "error": repr(e), "names_ok": True})
                break
            tr.append({"act": a, "state": ad.project(), "names_ok": ad.names_current(), "totals": mgmodel.totals(ad.geo)})
            if ad.geo.num_columns > 400:
                break
        traces.append(tr)
        meta.append((os.path.basename(f), tr))
    clean = [[{"act": e["act"], "state": e["state"]} for e in t] for t in traces]
    found, tr_ = mgmodel.validate(clean, 0)
    if tr_ is not None:
        rep.add_tlc("MulgridADTTrace (%d recorded traces, %d states)" % (len(clean), sum(len(t) for t in clean)), tr_)
    rep.traces += len(clean)
    by_tid = {}
    for f in found:
        by_tid.setdefault(f["tid"], []).append(f)
    ndrift = 0
    failing_tids = set()
    for tid in sorted(by_tid):
        kind, t = meta[tid]
        fs = sorted(by_tid[tid], key=lambda f: (f["l"], f["kind"] != "step"))
        first_bad = min([f["l"] for f in fs if f["kind"] == "state" and f["failing"]] or [10 ** 9])
        for f in fs:
            if f["l"] > first_bad:
                break
            act = t[f["l"]]["act"]
            if f["failing"]:
                failing_tids.add(tid)
            bad = [c for c in f["failing"] if c in mine]
            if bad:
                rep.violation(act["op"], ",".join(bad),
                              {"mesh": kind, "actions": [e["act"] for e in t[:f["l"] + 1]],
                               "failing": f["failing"]})
            elif f["drift"] and not f["failing"] and not any(g["l"] == f["l"] and g["failing"] for g in fs) \
                    and t[f["l"]]["state"].get("lattice", True) and t[max(0, f["l"] - 1)]["state"].get("lattice", True):
                # (on states off the lattice the projected coordinates are rounded: the exact actions are not compared there)
                ndrift += 1
                if ndrift <= 5:
                    rep.drifted("%s step %s (after %s) not explained by MulgridADT's action (all clauses hold)"
                                % (kind, json.dumps(act)[:160], json.dumps([e_["act"] for e_ in t[1:f["l"]]])[:200]))
    for tid, (kind, t) in enumerate(meta):
        first_bad = min([f["l"] for f in by_tid.get(tid, []) if f["failing"]] or [10 ** 9])
        for l, e in enumerate(t):
            if l > first_bad:
                break
            if not e.get("names_ok", True) and "P6_names_recomputation" in mine:
                rep.violation(e["act"]["op"], "P6_names_recomputation", {"mesh": kind, "actions": [x["act"] for x in t[:l + 1]]})
                break
        if "P1_ViewsAgree" in mine:
            for l in range(1, len(t)):
                if l > first_bad or "totals" not in t[l]:
                    break
                if not t[l]["totals"].get("wells_ok", True) or not t[l]["totals"].get("layers_ok", True):
                    which = "well" if not t[l]["totals"].get("wells_ok", True) else "layer"
                    rep.violation(t[l]["act"]["op"] + ":" + which + "s", "P1_ViewsAgree",
                                  {"mesh": kind, "actions": [x["act"] for x in t[:l + 1]],
                                   "difference": "%s lookup and %s list disagree (or two %ss share a name)" % (which, which, which)})
                    break
        # conservation as a floating-point leaf (decides states off the lattice, e.g. layers refined by 3, shipped geometries)
        for l in range(1, len(t)):
            if l > first_bad or "totals" not in t[l] or "totals" not in t[l - 1] or "error" in t[l]:
                break
            if t[l]["act"]["op"] not in ("refine", "decompose_columns", "split_column", "refine_layers"):
                continue
            a0, a1 = t[l - 1]["totals"], t[l]["totals"]
            bad = []
            if "C11_AreaConserved" in mine and (abs(a1["area"] - a0["area"]) > 1e-9 * a0["area"] or abs(a1["cached_area"] - a0["cached_area"]) > 1e-9 * a0["area"]
                                                or a1["worst_cached_area_error"] > 1e-9):
                bad.append("C11_AreaConserved")
            if "C11_VolumeConserved" in mine and (abs(a1["volume"] - a0["volume"]) > 1e-9 * abs(a0["volume"]) or abs(a1["cached_volume"] - a0["cached_volume"]) > 1e-9 * abs(a0["volume"])
                                                  or abs(a1.get("library_volume", a1["volume"]) - a0.get("library_volume", a0["volume"])) > 1e-9 * abs(a0["volume"])):
                bad.append("C11_VolumeConserved")
            if bad:
                rep.violation(t[l]["act"]["op"] + ":totals", ",".join(bad), {"mesh": kind, "actions": [x["act"] for x in t[:l + 1]], "before": a0, "after": a1})
                break
        if "error" in t[-1] and "raised" in mine and tid not in failing_tids:
            rep.violation(t[-1]["act"]["op"] + ":raises", "raised",
                          {"mesh": kind, "actions": [x["act"] for x in t], "error": t[-1]["error"]})
        for e in t[1:]:
            rep.case((kind, json.dumps([x["act"] for x in t[:t.index(e) + 1]], sort_keys=True)))
    for t in traces[:2]:
        rep.sample({"actions": [e["act"] for e in t[1:4]]})
    rep.extra["spec_drift_steps"] = ndrift
    rep.extra["recorded_steps"] = sum(len(t) - 1 for t in traces)
    rep.rule = ("every operation of the edit alphabet (refine with several column subsets and bisect modes, decompose, split, rename, "
                "delete, reduce, set surface, refine layers, translate, rotate, check(fix), snap, delete orphans) applied to 2x2, 3x2 "
                "and a mixed triangle/quad/pentagon lattice mesh, followed by a second (thorough: and third) operation; random "
                "sequences on rectangular meshes up to 300 columns; shipped geometries; distinct = (mesh, operation sequence)")
    rep.leaves = ["block / connection name lists compared with a recomputation on a deep copy",
                  "total plan area and rock volume before / after refine, decompose, split and refine_layers in floating point (1e-9), from node coordinates and from the cached column areas",
                  "off-lattice states (shipped geometries, third-level refinements): orientation, area, tiling and conformity not evaluated"]
    rep.assumptions = ["convention 0, atmosphere type 0 in recorded traces", "operations applied with arguments their docstrings allow"]
    rep.exhaustive = False
    return rep.finish()


def replay(pid, path):
    print(json.dumps(json.load(open(path))["detail"], indent=1)[:3000])
    return 0
