"""Builds real t2data objects from T2DataFile.tla documents, canonicalises t2data objects for
comparison (the "abstract equality" of DESIGN section 3, C01) and abstracts recorded write events
into the spec's record stream."""
import numpy as np

from . import core

# numbers that every field of the format tables carries exactly (<= 4 significant digits, 2-digit exponents)
NUMS = [1.0, 2.5, 0.125, 1.5e-15, 3.25e5, 7.75e-3, 6.0e10, 4.5e-7, 12.5, 100.0, 9.875e2, 2.0e-12, 0.5, 3.0e3, 8.25e-9, 1.013e5]


def num(rng):
    return rng.choice(NUMS)


BLOCKS = ["AA  1", "AA  2", "AB105", " b 12", "zz 99", "a 123"]
ROCKS = ["rock1", "ROCK2", "xy  3"]


def build(doc, flavour, rng):
    """doc: {"secs": [...], "endkw": ...} as emitted by TLC.  Returns a t2data object whose _sections
    order is the document's."""
    t2data, t2grids = core.repo_modules("t2data", "t2grids")
    dat = t2data.t2data()
    dat.title = "verification model %d" % rng.randint(0, 9999)
    kinds = [s["kind"] for s in doc["secs"]]
    grid = dat.grid
    need_grid = any(k in kinds for k in ("ELEME", "CONNE", "SHORT", "FOFT", "COFT", "GOFT", "INCON", "GENER"))
    rocks_sec = next((s for s in doc["secs"] if s["kind"] == "ROCKS"), None)
    for s in doc["secs"]:
        k = s["kind"]
        if k == "SIMUL":
            dat.simulator = "AUTOUGH2.2EW"
        elif k == "ROCKS":
            for i, nad in enumerate(s["nads"]):
                rt = t2grids.rocktype(ROCKS[i], nad, rng.choice([2600.0, 2500.0, 1.0e3]), 0.125, [num(rng), num(rng), num(rng)], 2.5, 1000.0)
                if nad >= 1:
                    rt.compressibility, rt.expansivity, rt.dry_conductivity, rt.tortuosity = num(rng), num(rng), 1.5, 0.5
                    if rng.random() < 0.5:
                        rt.klinkenberg = num(rng)
                if nad >= 2:
                    rt.relative_permeability = {"type": rng.randint(1, 8), "parameters": [num(rng) for _ in range(rng.randint(1, 7))]}
                    rt.capillarity = {"type": rng.randint(1, 8), "parameters": [num(rng) for _ in range(rng.randint(1, 7))]}
                grid.add_rocktype(rt)
        elif k == "PARAM":
            p = dat.parameter
            p.update({"max_iterations": 8, "print_level": 2, "max_timesteps": 999, "max_duration": 0, "print_interval": 50,
                      "texp": 1.8, "be": 2.5, "tstart": 0.0, "tstop": 3.25e5, "max_timestep": 6.0e10,
                      "print_block": rng.choice([None, "AA  1", "AB105"]), "gravity": 9.875, "timestep_reduction": 4.0,
                      "scale": 1.0, "relative_error": 1.5e-5, "absolute_error": 1.0, "upstream_weight": 1.0,
                      "newton_weight": 1.0, "derivative_increment": 1.0e-8})
            if flavour == "AUTOUGH2":
                p["diff0"] = 2.5e-5
            p["option"] = np.array([0] + [rng.randint(0, 9) for _ in range(24)], np.int8)
            if s["nts"] > 0:
                p["const_timestep"] = -float(s["nts"])
                n = rng.choice([8 * s["nts"], 8 * s["nts"] - 1, 8 * (s["nts"] - 1) + 1])
                p["timestep"] = [num(rng) for _ in range(n)]
            else:
                p["const_timestep"] = 1.0e3
                p["timestep"] = [1.0e3]
            p["default_incons"] = [num(rng) for _ in range(s["ninc"])]
        elif k == "MOMOP":
            dat.more_option = np.array([0] + [rng.randint(0, 9) for _ in range(21)], np.int8)
            dat.more_option[rng.randint(1, 21)] = 3
            if rng.random() < 0.3:
                # a single option set, now and then the last one
                dat.more_option[:] = 0
                dat.more_option[rng.choice([21, 21, 1, rng.randint(1, 21)])] = rng.randint(1, 9)
        elif k == "START":
            dat.start = True
        elif k == "NOVER":
            dat.noversion = True
        elif k == "RPCAP":
            dat.relative_permeability = {"type": 3, "parameters": [num(rng) for _ in range(rng.randint(1, 7))]}
            dat.capillarity = {"type": 7, "parameters": [num(rng) for _ in range(rng.randint(1, 7))]}
        elif k == "LINEQ":
            dat.lineq = {"type": 2, "epsilon": 1.0e-11, "max_iterations": 999, "gauss": 1, "num_orthog": 100}
        elif k == "SOLVR":
            dat.solver = {"type": 5, "z_precond": "Z1", "o_precond": "O0", "relative_max_iterations": 0.125, "closure": 1.0e-6}
        elif k == "MULTI":
            # (the numbers of components and of phases need not be equal: DIFFU holds components x phases)
            dat.multi = {"num_components": s["ncomp"], "num_equations": 3, "num_phases": rng.choice([2, 2, 3, 1]), "num_secondary_parameters": 6}
            if flavour == "AUTOUGH2":
                dat.multi["eos"] = "EW"
            else:
                dat.multi["num_inc"] = 3
        elif k == "TIMES":
            dat.output_times = {"num_times_specified": s["n"], "num_times": s["n"] + 2, "max_timestep": 1.0e5,
                                "time_increment": 2.5, "time": [float(i + 1) * 1.0e3 for i in range(s["n"])]}
        elif k == "SELEC":
            dat.selection = {"integer": [s["n"]] + [rng.randint(0, 9) for _ in range(15)],
                             "float": [num(rng) for _ in range(8 * s["n"] - rng.choice([0, 1, 7]))]}
        elif k == "DIFFU":
            nph = (dat.multi or {}).get("num_phases", 2)
            dat.diffusion = [[num(rng) for _ in range(nph)] for _ in range(s["n"])]
        elif k == "MESHM":
            v = {3: 0, 4: 1, 5: 2, 6: 3}[s["n"]]
            if v == 3:
                # two modules in one section: RZ2D followed by MINC
                dat.meshmaker = [("rz2d", [("radii", {"radii": [float(i) for i in range(4)]}), ("equid", {"nequ": 5, "dr": 2.5}),
                                           ("layer", {"layer": [10.0, 20.0]})]),
                                 ("minc", {"type": "ONE-D", "dual": "DFLT", "num_continua": 3, "where": "OUT ",
                                           "spacing": [2.5, 12.5], "vol": [0.125, 0.5]})]
            elif v == 0:
                dat.meshmaker = [("rz2d", [("radii", {"radii": [float(i) for i in range(rng.choice([3, 8, 9]))]}),
                                           ("equid", {"nequ": 5, "dr": 2.5}), ("logar", {"nlog": 10, "rlog": 1.0e3, "dr": 0.5}),
                                           ("layer", {"layer": [float(10 * (i + 1)) for i in range(rng.choice([1, 8, 10]))]})])]
            elif v == 1:
                dat.meshmaker = [("xyz", [30.0, {"ntype": "NX", "no": 3, "del": 100.0},
                                          {"ntype": "NY", "no": 9, "del": 0.0, "deli": [float(i + 1) for i in range(9)]},
                                          {"ntype": "NZ", "no": 2, "del": 12.5}])]
            else:
                dat.meshmaker = [("minc", {"type": "ONE-D", "dual": "DFLT", "num_continua": 3, "where": "OUT ",
                                           "spacing": [2.5, 12.5], "vol": [0.125, 0.5] + ([0.5] * rng.choice([0, 7]))})]
    # grid content
    elem = next((s for s in doc["secs"] if s["kind"] == "ELEME"), None)
    conn = next((s for s in doc["secs"] if s["kind"] == "CONNE"), None)
    if not grid.rocktypelist and (elem or need_grid):
        pass
    nblk = elem["n"] if elem else 0
    blks = []
    for i in range(nblk):
        rt = grid.rocktypelist[i % len(grid.rocktypelist)] if grid.rocktypelist else t2grids.rocktype()
        centre = None if i % 2 else np.array([float(i), 2.5, -12.5])
        b = t2grids.t2block(BLOCKS[i], num(rng), rt, centre=centre, ahtx=(1.5 if i == 0 else None),
                            nseq=(None if i else 2), nadd=(None if i else 1))
        grid.add_block(b)
        blks.append(b)
    ncon = min(conn["n"] if conn else 0, max(0, nblk - 1))
    for i in range(ncon):
        c = t2grids.t2connection([blks[i], blks[i + 1]], rng.choice([1, 2, 3]), [num(rng), num(rng)], num(rng),
                                 rng.choice([-1.0, 0.0, 1.0]), sigma=(0.5 if i == 0 else None),
                                 nseq=(3 if i == 0 else None), nad1=(1 if i == 0 else None), nad2=(1 if i == 0 else None))
        grid.add_connection(c)
    for s in doc["secs"]:
        k = s["kind"]
        if k == "GENER":
            for i, g in enumerate(s["gens"]):
                nt = g["ltab"] if g["ltab"] > 0 and not g["delv"] else 1
                tab = nt > 1
                gen = t2data.t2generator(name="ge%3d" % (i + 1), block=BLOCKS[i % max(1, nblk)] if nblk else BLOCKS[i % 3],
                                         type="DELV" if g["delv"] else "MASS", ltab=g["ltab"] or None,
                                         itab=("x" if g["enth"] else ""), gx=num(rng), ex=num(rng),
                                         nseq=(None if i else 1), nadd=(None if i else 1), nads=None,
                                         hg=(num(rng) if g["delv"] else None), fg=None,
                                         time=[float(j) * 1.0e3 for j in range(nt)] if tab else [],
                                         rate=[num(rng) for _ in range(nt)] if tab else [],
                                         enthalpy=[num(rng) for _ in range(nt)] if (tab and g["enth"]) else [])
                dat.add_generator(gen)
        elif k == "SHORT":
            so = {"frequency": rng.choice([None, 5, 12])}
            if so["frequency"] is None:
                del so["frequency"]
            if s["b"] > 0:
                so["block"] = [blks[i % nblk] for i in range(min(s["b"], nblk))]
            if s["c"] > 0:
                so["connection"] = [grid.connectionlist[i % ncon] for i in range(min(s["c"], ncon))]
            if s["g"] > 0:
                so["generator"] = [dat.generatorlist[i] for i in range(min(s["g"], len(dat.generatorlist)))]
            dat.short_output = so
        elif k == "FOFT":
            dat.history_block = [blks[i % nblk] for i in range(min(s["n"], nblk))]
        elif k == "COFT":
            dat.history_connection = [grid.connectionlist[i % ncon] for i in range(min(s["n"], ncon))]
        elif k == "GOFT":
            dat.history_generator = [blks[i % nblk] for i in range(min(s["n"], nblk))]
        elif k == "INCON":
            for i in range(min(s["n"], nblk)):
                vals = [num(rng) for _ in range(rng.randint(1, 4))]
                # porosity only; both counters; NSEQ with NADD left blank (the counters are separate optional fields)
                dat.incon[BLOCKS[i]] = [[None, vals, 2, 1], [0.125, vals], [None, vals, 3, None], [0.25, vals, 7, 2]][(i + len(vals)) % 4]
        elif k == "INDOM":
            for i in range(s["n"]):
                dat.indom[ROCKS[i]] = [num(rng) for _ in range(rng.randint(1, 4))]
    dat._sections = list(kinds)
    dat.end_keyword = doc["endkw"]
    return dat


# ---------------------------------------------------------------- canonical form for comparison
def _trim(lst):
    lst = list(lst)
    while lst and lst[-1] is None:
        lst.pop()
    return lst


def _f(x):
    if x is None:
        return None
    if isinstance(x, (np.floating, float)):
        return float(x)
    if isinstance(x, (np.integer, int)):
        return int(x)
    if isinstance(x, str):
        return x.strip()
    return x


def _d(d, skip=()):
    return dict((k, _f(v)) for k, v in d.items() if v is not None and not k.startswith("_") and k not in skip
                and not (isinstance(v, str) and not v.strip()))


def canon(dat, binary_mesh=False, sections=None):
    """Abstract content of a t2data object: None == absent key, strings compared stripped, trailing None trimmed,
    objects in SHORT/FOFT/COFT/GOFT compared by the names they resolve to."""
    g = dat.grid

    def opt(x):
        return (0.0 if x is None else float(x)) if binary_mesh else _f(x)
    # sections: the section list the caller built the object with (the library's own bookkeeping is what is under test)
    secs = list(dat._sections) if sections is None else list(sections)
    out = {"title": dat.title.strip(), "simulator": dat.simulator.strip(), "sections": secs,
           "end": dat.end_keyword}
    out["rocks"] = [{"name": r.name, "nad": r.nad or 0, "density": _f(r.density), "porosity": _f(r.porosity),
                     "perm": [_f(x) for x in r.permeability], "cond": _f(r.conductivity), "sh": _f(r.specific_heat),
                     "extra": ([_f(getattr(r, a, None)) or 0.0 for a in ("compressibility", "expansivity", "dry_conductivity", "tortuosity")]
                               + [_f(getattr(r, "klinkenberg", None))]) if (r.nad or 0) >= 1 else None,
                     "rp": ([r.relative_permeability.get("type"), _trim(r.relative_permeability.get("parameters", []))],
                            [r.capillarity.get("type"), _trim(r.capillarity.get("parameters", []))]) if (r.nad or 0) >= 2 else None}
                    for r in g.rocktypelist]
    p = dict(dat.parameter)
    out["param"] = {"scalars": _d(p, skip=("option", "timestep", "default_incons", "const_timestep")),
                    "option": [int(x) for x in p["option"]], "const_timestep": _f(p["const_timestep"]),
                    "timestep": [_f(x) for x in p["timestep"]] if p["const_timestep"] < 0 else None,
                    "default_incons": [_f(x) for x in _trim(p["default_incons"])]} if "PARAM" in secs else None
    out["momop"] = [int(x) for x in dat.more_option] if "MOMOP" in secs else None
    out["start"], out["nover"] = bool(dat.start), bool(dat.noversion)
    out["rpcap"] = ([dat.relative_permeability.get("type"), _trim(dat.relative_permeability.get("parameters", []))],
                    [dat.capillarity.get("type"), _trim(dat.capillarity.get("parameters", []))]) if dat.relative_permeability else None
    out["lineq"], out["solver"], out["multi"] = _d(dat.lineq), _d(dat.solver), _d(dat.multi)
    out["times"] = dict(_d(dat.output_times, skip=("time",)), time=[_f(x) for x in dat.output_times.get("time", [])]) if dat.output_times else None
    out["selec"] = {"integer": _trim(dat.selection["integer"]), "float": _trim(dat.selection["float"])} if dat.selection else None
    out["diffu"] = [[_f(x) for x in row] for row in dat.diffusion]
    out["blocks"] = [{"name": b.name, "rock": b.rocktype.name, "vol": _f(b.volume), "ahtx": opt(b.ahtx), "pmx": opt(b.pmx),
                      "centre": None if b.centre is None else [float(x) for x in b.centre],
                      "nseq": None if binary_mesh else b.nseq, "nadd": None if binary_mesh else b.nadd} for b in g.blocklist]
    out["conns"] = [{"b": [c.block[0].name, c.block[1].name], "dir": int(c.direction), "dist": [_f(x) for x in c.distance],
                     "area": _f(c.area), "cos": _f(c.dircos), "sigma": opt(c.sigma),
                     "seq": None if binary_mesh else [c.nseq, c.nad1, c.nad2]} for c in g.connectionlist]
    out["meshmaker"] = _mm(dat.meshmaker)
    out["gens"] = [{"name": x.name, "block": x.block, "type": x.type.strip(), "ltab": x.ltab or None, "itab": (x.itab or "").strip(),
                    "n": [x.nseq, x.nadd, x.nads], "v": [_f(x.gx), _f(x.ex), _f(x.hg), _f(x.fg)],
                    "time": [_f(t) for t in x.time], "rate": [_f(t) for t in x.rate], "enthalpy": [_f(t) for t in x.enthalpy]}
                   for x in dat.generatorlist]
    so = dat.short_output
    out["short"] = {"frequency": so.get("frequency") or None,
                    "block": [b.name for b in so.get("block", [])] or None,
                    "connection": [[c.block[0].name, c.block[1].name] for c in so.get("connection", [])] or None,
                    "generator": [[x.block, x.name] for x in so.get("generator", [])] or None} if so else None
    out["foft"] = [b if isinstance(b, str) else b.name for b in dat.history_block]
    out["coft"] = [list(c) if isinstance(c, tuple) else [c.block[0].name, c.block[1].name] for c in dat.history_connection]
    out["goft"] = [b if isinstance(b, str) else b.name for b in dat.history_generator]
    out["incon"] = dict((k, [_f(v[0]), [_f(x) for x in _trim(v[1])]] + ([v[2], v[3]] if len(v) >= 4 and v[2] is not None else []))
                        for k, v in dat.incon.items())
    out["indom"] = dict((k.strip(), [_f(x) for x in _trim(v)]) for k, v in dat.indom.items())
    return out


def _mm(mm):
    out = []
    for stype, sec in mm:
        if stype == "rz2d":
            out.append(["rz2d", [[k, dict((a, ([_f(x) for x in b] if isinstance(b, list) else _f(b))) for a, b in v.items() if b is not None)]
                                 for k, v in sec]])
        elif stype == "xyz":
            out.append(["xyz", [_f(sec[0])] + [dict((a, ([_f(x) for x in b] if isinstance(b, list) else _f(b))) for a, b in s.items() if b is not None)
                                               for s in sec[1:]]])
        else:
            out.append(["minc", dict((a, (_trim([_f(x) for x in b]) if isinstance(b, list) else _f(b))) for a, b in sec.items() if b is not None)])
    return out


def first_difference(a, b, path="", rtol=0.0):
    if rtol and isinstance(a, (int, float)) and isinstance(b, (int, float)) and not isinstance(a, bool):
        return None if abs(a - b) <= rtol * max(abs(a), abs(b)) else "%s: %r != %r" % (path, a, b)
    if type(a) != type(b) and not (isinstance(a, (int, float)) and isinstance(b, (int, float))):
        return "%s: %r != %r" % (path, a, b)
    if isinstance(a, dict):
        for k in sorted(set(a) | set(b), key=str):
            if k not in a or k not in b:
                return "%s.%s: %r != %r" % (path, k, a.get(k, "<absent>"), b.get(k, "<absent>"))
            d = first_difference(a[k], b[k], path + "." + str(k), rtol)
            if d:
                return d
        return None
    if isinstance(a, (list, tuple)):
        if len(a) != len(b):
            return "%s: length %d != %d (%r vs %r)" % (path, len(a), len(b), a, b)
        for i, (x, y) in enumerate(zip(a, b)):
            d = first_difference(x, y, "%s[%d]" % (path, i), rtol)
            if d:
                return d
        return None
    if a != b:
        return "%s: %r != %r" % (path, a, b)
    return None


# ---------------------------------------------------------------- recorded write events -> spec records
KINDMAP = {"rocks1.1": "rocks1.1", "param1": "param1", "param1_autough2": "param1", "timestep": "timestep", "param3": "param3",
           "default_incons": "default_incons", "_more_option_str": "momop", "relative_permeability": "relative_permeability",
           "capillarity": "capillarity", "lineq": "lineq", "solver": "solver", "output_times2": "times2", "selec2": "selec2",
           "diffusion": "diffusion", "blocks": "blocks", "connections": "connections", "generation_times": "gen_times",
           "generation_rates": "gen_rates", "generation_enthalpy": "gen_enthalpy", "incon1": "incon1", "incon2": "incon2",
           "indom2": "indom2"}
MESHREC = {"radii1", "radii2", "equid", "logar", "layer1", "layer2", "xyz1", "xyz2", "xyz3", "minc", "part1", "part2"}
SECTION_KW = ["SIMUL", "ROCKS", "PARAM", "MOMOP", "START", "NOVER", "RPCAP", "LINEQ", "SOLVR", "MULTI", "TIMES", "SELEC", "DIFFU",
              "ELEME", "CONNE", "MESHM", "GENER", "SHORT", "FOFT", "COFT", "GOFT", "INCON", "INDOM", "ENDCY", "ENDFI"]


def abstract_stream(events, mainfile):
    """Spec-shaped record stream of the main data file from recorded write events."""
    out, buf, sec, rocks12 = [], "", None, 0
    first_line = True

    def line(text):
        nonlocal sec, first_line
        t = text.rstrip("\n")
        if first_line:
            first_line = False
            out.append({"k": "title"})
            return
        if not t.strip():
            out.append({"k": "blank"})
            if sec != "MESHM":
                sec = None
            return
        kw = t[:5].strip()
        prev_blank = bool(out) and out[-1]["k"] == "blank"
        if sec == "SIMUL":
            out.append({"k": "simulator"})
            sec = None
            return
        if sec == "SHORT":
            out.append({"k": "kw", "name": kw} if t.strip() in ("ELEME", "CONNE", "GENER") else {"k": "name"})
            return
        if sec in ("FOFT", "COFT", "GOFT", "INDOM"):
            out.append({"k": "name"})
            return
        if sec == "MESHM" and not (prev_blank and kw in SECTION_KW):
            out.append({"k": "meshmaker"})
            return
        name = "MESHM" if t.startswith("MESHM") else kw
        out.append({"k": "kw", "name": name})
        sec = name
    for e in events:
        if e["file"] != mainfile:
            continue
        if e["op"] == "raw":
            buf += e["text"]
            while "\n" in buf:
                l, buf = buf.split("\n", 1)
                line(l + "\n")
        elif e["op"] == "w":
            k, v = e["kind"], e["vals"]
            if k == "rocks1":
                rocks12 = 0
                out.append({"k": "rocks1", "nad": v[1] or 0})
            elif k == "rocks1.2":
                rocks12 += 1
                out.append({"k": "rocks1.2" if rocks12 == 1 else "rocks1.3"})
            elif k == "param2":
                out.append({"k": "param2", "nts": int(-v[2]) if v[2] is not None and v[2] < 0 else 0})
            elif k in ("multi", "multi_autough2"):
                out.append({"k": "multi", "ncomp": v[0]})
            elif k == "output_times1":
                out.append({"k": "times1", "n": v[0]})
            elif k == "selec1":
                out.append({"k": "selec1", "n": v[0]})
            elif k == "generator":
                out.append({"k": "generator", "ltab": v[5] or 0, "delv": (v[7] or "").strip() == "DELV", "itab": bool((v[8] or "").strip())})
            elif k in MESHREC:
                out.append({"k": "meshmaker"})
            elif k in KINDMAP:
                out.append({"k": KINDMAP[k]})
            else:
                out.append({"k": k})
    return collapse(out)


def collapse(stream):
    """MESHMAKER bodies are compared as one record (their internal structure is checked by the round trip);
    a blank directly after a MESHMAKER body's own blank is the section terminator."""
    out = []
    for r in stream:
        if r["k"] == "meshmaker" and out and out[-1]["k"] == "meshmaker":
            continue
        out.append(r)
    res, i = [], 0
    while i < len(out):
        res.append(out[i])
        if out[i]["k"] == "meshmaker" and i + 2 < len(out) and out[i + 1]["k"] == "blank" and out[i + 2]["k"] == "blank":
            res.append(out[i + 1])
            i += 3
            continue
        i += 1
    return res
