"""Binding between specs/T2Grid.tla and the real t2grid (C08, C09).

* Adapter: applies a spec action (the spec's `last` record) to a real t2grid
  and projects the real grid onto the spec's variables.  Real objects are
  tagged with ids (`_vid`) the same way the spec allocates them (lowest unused).
* s2c(): TLC exports every transition of the bounded state graph; each is
  replayed on the real grid (pre-state objects cached per abstract state) and
  the projected post-state compared with the specified one.  Mismatching
  steps become 2-state traces for the validator, which decides whether a
  property clause is false (violation) or only the spec differs (drift).
* c2s(): recorded executions of the real code (random drivers on grids built
  from geometries, with MINC / reorder / rename) validated by TLC with
  T2GridTrace: invariants in every state, action clauses on every step.
"""
import copy
import json
import os
import random
import tempfile

from . import core, tlc

NOCOS = 99


# ---------------------------------------------------------------- naming
def real_block(n):
    return ('x' + n + '  1') if len(n) == 1 else (n + '  1')


def abs_block(s):
    if isinstance(s, str) and len(s) == 5 and s.endswith('  1'):
        return s[1] if s[0] == 'x' else s[:2]
    return "?" + str(s)


def real_rock(r):
    return ('rock' + r) if len(r) == 1 else ('Xock' + r[1:])


def abs_rock(s):
    if isinstance(s, str) and len(s) == 5 and s.startswith('rock'):
        return s[4]
    if isinstance(s, str) and len(s) == 5 and s.startswith('Xock'):
        return 'X' + s[4]
    return "?" + str(s)


def _tok(x, scale):
    if x is None:
        return 0
    v = float(x) / scale
    r = int(round(v))
    if abs(v - r) > 1e-6 * max(1.0, abs(v)):
        return int(round(v * 1000)) + 1000000      # unmistakably not a spec token
    return r


def lowest_unused(used):
    i = 1
    while i in used:
        i += 1
    return i


class Adapter(object):
    """Drives one real t2grid along spec actions and projects it."""

    def __init__(self, t2grids):
        self.m = t2grids
        self.grid = t2grids.t2grid()
        self.reg = {}          # id(obj) -> (obj, vid): identity of the real objects, not an attribute a copy would inherit

    def __deepcopy__(self, memo):
        new = self.__class__.__new__(self.__class__)
        new.__dict__.update(self.__dict__)
        new.grid = copy.deepcopy(self.grid, memo)
        new.reg = {}
        for o, v in self.reg.values():
            o2 = copy.deepcopy(o, memo)
            new.reg[id(o2)] = (o2, v)
        return new

    def vid(self, o):
        e = self.reg.get(id(o))
        return e[1] if e is not None else None

    def setvid(self, o, v):
        self.reg[id(o)] = (o, v)

    # ---- ids
    def _live(self, lst, dct):
        ids = set()
        for o in list(lst) + list(dct.values()):
            v = self.vid(o)
            if v is not None:
                ids.add(v)
        return ids

    def _tag_new(self, lst, dct):
        used = self._live(lst, dct)
        for o in list(lst) + list(dct.values()):
            if self.vid(o) is None:
                v = lowest_unused(used)
                self.setvid(o, v)
                used.add(v)

    def tag_all(self):
        g = self.grid
        self._tag_new(g.rocktypelist, g.rocktype)
        self._tag_new(g.blocklist, g.block)
        self._tag_new(g.connectionlist, g.connection)

    # ---- applying spec actions
    def apply(self, a):
        g, m = self.grid, self.m
        op = a["op"]
        with core.quiet():
            if op == "add_rocktype":
                rt = m.rocktype(real_rock(a["r"]))
                self.setvid(rt, lowest_unused(self._live(g.rocktypelist, g.rocktype)))
                g.add_rocktype(rt)
            elif op == "delete_rocktype":
                g.delete_rocktype(real_rock(a["r"]))
            elif op == "rename_rocktype":
                g.rename_rocktype(real_rock(a["r"]), real_rock(a["q"]))
            elif op == "clean_rocktypes":
                g.clean_rocktypes()
            elif op == "add_block":
                import numpy as np
                used = self._live(g.blocklist, g.block)
                bid = lowest_unused(used)
                b = m.t2block(real_block(a["n"]), float(a["v"]), g.rocktype[real_rock(a["r"])],
                              centre=np.array([float(bid), 0., 0.]))
                self.setvid(b, bid)
                g.add_block(b)
            elif op == "delete_block":
                g.delete_block(real_block(a["n"]))
            elif op == "add_connection":
                used = self._live(g.connectionlist, g.connection)
                cid = lowest_unused(used)
                k = a["k"]
                direction = {"v": 3, "h": 1}.get(k, 2)
                cos = {"v": -1.0, "h": 0.0}.get(k, 1.0)
                c = m.t2connection([g.block[real_block(a["a"])], g.block[real_block(a["b"])]], direction,
                                   [10.0 * (2 * cid - 1), 10.0 * (2 * cid)], 100.0 * cid, cos)
                self.setvid(c, cid)
                g.add_connection(c)
            elif op == "replace_connection":
                used = self._live(g.connectionlist, g.connection)
                cid = lowest_unused(used)
                k = a["k"]
                c = m.t2connection([g.block[real_block(a["a"])], g.block[real_block(a["b"])]], {"v": 3, "h": 1}.get(k, 2),
                                   [10.0 * (2 * cid - 1), 10.0 * (2 * cid)], 100.0 * cid, {"v": -1.0, "h": 0.0}.get(k, 1.0))
                self.setvid(c, cid)
                g.add_connection(c)
            elif op == "delete_connection":
                g.delete_connection((real_block(a["a"]), real_block(a["b"])))
            elif op == "demote_block":
                names = [real_block(n) for n in a["names"]]
                g.demote_block(names[0] if len(names) == 1 else names)
            elif op == "rename_blocks":
                g.rename_blocks(dict((real_block(k), real_block(v)) for k, v in a["m"].items()))
            elif op == "reorder":
                bn = [g.blocklist[i - 1].name for i in a["bp"]] or None
                cn = []
                for i in a["cp"]:
                    c = g.connectionlist[i - 1]
                    names = tuple(b.name for b in c.block)
                    cn.append(names[::-1] if self.vid(c) in a["rev"] else names)
                g.reorder(bn, cn or None)
            elif op == "minc":
                scale = {"unit": 0.01, "sub": 0.006, "pct": 1.0, "wt": 0.05}[a.get("sc", "unit")]
                fr = [f * scale for f in a["fr"]]
                sel = [real_block(n) for n in a["sel"]] or None
                g.minc(fr, blocks=sel, atmos_volume=float(self.atmvol))
            elif op == "embed":
                import numpy as np
                n = a["n"]
                sub = m.t2grid()
                rt = m.rocktype(real_rock(a["r"]))
                self.setvid(rt, lowest_unused(self._live(g.rocktypelist, g.rocktype)))
                sub.add_rocktype(rt)
                used = self._live(g.blocklist, g.block)
                sb = []
                for j in range(n):
                    bid = lowest_unused(used)
                    used.add(bid)
                    b = m.t2block(real_block(["s", "t"][j]), 100.0, rt, centre=np.array([float(bid), 0., 0.]))
                    self.setvid(b, bid)
                    sub.add_block(b)
                    sb.append(b)
                cused = self._live(g.connectionlist, g.connection)
                for j in range(n - 1):
                    cid = lowest_unused(cused)
                    cused.add(cid)
                    c = m.t2connection([sb[j], sb[j + 1]], 1, [10.0 * (2 * cid - 1), 10.0 * (2 * cid)], 100.0 * cid, 0.0)
                    self.setvid(c, cid)
                    sub.add_connection(c)
                cid = lowest_unused(cused)
                k = a["k"]
                hostobj, subobj = g.block[real_block(a["h"])], sb[0]
                if a.get("copy_link"):
                    # the linking connection described with block objects that carry the right names but are not the grids' own
                    import copy as _cp
                    hostobj, subobj = _cp.copy(hostobj), _cp.copy(subobj)
                link = m.t2connection([hostobj, subobj], {"v": 3, "h": 1}.get(k, 2),
                                      [10.0 * (2 * cid - 1), 10.0 * (2 * cid)], 100.0 * cid,
                                      {"v": -1.0, "h": 0.0}.get(k, 1.0))
                self.setvid(link, cid)
                res = g.embed(sub, link)
                if res is None:
                    raise RuntimeError("embed() refused an in-domain embedding")
                self.grid = res
            elif op == "refused":
                # a call outside the operation's precondition: the library may raise (that is the documented refusal);
                # whatever it does, the state it leaves behind is recorded and judged
                try:
                    c = a["call"]
                    if c == "rename_rocktype":
                        g.rename_rocktype(real_rock(a["r"]), real_rock(a["q"]))
                    elif c == "delete_block":
                        g.delete_block(real_block(a["n"]))
                    elif c == "delete_connection":
                        g.delete_connection((real_block(a["a"]), real_block(a["b"])))
                    elif c == "delete_rocktype":
                        g.delete_rocktype(real_rock(a["r"]))
                    elif c == "readd_block":
                        g.add_block(g.block[real_block(a["n"])])
                    elif c == "readd_connection":
                        g.add_connection(g.connection[(real_block(a["a"]), real_block(a["b"]))])
                    elif c == "minc":
                        g.minc([f * 0.01 for f in a["fr"]], blocks=[real_block(n) for n in a["sel"]], atmos_volume=float(self.atmvol))
                    a["raised"] = False
                except Exception as ex:
                    a["raised"] = True
            else:
                raise ValueError("unknown op " + op)
        self.tag_all()

    atmvol = 100000

    # ---- projection onto the spec's variables (JSON shape of T2GridTrace)
    def project(self):
        g = self.grid
        self.tag_all()

        def bname(b):
            return abs_block(b.name)

        V = self.vid
        blocks = [{"id": V(b), "name": bname(b), "rock": abs_rock(b.rocktype.name),
                   "vol": _tok(b.volume, 1.0),
                   "ctr": _tok(b.centre[0] if b.centre is not None else 0, 1.0)} for b in g.blocklist]
        blockDict = sorted([abs_block(k), V(v)] for k, v in g.block.items())
        conns = []
        for c in g.connectionlist:
            minc = c.dircos is None
            conns.append({"id": V(c),
                          "b1": V(c.block[0]) or 0, "b2": V(c.block[1]) or 0,
                          "d1": 0 if minc else _tok(c.distance[0], 10.0),
                          "d2": 0 if minc else _tok(c.distance[1], 10.0),
                          "area": 0 if minc else _tok(c.area, 100.0),
                          "dir": int(c.direction),
                          "cos": NOCOS if minc else _tok(c.dircos, 1.0)})
        connDict = sorted([abs_block(k[0]), abs_block(k[1]), V(v)] for k, v in g.connection.items())
        seen, connNames = set(), []
        for b in list(g.blocklist) + list(g.block.values()):
            if id(b) in seen:
                continue
            seen.add(id(b))
            connNames.append([V(b), sorted([abs_block(k[0]), abs_block(k[1])] for k in b.connection_name)])
        connNames.sort()
        rocks = [{"id": V(r), "name": abs_rock(r.name)} for r in g.rocktypelist]
        rockDict = sorted([abs_rock(k), V(v)] for k, v in g.rocktype.items())
        return {"blocks": blocks, "blockDict": blockDict, "conns": conns, "connDict": connDict,
                "connNames": connNames, "rocks": rocks, "rockDict": rockDict}


def canon(st):
    """Canonical form of a spec-emitted or projected state (sets arrive in arbitrary order)."""
    return {
        "blocks": [dict(b) for b in st["blocks"]],
        "blockDict": sorted([list(p) for p in st["blockDict"]]),
        "conns": [dict(c) for c in st["conns"]],
        "connDict": sorted([list(p) for p in st["connDict"]]),
        "connNames": sorted([[p[0], sorted([list(k) for k in p[1]])] for p in st["connNames"]]),
        "rocks": [dict(r) for r in st["rocks"]],
        "rockDict": sorted([list(p) for p in st["rockDict"]]),
    }


def key(st):
    return json.dumps(canon(st), sort_keys=True)


# ---------------------------------------------------------------- trace validation
TRACE_CFG = """CONSTANTS
  Base = {"a", "b", "c", "d", "e", "f", "g", "h", "ya", "yb", "yc"}
  RockBase = {"p", "q", "r"}
  Kinds = {"v"}
  Fracs = {}
  MaxBlocks = 0
  AtmVol = %d
INIT TraceInit
NEXT TraceNext
CONSTRAINT ReportState
ACTION_CONSTRAINT ReportStep
CHECK_DEADLOCK FALSE
"""


def validate_traces(traces, atmvol=100000, timeout=900):
    """traces: list of [ {act, state}, ... ].  Returns (findings, tlc result).

    findings: list of dicts {tid (0-based), l (0-based event index), failing, drift, kind}."""
    if not traces:
        return [], None
    work = tlc.scratch_dir("traces-")
    try:
        path = os.path.join(work, "traces.json")
        with open(path, "w") as fh:
            json.dump(traces, fh)
        r = tlc.run_tlc("T2GridTrace", None, cfg_text=TRACE_CFG % atmvol, workers=1, timeout=timeout,
                        env={"TRACE_FILE": path}, allow_violation=False, heap="8g")
    finally:
        import shutil
        shutil.rmtree(work, ignore_errors=True)
    total = sum(len(t) for t in traces)
    if r.distinct != total:
        raise tlc.MachineryError("trace validation visited %d states, %d events recorded" % (r.distinct, total))
    out = []
    for e in r.emitted:
        out.append({"tid": e["tid"] - 1, "l": e["l"] - 1, "failing": sorted(e["failing"]),
                    "drift": e["drift"], "kind": e["kind"]})
    return out, r


# ---------------------------------------------------------------- spec -> code
EXPORT_MODULE = """---- MODULE GEN_T2Grid ----
EXTENDS T2Grid, Json
MCFracs == %(fracs)s
Abs == [blocks |-> blocks,
        blockDict |-> {<<n, blockDict[n]>> : n \\in DOMAIN blockDict},
        conns |-> conns,
        connDict |-> {<<k[1], k[2], connDict[k]>> : k \\in DOMAIN connDict},
        connNames |-> {<<b, connNames[b]>> : b \\in DOMAIN connNames},
        rocks |-> rocks,
        rockDict |-> {<<n, rockDict[n]>> : n \\in DOMAIN rockDict}]
EmitStep == PrintT("EMIT" \\o ToJson([pre |-> Abs, act |-> last', post |-> Abs']))
MCDepth == TLCGet("level") <= %(depth)d /\\ Bound
====
"""

EXPORT_CFG = """CONSTANTS
  Base = %(base)s
  RockBase = %(rocks)s
  Kinds = %(kinds)s
  Fracs <- MCFracs
  MaxBlocks = %(maxblocks)d
  AtmVol = 100000
INIT Init
NEXT Next
VIEW View
CONSTRAINT MCDepth
ACTION_CONSTRAINT EmitStep
CHECK_DEADLOCK FALSE
"""


def export_transitions(depth, base, rocks, kinds, fracs, maxblocks, timeout=900):
    def s(xs):
        return "{" + ", ".join(json.dumps(x) for x in xs) + "}"
    fr = "{" + ", ".join(tlc.tla_value(list(f)) for f in fracs) + "}"
    r = tlc.run_tlc("GEN_T2Grid", None, workers=1, timeout=timeout,
                    extra_modules={"GEN_T2Grid.tla": EXPORT_MODULE % {"fracs": fr, "depth": depth}},
                    cfg_text=EXPORT_CFG % {"base": s(base), "rocks": s(rocks), "kinds": s(kinds),
                                           "maxblocks": maxblocks}, allow_violation=False, heap="8g")
    return r


def s2c(t2grids, rep, depth, base, rocks, kinds, fracs, maxblocks):
    """Replay every exported transition on the real grid.  Returns list of
    mismatch traces (2 events each) plus bookkeeping in rep."""
    r = export_transitions(depth, base, rocks, kinds, fracs, maxblocks)
    rep.add_tlc("GEN_T2Grid depth<=%d base=%s (transition export)" % (depth, "".join(base)), r)
    init = Adapter(t2grids)
    cache = {key(init.project()): init}
    mism, errors = [], []
    n = 0
    for t in r.emitted:
        kpre = key(t["pre"])
        ad = cache.get(kpre)
        if ad is None:
            # TLC generates breadth-first with one worker, so the pre-state was produced earlier;
            # if the real code diverged there, that divergence was already recorded.
            continue
        cur = copy.deepcopy(ad)
        act = t["act"]
        n += 1
        rep.case(("s2c", act["op"], kpre[:0] + json.dumps(act, sort_keys=True), hash(kpre)))
        try:
            cur.apply(act)
        except Exception as e:          # a call inside the domain must not raise
            errors.append({"pre": canon(t["pre"]), "act": act, "error": repr(e)})
            continue
        got = cur.project()
        kpost = key(t["post"])
        if key(got) == kpost:
            if kpost not in cache:
                cache[kpost] = cur
        else:
            mism.append({"trace": [{"act": {"op": "init"}, "state": canon(t["pre"])},
                                   {"act": act, "state": canon(got)}],
                         "expected": canon(t["post"])})
        if n <= 3:
            rep.sample({"s2c_transition": {"act": act, "post_blocks": [b["name"] for b in t["post"]["blocks"]]}})
    rep.traces += n
    rep.extra["s2c_transitions_replayed"] = rep.extra.get("s2c_transitions_replayed", 0) + n
    rep.extra["s2c_abstract_states_reached_in_code"] = len(cache)
    return mism, errors


# ---------------------------------------------------------------- code -> spec: random drivers
def random_action(ad, rng, base, rocks, kinds, fracs, allow_minc=True):
    """Choose an in-domain action from the *real* grid's current state."""
    g = ad.grid
    live = [abs_block(b.name) for b in g.blocklist]
    liveset = set(live)
    rks = [abs_rock(r.name) for r in g.rocktypelist]
    used = set(abs_rock(b.rocktype.name) for b in g.blocklist)
    ckeys = [(abs_block(k[0]), abs_block(k[1])) for k in g.connection]
    for _ in range(50):
        op = rng.choice(["add_rocktype", "delete_rocktype", "rename_rocktype", "clean_rocktypes",
                         "add_block", "add_block", "delete_block", "add_connection", "add_connection",
                         "delete_connection", "demote_block", "rename_blocks", "rename_blocks",
                         "reorder", "reorder", "minc", "embed"])
        if rng.random() < 0.08:
            c = rng.choice(["rename_rocktype", "delete_block", "delete_connection", "delete_rocktype", "minc", "minc",
                            "readd_block", "readd_block", "readd_connection"])
            if c == "readd_block" and live:
                # the block object that is already there, added again (after an edit of its attributes, say): nothing to do
                return {"op": "refused", "call": c, "n": rng.choice(live), "clean": True}
            if c == "readd_connection" and ckeys:
                x, y = rng.choice(ckeys)
                return {"op": "refused", "call": c, "a": x, "b": y, "clean": True}
            if c == "rename_rocktype" and len(rks) >= 2:
                r, q = rng.sample(rks, 2)
                return {"op": "refused", "call": c, "r": r, "q": q, "clean": True}
            if c == "delete_block":
                miss = [n for n in base if n not in liveset]
                if miss:
                    return {"op": "refused", "call": c, "n": rng.choice(miss), "clean": True}
            if c == "delete_connection" and len(live) >= 2:
                x, y = rng.sample(live, 2)
                if (x, y) not in ckeys:
                    return {"op": "refused", "call": c, "a": x, "b": y, "clean": True}
            if c == "delete_rocktype":
                miss = [r for r in rocks if r not in rks]
                if miss:
                    return {"op": "refused", "call": c, "r": rng.choice(miss), "clean": True}
            if c == "minc" and allow_minc:
                # two selected blocks whose names differ only in the first character: their matrix block names collide
                blocks = dict((abs_block(b.name), b) for b in g.blocklist)
                pairs = [(n, "y" + n) for n in live if len(n) == 1 and ("y" + n) in liveset and ("1" + n) not in liveset
                         and 0 < blocks[n].volume < ad.atmvol and 0 < blocks["y" + n].volume < ad.atmvol]
                if pairs:
                    sel = list(rng.choice(pairs))
                    rng.shuffle(sel)
                    return {"op": "refused", "call": c, "fr": [10, 90], "sel": sel, "clean": False}
            continue
        if op == "embed" and live:
            h = rng.choice(live)
            n = rng.randint(1, 2)
            blocks = dict((abs_block(b.name), b) for b in g.blocklist)
            if "s" not in liveset and "t" not in liveset and blocks[h].volume > 100.0 * n + 1e-9 \
                    and abs(blocks[h].volume - round(blocks[h].volume)) < 1e-9:
                r = rng.choice(rocks)
                if r in rks and r in used:
                    continue
                return {"op": op, "h": h, "n": n, "r": r, "k": rng.choice(kinds), "copy_link": rng.random() < 0.4}
            continue
        if op == "add_rocktype":
            r = rng.choice(rocks)
            if r in rks and r in used:
                # replacing a rock type that blocks still use leaves those blocks with the old object: legal, but the
                # library then leaves renaming that name to the caller's care - the driver does not rename it afterwards
                ad.stale_rocks = getattr(ad, "stale_rocks", set()) | {r}
            return {"op": op, "r": r}
        if op == "delete_rocktype":
            c = [r for r in rks if r not in used]
            if c:
                return {"op": op, "r": rng.choice(c)}
        if op == "rename_rocktype":
            c = [q for q in rocks if q not in rks]
            ok = [r for r in rks if r not in getattr(ad, "stale_rocks", set())]
            if ok and c:
                return {"op": op, "r": rng.choice(ok), "q": rng.choice(c)}
        if op == "clean_rocktypes":
            return {"op": op}
        if op == "add_block":
            c = [n for n in base if n not in liveset]
            if c and rks:
                # mostly ordinary blocks; now and then an inactive one (zero volume) or a boundary block (above the atmosphere volume)
                return {"op": op, "n": rng.choice(c), "r": rng.choice(rks), "v": rng.choice([1000] * 6 + [0, 200000])}
        if op == "delete_block" and live:
            return {"op": op, "n": rng.choice(live)}
        if op == "add_connection" and len(live) >= 2:
            a, b = rng.sample(live, 2)
            if (a, b) not in ckeys and (b, a) not in ckeys:
                return {"op": op, "a": a, "b": b, "k": rng.choice(kinds)}
        if op == "add_connection" and ckeys and rng.random() < 0.5:
            a, b = rng.choice(ckeys)                             # under a name pair that is already there: replaces it in place
            return {"op": "replace_connection", "a": a, "b": b, "k": rng.choice(kinds)}
        if op == "delete_connection" and ckeys:
            a, b = rng.choice(ckeys)
            return {"op": op, "a": a, "b": b}
        if op == "demote_block" and live:
            k = rng.randint(1, min(3, len(live)))
            names = rng.sample(live, k)
            if rng.random() < 0.3:          # the same block named twice (overlapping selections concatenated)
                names = names + [rng.choice(names)]
            return {"op": op, "names": names}
        if op == "rename_blocks" and live:
            k = rng.randint(1, len(live))
            src = rng.sample(live, k)
            free = [n for n in base if n not in liveset or n in src]
            if len(free) >= k:
                dst = rng.sample(free, k)
                if any(s != d for s, d in zip(src, dst)):
                    return {"op": op, "m": dict(zip(src, dst))}
        if op == "reorder" and (len(live) >= 2 or len(ckeys) >= 1):
            bp = list(range(1, len(live) + 1))
            cp = list(range(1, len(g.connectionlist) + 1))
            rng.shuffle(bp)
            rng.shuffle(cp)
            mode = rng.choice(["b", "c", "bc"])
            if mode == "b" or not cp:
                cp = []
            if mode == "c" and cp:
                bp = []
            if not bp and not cp:
                continue
            rev = [ad.vid(c) for c in g.connectionlist if rng.random() < 0.4] if cp else []
            return {"op": op, "bp": bp, "cp": cp, "rev": sorted(rev)}
        if op == "minc" and allow_minc and live:
            fr = list(rng.choice(fracs))
            sel = [] if rng.random() < 0.4 else rng.sample(live, rng.randint(1, len(live)))
            tg = sel or live
            blocks = dict((abs_block(b.name), b) for b in g.blocklist)
            ok = all(len(n) == 1 for n in tg) and all((str(m) + n) not in liveset for n in tg for m in range(1, len(fr)))
            ok = ok and all(abs(blocks[n].volume * f / 100.0 - round(blocks[n].volume * f / 100.0)) < 1e-9
                            for n in tg for f in fr)
            if ok:
                return {"op": op, "fr": fr, "sel": sel, "sc": rng.choice(["unit", "sub", "pct", "wt"])}
    return {"op": "clean_rocktypes"}


def random_traces(t2grids, rng, ntraces, length, base, rocks, kinds, fracs):
    traces = []
    for _ in range(ntraces):
        ad = Adapter(t2grids)
        tr = [{"act": {"op": "init"}, "state": ad.project()}]
        for _ in range(length):
            a = random_action(ad, rng, base, rocks, kinds, fracs)
            try:
                ad.apply(a)
            except Exception as e:
                tr.append({"act": a, "state": ad.project(), "error": repr(e)})
                break
            tr.append({"act": a, "state": ad.project()})
            if a["op"] == "refused" and not a["clean"]:
                break           # what a partially applied call leaves behind is judged, but not built upon
        traces.append(tr)
    return traces
